"""C14 — samplers draw from the distribution their tensor defines."""
import itertools
import math
import warnings
from fractions import Fraction

import numpy as np
from harness import common as C

THEOREMS = 'Properties/C14.v'
CLAIM = dict(
    text='Coq theorems about Model/Sample.v, each for every d >= 1, all mode sizes >= 1, ranks, sample counts m and EVERY '
         'generator (the generator is an oracle that receives the probability vector; contract: choice(n, p=p) < len(p), '
         'choice(k, s, replace=False) = s distinct indices < k, shuffle = a permutation), over every number structure '
         'with the ring laws, a/b = a*(1/b), b*(1/b) = 1, decidable equality and an order test compatible with + '
         '(instance proved: Qc; the two non-negativity theorems also use a/b >= 0 and a*a >= 0). '
         '(1) C14_sample_chain: for a non-negative TT-tensor and unsert u >= 0, if sample returns, there are m rows, every '
         'drawn multi-index is inside the bounds, each of the d vectors handed to choice sums to 1 and their entries '
         'along the multi-index multiply to entry/total when u = 0, and satisfy the exact formula '
         'prod*marg0 = ((marg0+u)/(total+n0*u))*entry for any u. '
         '(2) C14_sample_in_bounds, C14_sample_probs_nonneg: shape [m, d], bounds and non-negative entries of every handed '
         'vector for ANY (signed) tensor; C14_sample_returns: with unsert = 0, a non-negative tensor of non-zero total '
         'and a generator that never returns an index of probability zero, sample does not raise. '
         '(3) C14_square_chain (+ _scaled, _terminates): given the orthogonality contract of orthogonalize(Y, 0) (cores '
         '1..d-1 with orthonormal rows; Y = c*Z entrywise), sample_square returns m rows inside the bounds, pairwise '
         'distinct when unique, all taken from the last attempt, and every row drawn in every attempt (restarts '
         'included) has d distributions whose entries along the row multiply to entry^2/||Z||^2 = entry^2/||Y||^2; '
         'the restart loop never runs out of fuel; C14_square_probs_nonneg: all handed vectors have non-negative entries; '
         'C14_square_returns: with ||Z||^2 <> 0 and a generator that never returns an index of probability zero the '
         'only exception left is the ValueError of the unique-rows restart logic. '
         '(4) C14_sample_lhs_shape / C14_lhs_counts: sample_lhs returns [m, d] inside the bounds and uses every index of '
         'mode i floor(m/n_i) times, or floor+1 = ceil times when n_i does not divide m. '
         '(5) C14_sample_rand_shape: shape and bounds; ValueError exactly for d = 0; C14_sample_rand_poi_shape: shape '
         '[m, d], entry (j, i) is a value returned by uniform(a_i, b_i). '
         '(6) C14_tt_layout / C14_tt_bounds: sample_tt returns idx = block offsets (d+1 entries, 0 .. number of rows), '
         'idx_many = number of right samples, block i = n_i x lhs(prefix) x lhs(suffix) with row (v*len_1+a)*len_2+c '
         '= L1[a] ++ [v] ++ L2[c]; all rows inside the bounds. '
         'Not proved (validated numerically only): that orthogonalize meets its contract (property C04; residual checked '
         'on every recorded call), progress of sample with unsert > 0 (a zero marginal slice can then be drawn and the next '
         'conditional is 0/0: ValueError, modelled), statistical behaviour of the real generator '
         '(chi-square in the search).',
    note='The model is tied to sample.py on every run by an auditing numpy Generator subclass passed as `seed`: every '
         'probability vector it receives is compared with the model (Qc, exact rationals, 1e-12), every returned array '
         'exactly, with the oracle answers replayed by call number; forced (adversarial) answers reach every '
         'multi-index including zero-probability ones. float_cf of sample_square is not modelled. The theorems are '
         'statements about exact arithmetic; in floats they hold up to rounding (checked to 1e-10 by the search).',
    technique='Coq proof (telescoping of partial products against right marginals; isometry of row-orthonormal cores; '
              'induction over cores; permutation / counting lemmas for LHS; offsets of concatenated blocks) + '
              'audited-generator correspondence + exhaustive per-multi-index product check on the implementation')
TRUSTED = ['Coq 8.16.1 kernel + vm_compute (case evaluation only)',
           'hand-written model Model/Sample.v tied to sample.py by the audited-generator correspondence',
           'oracle contracts: Generator.choice(n, p=p) returns an index < n; choice(k, s, replace=False) returns s '
           'distinct indices < k; shuffle permutes; uniform(a, b) lies in [a, b]; validated on every recorded call',
           'orthogonality contract of teneva.orthogonalize(Y, 0, use_stab=True) (property C04): cores 1..d-1 have '
           'orthonormal rows in the right unfolding and Z*2^p denotes Y; validated numerically on every recorded call',
           'NumPy semantics of einsum / maximum / sum / unique(axis=0) / repeat / concatenate / vstack as modelled',
           'loop nest of sample / sample_square (mode-major over rows) identified with call numbers base+1+(k-1)*m+j']
ASSUMPTIONS = ['sample_square(float_cf != None) is outside the model (self-declared TODO in the source)',
               'probability vectors are compared to 1e-12 (implementation: float64; model: exact rationals on the same '
               'inputs, for sample_square on the recorded float cores of the orthogonalised tensor)']
TIME_LIMIT = {'quick': 900, 'thorough': 5400}

TOL = 1e-12

HEADER = r'''From Coq Require Import List ZArith QArith Qcanon Bool Arith.
From TV Require Import Num.Ops Lin.Tab TT.Chain Model.Sample.
Import ListNotations.
Open Scope nat_scope.
Definition qz (z : Z) : Qc := Q2Qc (inject_Z z).
Definition mkc (r1 n r2 : nat) (d : list (list (list Qc))) : core Qc := mk_core r1 n r2 d.
Definition showq (x : Qc) : Z * Z := (Qnum (this x), Zpos (Qden (this x))).
Definition lk_ch (rec : list (list nat)) (c t : nat) (p : list Qc) : nat := nth t (nth c rec []) 0.
Definition lk_chnr (rec : list (nat * nat * list nat)) (c k s : nat) : list nat :=
  match nth_error rec c with
  | Some (k', s', out) => if (k =? k') && (s =? s') then out else []
  | None => [] end.
Definition lk_shuf (rec : list (list nat * list nat)) (c : nat) (l : list nat) : list nat :=
  match nth_error rec c with
  | Some (before, after) => if list_eq_dec Nat.eq_dec l before then after else []
  | None => [] end.
Definition lk_shufr (rec : list (list (list nat) * list (list nat))) (c : nat) (l : list (list nat)) : list (list nat) :=
  match nth_error rec c with
  | Some (before, after) => if list_eq_dec (list_eq_dec Nat.eq_dec) l before then after else []
  | None => [] end.
Definition showS (r : result (list (list nat) * list (list (list Qc)))) :=
  match r with
  | Ok (II, P) => (0%Z, (II, map (map (map showq)) P))
  | Err e => (err_code e, ([], []))
  end.
Definition showSq (r : result (list (list nat) * list (list (list nat) * list (list (list Qc))))) :=
  match r with
  | Ok (II, att) => (0%Z, (II, map (fun a => (fst a, map (map (map showq)) (snd a))) att))
  | Err e => (err_code e, ([], []))
  end.
Definition showR (r : result (list (list nat))) : list (list nat) :=
  match r with Ok l => [0] :: l | Err e => [[Z.to_nat (err_code e)]] end.
Definition showRZ (r : result (list (list Z))) : list (list Z) :=
  match r with Ok l => [0%Z] :: l | Err e => [[err_code e]] end.
Definition showTT (x : list (list nat) * list nat * list nat) : list (list (list nat)) :=
  [fst (fst x); [snd (fst x)]; [snd x]].
'''


# ----------------------------------------------------------------------------
# the auditing generator
# ----------------------------------------------------------------------------

class Aud(np.random.Generator):
    """numpy Generator that records every call (and the probability vector it receives).  With `force`, the value
    numpy drew is replaced by force(kind, k-th call of that kind, n, size) (an adversarial oracle); numpy's own
    validation of `p` (NaN, negative, sum != 1) still runs first."""

    def __init__(self, seed, force=None):
        super().__init__(np.random.PCG64(seed))
        self.calls = []
        self.force = force

    def _count(self, kind):
        return sum(1 for c in self.calls if c['kind'] == kind)

    def choice(self, a, size=None, replace=True, p=None, axis=0, shuffle=True):
        r = super().choice(a, size=size, replace=replace, p=p, axis=axis, shuffle=shuffle)
        if np.ndim(a) == 0:
            n = int(a)
        else:
            arr = np.asarray(a)
            n = len(arr)
            assert arr.tolist() == list(range(n)), 'choice from something else than arange'
        kind = 'choice' if replace else 'choice_nr'
        if p is None and replace:
            kind = 'choice_u'
        if self.force is not None:
            f = self.force(kind, self._count(kind), n, size)
            if f is not None:
                r = np.int64(f) if size is None else np.array(f, dtype=np.int64)
        self.calls.append(dict(kind=kind, n=n, size=size, p=None if p is None else np.array(p, dtype=float).copy(),
                               out=np.array(r).copy()))
        return r

    def shuffle(self, x, axis=0):
        before = np.array(x).copy()
        super().shuffle(x, axis=axis)
        self.calls.append(dict(kind='shuffle', before=before, out=np.array(x).copy()))

    def permutation(self, x, axis=0):
        r = super().permutation(x, axis=axis)
        self.calls.append(dict(kind='permutation', before=np.array(x).copy(), out=np.array(r).copy()))
        return r

    def uniform(self, low=0.0, high=1.0, size=None):
        r = super().uniform(low, high, size)
        self.calls.append(dict(kind='uniform', low=float(low), high=float(high), size=size, out=np.array(r).copy()))
        return r

    def of(self, kind):
        return [c for c in self.calls if c['kind'] == kind]


def uniform_force(rng):
    """adversarial oracle: uniform over the range whatever p says (reaches zero-probability indices)"""
    def f(kind, k, n, size):
        if kind != 'choice':
            return None
        if size is None:
            return rng.randrange(n)
        return [rng.randrange(n) for _ in range(int(size))]
    return f


def script_force(rows):
    """oracle that makes row j of a sample / sample_square(unique=False) run walk the multi-index rows[j]"""
    m = len(rows)

    def f(kind, k, n, size):
        if kind != 'choice':
            return None
        if k == 0:
            return [r[0] for r in rows]
        mode, j = 1 + (k - 1) // m, (k - 1) % m
        return rows[j][mode]
    return f


# ----------------------------------------------------------------------------
# generators of inputs
# ----------------------------------------------------------------------------

def gen_tt(rng, d=None, nmax=4, rmax=3, lo=0, hi=3, zero_frac=0.0):
    d = d or rng.randint(2, 4)
    n = [rng.randint(1, nmax) for _ in range(d)]
    r = [1] + [rng.randint(1, rmax) for _ in range(d - 1)] + [1]
    Y = []
    for k in range(d):
        G = np.array([[[float(rng.randint(lo, hi)) for _ in range(r[k + 1])] for _ in range(n[k])]
                      for _ in range(r[k])]).reshape(r[k], n[k], r[k + 1])
        if zero_frac and rng.random() < zero_frac:
            G[:, rng.randrange(n[k]), :] = 0.0
        Y.append(G)
    return Y


# ----------------------------------------------------------------------------
# non-negative tensors whose cores (and right partial sums) have both signs
# ----------------------------------------------------------------------------

def right_sums(Y):
    """the vectors phi[1..d-1] sample() contracts with: right partial sums of the cores"""
    w, out = np.ones(1), []
    for G in reversed(Y[1:]):
        w = np.sum(G, axis=1) @ w
        out.append(w)
    return out


def _unimodular(rng, r):
    """integer matrix of determinant 1 and its (integer) inverse: a product of shears"""
    M, Mi = np.eye(r), np.eye(r)
    if r < 2:
        return M, Mi
    for _ in range(rng.randint(1, 3)):
        a = rng.randrange(r)
        b = (a + 1 + rng.randrange(r - 1)) % r
        c = float(rng.choice([-2, -1, 1, 2]))
        E, Ei = np.eye(r), np.eye(r)
        E[a, b], Ei[a, b] = c, -c
        M, Mi = M @ E, Ei @ Mi
    return M, Mi


def gen_gauged_int(rng, d, nmax=3, rmax=3):
    """non-negative integer tensor (non-negative cores of TT-rank >= 2 where possible) re-gauged by integer
    unimodular matrices between the cores: the tensor is unchanged (exactly), the cores and at least one right
    partial sum have negative entries"""
    for _ in range(200):
        n = [rng.randint(1, nmax) for _ in range(d)]
        r = [1] + [rng.randint(2, rmax) for _ in range(d - 1)] + [1]
        Y0 = [np.array([[[float(rng.randint(0, 2)) for _ in range(r[k + 1])] for _ in range(n[k])]
                        for _ in range(r[k])]).reshape(r[k], n[k], r[k + 1]) for k in range(d)]
        Y = [G.copy() for G in Y0]
        for k in range(d - 1):
            M, Mi = _unimodular(rng, Y[k].shape[2])
            Y[k] = np.einsum('aib,bc->aic', Y[k], M)
            Y[k + 1] = np.einsum('ab,bic->aic', Mi, Y[k + 1])
        A = full(Y)
        if not np.array_equal(A, full(Y0)) or A.sum() <= 0 or max(np.abs(G).max() for G in Y) > 64:
            continue
        if not any(w.min() < 0 for w in right_sums(Y)):
            continue
        return Y
    return Y


def gen_gauged_float(rng, d, kind):
    """strictly positive tensor re-gauged in floats (numpy only): 'orth' = right-to-left QR sweep (what
    orthogonalize / truncate / svd leave behind), 'rot' = random rotations / shears between the cores,
    'square' = Kronecker cores of mul(Y, Y) for a signed integer tensor Y (entries are squares)"""
    if kind == 'square':
        for _ in range(100):
            Ys = gen_tt(rng, d=d, nmax=2, rmax=2, lo=-2, hi=2)
            Y = [np.einsum('aib,cid->acibd', G, G).reshape(G.shape[0] ** 2, G.shape[1], G.shape[2] ** 2) for G in Ys]
            if full(Y).sum() > 0 and any(G.min() < 0 for G in Y):
                return Y
        return Y
    n = [rng.randint(2, 3) for _ in range(d)]
    R_ = rng.randint(2, 3)
    # sum of R_ positive rank-1 terms (e.g. exp of a separable smooth function): block-diagonal cores
    vecs = [[np.array([math.exp(rng.uniform(-1, 1) * (i + 1) / n[k]) for i in range(n[k])]) for k in range(d)]
            for _ in range(R_)]
    Y = []
    for k in range(d):
        r1, r2 = (1 if k == 0 else R_), (1 if k == d - 1 else R_)
        G = np.zeros((r1, n[k], r2))
        for t in range(R_):
            G[0 if k == 0 else t, :, 0 if k == d - 1 else t] = vecs[t][k]
        Y.append(G)
    if kind == 'orth':
        for k in range(d - 1, 0, -1):
            r1, nk, r2 = Y[k].shape
            Q, Rm = np.linalg.qr(Y[k].reshape(r1, nk * r2).T)
            Y[k] = Q.T.reshape(-1, nk, r2)
            Y[k - 1] = np.einsum('aib,cb->aic', Y[k - 1], Rm)
    else:
        for k in range(d - 1):
            r = Y[k].shape[2]
            th = rng.uniform(0.5, 2.5)
            M = np.eye(r)
            M[:2, :2] = [[math.cos(th), -math.sin(th)], [math.sin(th), math.cos(th)]]
            M = M @ (np.eye(r) + np.diag([rng.choice([-0.5, 0.75])] * (r - 1), 1))
            Y[k] = np.einsum('aib,bc->aic', Y[k], M)
            Y[k + 1] = np.einsum('ab,bic->aic', np.linalg.inv(M), Y[k + 1])
    return Y



def full(Y):
    Z = Y[0][0]
    for G in Y[1:]:
        Z = np.tensordot(Z, G, 1)
    return Z[..., 0]


def core_lit(G, leaf):
    r1, n, r2 = G.shape
    return f'(mkc {r1} {n} {r2} {C.nested(G.tolist(), leaf)})'


def zq(x):
    return f'(qz {C.zlit(int(x))})'


def tt_lit(Y, leaf=zq):
    return '[' + '; '.join(core_lit(G, leaf) for G in Y) + ']'


def fq(x):
    return C.qlit(Fraction(float(x)))


def frac(p):
    return Fraction(p[0], p[1])


def close(model_pair, x):
    q = frac(model_pair)
    return abs(float(q) - float(x)) <= TOL * max(1.0, abs(float(q)))


def cmp_P(Pm, Pi):
    """nested lists of (num, den) vs nested lists of floats"""
    if isinstance(Pi, (list, tuple)):
        if not isinstance(Pm, (list, tuple)) or len(Pm) != len(Pi):
            return False
        return all(cmp_P(a, b) for a, b in zip(Pm, Pi))
    return close(Pm, Pi)


def dead_modes(I, P):
    """per row: the first mode at which the drawn index has (numerically) zero probability in the implementation's own
    vector (<= 1e-12 of its sum), else None.  What the samplers hand to choice AFTER such an event is 0/0 in exact
    arithmetic and rounding noise in floats; the property says nothing about it, so it is not compared."""
    out = []
    for row, Pr in zip(I, P):
        dk = None
        for k, (i, pv) in enumerate(zip(row, Pr)):
            tot = sum(pv)
            if not (pv[int(i)] > 1e-12 * tot):
                dk = k
                break
        out.append(dk)
    return out


def cmp_rows(Pm, Pi, dead):
    """probability vectors row by row, up to and including the mode of a zero-probability draw"""
    if len(Pm) != len(Pi):
        return False
    for a, b, dk in zip(Pm, Pi, dead):
        if len(a) != len(b):
            return False
        K = len(b) if dk is None else dk + 1
        if not cmp_P(list(a)[:K], list(b)[:K]):
            return False
    return True



def zero_prob_draw(g):
    """did any recorded choice(n, p=p) call return an index whose probability is <= 1e-12 of the vector sum?"""
    for c in g.of('choice'):
        if c['p'] is None:
            continue
        pv = np.asarray(c['p'], dtype=float)
        if not np.isfinite(pv).all():
            continue
        for i in np.atleast_1d(c['out']).tolist():
            if not (pv[int(i)] > 1e-12 * pv.sum()):
                return True
    return False


# ----------------------------------------------------------------------------
# argument forms: the docstrings allow n as "list or np.ndarray of int/float" and m as "int, float"
# ----------------------------------------------------------------------------
N_FORMS_INT = ['list', 'tuple', 'i64', 'i32', 'u8', 'npint']
N_FORMS_FLOAT = ['f64', 'listf', 'npfloat']
M_FORMS = ['int', 'float', 'i64', 'f64', 'i32']


def form_n(n, form):
    n = [int(k) for k in n]
    return {'list': lambda: list(n), 'tuple': lambda: tuple(n),
            'i64': lambda: np.array(n, dtype=np.int64), 'i32': lambda: np.array(n, dtype=np.int32),
            'u8': lambda: np.array(n, dtype=np.uint8), 'npint': lambda: [np.int64(k) for k in n],
            'f64': lambda: np.array(n, dtype=np.float64), 'listf': lambda: [float(k) for k in n],
            'npfloat': lambda: [np.float64(k) for k in n]}[form]()


def form_m(m, form):
    m = int(m)
    return {'int': m, 'float': float(m), 'i64': np.int64(m), 'f64': np.float64(m), 'i32': np.int32(m)}[form]


def int_result(call):
    """[0, rows] like C.call_impl, but a result that is not an integer ndarray is reported as such (3.0 == 3 in
    Python, so the exact comparison alone would not see a float-valued result)"""
    try:
        x = call()
    except Exception as e:  # noqa
        return [C.errclass(e)]
    xs = x if isinstance(x, tuple) else (x,)
    for a in xs:
        if not isinstance(a, np.ndarray) or not np.issubdtype(a.dtype, np.integer):
            return [-1, 'result is not an integer ndarray: ' + (str(a.dtype) if isinstance(a, np.ndarray) else type(a).__name__)]
    return [0, C.tolist(x)]



def natl(x):
    return C.nested(np.asarray(x).astype(int).tolist(), str)


def rec_choice(g):
    return '[' + '; '.join(natl(np.atleast_1d(c['out'])) for c in g.of('choice')) + ']'


def rec_chnr(g):
    return '[' + '; '.join(f"({c['n']}, {0 if c['size'] is None else int(c['size'])}, {natl(np.atleast_1d(c['out']))})"
                           for c in g.of('choice_nr')) + ']'


def rec_shuf(g):
    return '[' + '; '.join(f"({natl(c['before'])}, {natl(c['out'])})" for c in g.of('shuffle')) + ']'


# ----------------------------------------------------------------------------
# oracle contracts, validated on every recorded call
# ----------------------------------------------------------------------------

def contract_violations(g):
    bad = []
    for c in g.calls:
        k = c['kind']
        out = np.atleast_1d(c['out'])
        if k in ('choice', 'choice_u', 'choice_nr'):
            if out.size and (out.min() < 0 or out.max() >= c['n']):
                bad.append(f'{k} out of range')
            if c['size'] is not None and out.size != int(np.prod(c['size'])):
                bad.append(f'{k} wrong size')
            if k == 'choice_nr' and len(set(out.tolist())) != out.size:
                bad.append('choice(replace=False) returned duplicates')
        if k == 'shuffle':
            if sorted(map(tuple, np.atleast_2d(c['before'].T).T.tolist())) != \
               sorted(map(tuple, np.atleast_2d(c['out'].T).T.tolist())):
                bad.append('shuffle is not a permutation')
        if k == 'uniform':
            if out.size and (out.min() < min(c['low'], c['high']) or out.max() > max(c['low'], c['high'])):
                bad.append('uniform outside its limits')
    return bad


def orth_contract(Y, Z, p):
    """cores 1..d-1 of Z have orthonormal rows in the right unfolding; full(Z) * 2^p == full(Y)"""
    worst = 0.0
    for G in Z[1:]:
        r1 = G.shape[0]
        M = G.reshape(r1, -1)
        worst = max(worst, float(np.abs(M @ M.T - np.eye(r1)).max()))
    A, B = full(Y), full(Z) * 2.0 ** p
    sc = max(1.0, float(np.abs(A).max()))
    worst = max(worst, float(np.abs(A - B).max()) / sc)
    return worst


# ----------------------------------------------------------------------------
# running the implementation
# ----------------------------------------------------------------------------

def run_sample(tn, Y, m, unsert, g):
    """-> [0, I, P] with P[j] = the d probability vectors of row j, or [errcode]"""
    with warnings.catch_warnings():
        warnings.simplefilter('ignore')
        try:
            I = tn.sample(Y, m, seed=g, unsert=unsert)
        except Exception as e:  # noqa
            return [C.errclass(e)], None
    ch = g.of('choice')
    d = len(Y)
    P = [[ch[0]['p'].tolist()] + [ch[1 + (k - 1) * m + j]['p'].tolist() for k in range(1, d)] for j in range(m)]
    return [0, np.asarray(I).tolist(), P], I


def attempts_of(g, d):
    """split the choice log of a sample_square run into restarts: (m1, I_att, P_att)"""
    ch = g.of('choice')
    out, k = [], 0
    while k < len(ch):
        assert ch[k]['size'] is not None
        m1 = int(ch[k]['size'])
        need = 1 + (d - 1) * m1
        blk = ch[k:k + need]
        if len(blk) < need:
            out.append((m1, None, None))      # the attempt was cut short by an exception
            break
        I = [[int(blk[0]['out'][j])] + [int(blk[1 + (kk - 1) * m1 + j]['out']) for kk in range(1, d)]
             for j in range(m1)]
        P = [[blk[0]['p'].tolist()] + [blk[1 + (kk - 1) * m1 + j]['p'].tolist() for kk in range(1, d)]
             for j in range(m1)]
        out.append((m1, I, P))
        k += need
    return out


def run_square(tn, Y, m, unique, m_fact, max_rep, g):
    rec = []
    orig = tn.orthogonalize

    def wrap(Yin, k=None, use_stab=False):
        out = orig(Yin, k, use_stab)
        Z, p = out if use_stab else (out, 0)
        rec.append(dict(k=k, use_stab=use_stab, Z=[G.copy() for G in Z], p=p))
        return out
    tn.orthogonalize = wrap
    err, I = None, None
    try:
        with warnings.catch_warnings():
            warnings.simplefilter('ignore')
            try:
                I = tn.sample_square(Y, m, unique=unique, seed=g, m_fact=m_fact, max_rep=max_rep)
            except Exception as e:  # noqa
                err = e
    finally:
        tn.orthogonalize = orig
    return I, err, rec


# ----------------------------------------------------------------------------
# correspondence
# ----------------------------------------------------------------------------

def _tolerant_stream(R, name, terms, impls, inputs, cmpf, chunk, dist, comparison):
    vals = C.run_cases(f'{R.pid}_{name}', HEADER, terms, chunk=chunk)
    bad = []
    for v, im, inp in zip(vals, impls, inputs):
        R.add_distinct((name, inp))
        why = cmpf(v, im)
        if why:
            bad.append(dict(stream=name, input=inp, why=why, model=str(v)[:600], impl=str(im)[:600]))
    R.corr.append(dict(name=name, cases=len(terms), mismatches=len(bad), comparison=comparison,
                       distribution=dist, first_mismatches=bad[:3]))
    if terms:
        R.samples.append(dict(stream=name, input=inputs[0], model=str(vals[0])[:400], impl=str(impls[0])[:400]))
    return bad


def corr_sample(R, ctx, tn):
    rng = ctx['rng']
    N = 700 if ctx['thorough'] else 140
    terms, impls, inputs = [], [], []
    dist = dict(d={}, signed=0, nonneg=0, forced=0, real=0, unsert={}, errors=0, zero_slices=0, contract_bad=0)
    for t in range(N):
        signed = rng.random() < 0.3
        zf = 0.3 if rng.random() < 0.4 else 0.0
        d = rng.choice([1, 2, 2, 3, 3, 3, 4, 4, 5]) if t > 8 else [2, 2, 3, 1, 2, 3, 4, 2, 3][t]
        Y = gen_tt(rng, d=d, lo=(-2 if signed else 0), hi=3, zero_frac=zf)
        while full(Y).sum() <= 0 or (not signed and zf and t % 2 and not (full(Y) == 0).any()):
            Y = gen_tt(rng, d=d, lo=(-2 if signed else 0), hi=3, zero_frac=zf)
        gauged = t > 8 and d >= 2 and rng.random() < 0.3
        if gauged:
            Y = gen_gauged_int(rng, d)                           # non-negative tensor, mixed-sign cores
            signed = False
        if t == 0:
            Y = [np.zeros((1, 2, 1)), np.ones((1, 3, 1))]        # zero tensor
        m = rng.choice([1, 1, 2, 3, 4, 6])
        uns = rng.choice(['0', '0', '0', 'dy', 'def'])
        if t == 0:
            uns = '0'
        unsert = {'0': 0.0, 'dy': 2.0 ** -rng.randint(3, 12), 'def': 1e-10}[uns]
        forced = rng.random() < 0.4
        g = Aud(rng.randrange(2 ** 31), force=uniform_force(rng) if forced else None)
        impl, _ = run_sample(tn, Y, m, unsert, g)
        if contract_violations(g):
            dist['contract_bad'] += 1
        dist['d'][d] = dist['d'].get(d, 0) + 1
        dist['signed' if signed else 'nonneg'] += 1
        dist['forced' if forced else 'real'] += 1
        dist['unsert'][uns] = dist['unsert'].get(uns, 0) + 1
        dist['zero_slices'] += bool(zf) and not gauged
        dist['nonneg_tensor_mixed_sign_cores'] = dist.get('nonneg_tensor_mixed_sign_cores', 0) + bool(gauged)
        dist['errors'] += impl[0] != 0
        terms.append(f'showS (sample OQc (lk_ch {rec_choice(g)}) {tt_lit(Y)} {m} {fq(unsert)})')
        impls.append(impl)
        inputs.append(dict(fn='sample', Y=[G.tolist() for G in Y], m=m, unsert=unsert, forced=forced,
                           draws=[np.atleast_1d(c['out']).tolist() for c in g.of('choice')]))

    def cmpf(v, im):
        code, (I, P) = v
        if code != im[0]:
            return f'error class: model {code} implementation {im[0]}'
        if code != 0:
            return None
        if [list(r) for r in I] != im[1]:
            return 'sampled indices differ'
        if not cmp_rows(P, im[2], dead_modes(im[1], im[2])):
            return 'probability vectors handed to choice differ'
        return None
    bad = _tolerant_stream(R, 'sample', terms, impls, inputs, cmpf, 10, dist,
                           'indices exact; every probability vector handed to choice within 1e-12 of the exact rational (per '
                           'row up to and including a forced draw of probability <= 1e-12)')
    if dist['contract_bad']:
        R.corr.append(dict(name='sample: generator contract', cases=N, mismatches=dist['contract_bad'],
                           comparison='choice returns indices < n', distribution={}, first_mismatches=[]))
    return bad


def corr_square(R, ctx, tn):
    rng = ctx['rng']
    N = 240 if ctx['thorough'] else 48
    terms, impls, inputs = [], [], []
    dist = dict(d={}, unique=0, restarts=0, errors=0, forced=0, worst_orth_residual=0.0, contract_bad=0)
    orth_bad = []
    for t in range(N):
        d = rng.choice([2, 2, 3, 3, 4]) if t > 3 else [2, 3, 1, 2][t]
        Y = gen_tt(rng, d=d, nmax=3, rmax=2, lo=-2, hi=2, zero_frac=0.3)
        while t > 0 and not np.abs(full(Y)).sum() > 0:
            Y = gen_tt(rng, d=d, nmax=3, rmax=2, lo=-2, hi=2, zero_frac=0.3)
        unique = rng.random() < 0.6
        m = rng.choice([1, 2, 3])
        m_fact = rng.choice([1, 2, 5]) if unique else 5
        max_rep = rng.choice([-2, 0, 1, 2]) if unique else 100
        if t % 6 == 5:
            # tiny support: the restart loop and its ValueError exit
            Y = [np.zeros((1, n, 1)) for n in [rng.randint(2, 3) for _ in range(d)]]
            for G in Y:
                G[0, rng.randrange(G.shape[1]), 0] = float(rng.choice([-2, 1, 3]))
            unique, m, m_fact, max_rep = True, rng.choice([2, 3]), 1, rng.choice([-3, -2, -1, 0, 1])
        forced = (not unique) and rng.random() < 0.3
        g = Aud(rng.randrange(2 ** 31), force=uniform_force(rng) if forced else None)
        I, err, rec = run_square(tn, Y, m, unique, m_fact, max_rep, g)
        if contract_violations(g):
            dist['contract_bad'] += 1
        inp = dict(fn='sample_square', Y=[G.tolist() for G in Y], m=m, unique=unique, m_fact=m_fact, max_rep=max_rep,
                   forced=forced, draws=[np.atleast_1d(c['out']).tolist() for c in g.of('choice')])
        if not rec:
            impls.append(dict(code=C.errclass(err) if err else 7, note='orthogonalize was not called'))
            terms.append('showSq (Err OtherError)')
            inputs.append(inp)
            continue
        for rc in rec:
            res = orth_contract(Y, rc['Z'], rc['p']) if (rc['k'] == 0 and rc['use_stab']) else 1.0
            dist['worst_orth_residual'] = max(dist['worst_orth_residual'], res)
            if not res <= 1e-10:
                orth_bad.append(dict(stream='sample_square: orthogonality contract', input=inp, residual=res))
        Z = rec[0]['Z']
        att = attempts_of(g, d)
        dist['d'][d] = dist['d'].get(d, 0) + 1
        dist['unique'] += unique
        dist['restarts'] += max(0, len(att) - 1)
        dist['forced'] += forced
        dist['errors'] += err is not None
        sh = g.of('shuffle')
        recsh = '[' + '; '.join(f"({natl(c['before'])}, {natl(c['out'])})" for c in sh) + ']'
        terms.append(f'showSq (sample_square OQc (lk_ch {rec_choice(g)}) (lk_shufr {recsh}) {tt_lit(Z, fq)} {m} '
                     f'{"true" if unique else "false"} {m_fact} {C.zlit(max_rep)})')
        impls.append(dict(code=0 if err is None else C.errclass(err), I=None if I is None else np.asarray(I).tolist(),
                          dtype=None if I is None else str(np.asarray(I).dtype), att=att, err=repr(err)[:200],
                          zero_prob_draw=zero_prob_draw(g)))
        inputs.append(inp)

    def cmpf(v, im):
        code, (I, att) = v
        if 'note' in im:
            return im['note']
        # a draw of (numerically) zero probability somewhere in the run: afterwards the code computes noise/noise where
        # exact arithmetic has 0/0, so one side may raise the ValueError of choice(p=NaN) where the other goes on
        tainted = im['zero_prob_draw']
        if code != im['code']:
            if tainted and {code, im['code']} <= {0, 1}:
                return None
            return f"error class: model {code} implementation {im['code']} ({im['err']})"
        if code != 0:
            return None
        if [list(r) for r in I] != im['I']:
            return 'returned samples differ'
        if len(att) != len(im['att']):
            return f"number of attempts: model {len(att)} implementation {len(im['att'])}"
        for (Ia, Pa), (m1, Ii, Pi) in zip(att, im['att']):
            if Ii is None or [list(r) for r in Ia] != Ii:
                return 'drawn rows of an attempt differ'
            if not cmp_rows(Pa, Pi, dead_modes(Ii, Pi)):
                return 'probability vectors handed to choice differ'
        return None
    bad = _tolerant_stream(R, 'sample_square', terms, impls, inputs, cmpf, 3, dist,
                           'returned rows, restart structure, drawn rows exact; probability vectors within 1e-12 of '
                           'the exact rational computed from the recorded orthogonalised cores (per row up to and '
                           'including a forced draw of probability <= 1e-12: what follows a probability-zero event is '
                           'not compared)')
    R.corr.append(dict(name='sample_square: orthogonality contract of orthogonalize(Y, 0, use_stab=True)',
                       cases=N, mismatches=len(orth_bad), comparison='residual <= 1e-10 on every recorded call',
                       distribution=dict(worst=dist['worst_orth_residual']), first_mismatches=orth_bad[:3]))
    if dist['contract_bad']:
        R.corr.append(dict(name='sample_square: generator contract', cases=N, mismatches=dist['contract_bad'],
                           comparison='choice < n, shuffle permutes', distribution={}, first_mismatches=[]))
    return bad + orth_bad


def corr_int(R, ctx, tn):
    rng = ctx['rng']
    scale = 5 if ctx['thorough'] else 1
    bad = []
    # sample_lhs
    items = []
    dist = dict(d={}, m_lt_n=0, m_multiple=0, contract_bad=0)
    for t in range(160 * scale):
        d = rng.randint(1, 5)
        n = [rng.randint(1, 6) for _ in range(d)]
        m = rng.choice([1, 2, 3, 4, 5, 6, 7, 8, 12, 13])
        g = Aud(rng.randrange(2 ** 31))
        nf, mf = rng.choice(N_FORMS_INT + N_FORMS_FLOAT), rng.choice(M_FORMS)
        impl = int_result(lambda: tn.sample_lhs(form_n(n, nf), form_m(m, mf), seed=g))
        dist.setdefault('n_form', {})[nf] = dist.setdefault('n_form', {}).get(nf, 0) + 1
        dist.setdefault('m_form', {})[mf] = dist.setdefault('m_form', {}).get(mf, 0) + 1
        dist['d'][d] = dist['d'].get(d, 0) + 1
        dist['m_lt_n'] += m < max(n)
        dist['m_multiple'] += any(m % k == 0 for k in n)
        dist['contract_bad'] += bool(contract_violations(g))
        items.append(dict(coq=f'sample_lhs (lk_chnr {rec_chnr(g)}) (lk_shuf {rec_shuf(g)}) 0 {natl(n)} {m}',
                          impl=impl[1] if impl[0] == 0 else [[impl[0] + 1000] + impl[1:]],
                          input=dict(fn='sample_lhs', n=n, m=m, n_form=nf, m_form=mf)))
    bad += C.exact_corr(R, 'sample_lhs', HEADER, items, chunk=20, distribution=dist)
    # sample_rand
    items = []
    dist = dict(d={}, contract_bad=0)
    for t in range(60 * scale):
        d = rng.randint(1, 5)
        n = [rng.randint(1, 6) for _ in range(d)]
        m = rng.randint(1, 7)
        g = Aud(rng.randrange(2 ** 31))
        nf, mf = rng.choice(N_FORMS_INT + N_FORMS_FLOAT), rng.choice(M_FORMS)
        impl = int_result(lambda: tn.sample_rand(form_n(n, nf), form_m(m, mf), seed=g))
        dist.setdefault('n_form', {})[nf] = dist.setdefault('n_form', {}).get(nf, 0) + 1
        dist.setdefault('m_form', {})[mf] = dist.setdefault('m_form', {}).get(mf, 0) + 1
        dist['d'][d] = dist['d'].get(d, 0) + 1
        dist['contract_bad'] += bool(contract_violations(g))
        recu = '[' + '; '.join(f"({c['n']}, {int(c['size'])}, {natl(c['out'])})" for c in g.of('choice_u')) + ']'
        items.append(dict(coq=f'showR (sample_rand (lk_chnr {recu}) {natl(n)} {m})',
                          impl=[[0]] + impl[1] if impl[0] == 0 else [[impl[0]] + impl[1:]],
                          input=dict(fn='sample_rand', n=n, m=m, n_form=nf, m_form=mf)))
    items.append(dict(coq='showR (sample_rand (lk_chnr []) [] 3)',
                      impl=(lambda r: [[0]] + r[1] if r[0] == 0 else [[r[0]]])(C.call_impl(tn.sample_rand, [], 3, seed=Aud(1))),
                      input=dict(fn='sample_rand', n=[], m=3)))
    bad += C.exact_corr(R, 'sample_rand', HEADER, items, chunk=20, distribution=dist)
    # sample_tt
    items = []
    dist = dict(d={}, r={}, contract_bad=0)
    for t in range(60 * scale):
        d = rng.randint(1, 4) if t > 3 else [2, 3, 1, 4][t]
        n = [rng.randint(1, 4) for _ in range(d)]
        r = rng.randint(1, 4)
        g = Aud(rng.randrange(2 ** 31))
        nf, rf = rng.choice(N_FORMS_INT), rng.choice(['int', 'float', 'i64'])
        res = int_result(lambda: tn.sample_tt(form_n(n, nf), form_m(r, rf), seed=g))
        dist.setdefault('n_form', {})[nf] = dist.setdefault('n_form', {}).get(nf, 0) + 1
        if res[0] == 0:
            I, idx, im = res[1]
            impl = [I, [idx], [im]]
        else:
            impl = [[[res[0] + 1000] + res[1:]]]
        dist['d'][d] = dist['d'].get(d, 0) + 1
        dist['r'][r] = dist['r'].get(r, 0) + 1
        dist['contract_bad'] += bool(contract_violations(g))
        items.append(dict(coq=f'showTT (sample_tt (lk_chnr {rec_chnr(g)}) (lk_shuf {rec_shuf(g)}) {natl(n)} {r})',
                          impl=impl, input=dict(fn='sample_tt', n=n, r=r, n_form=nf, r_form=rf)))
    bad += C.exact_corr(R, 'sample_tt', HEADER, items, chunk=8, distribution=dist)
    # sample_rand_poi: the model only rearranges what uniform returned; doubles are passed as their bit patterns
    items = []
    dist = dict(d={})
    for t in range(30 * scale):
        d = rng.randint(1, 4)
        a = [float(rng.randint(-5, 5)) for _ in range(d)]
        b = [x + rng.choice([0.5, 1.0, 3.0]) for x in a]
        m = rng.randint(1, 5)
        g = Aud(rng.randrange(2 ** 31))
        X = tn.sample_rand_poi(a, b, m, seed=g)
        un = g.of('uniform')
        dist['d'][d] = dist['d'].get(d, 0) + 1
        bits = lambda arr: np.asarray(arr, dtype=np.float64).view(np.int64).tolist()  # noqa
        recu = '([' + '; '.join(C.zlist(bits(c['out'])) for c in un) + '])%Z'
        ok_args = [[c['low'], c['high'], c['size']] for c in un] == [[a[i], b[i], m] for i in range(d)]
        items.append(dict(coq=f'showRZ (sample_rand_poi OZ (fun c _ _ _ => nth c {recu} []) '
                              f'({C.zlist([int(x) for x in a])})%Z ({C.zlist([int(2 * x) for x in b])})%Z {m}%nat)',
                          impl=[[0]] + [bits(row) for row in X] if ok_args else [['bad uniform arguments']],
                          input=dict(fn='sample_rand_poi', a=a, b=b, m=m)))
    bad += C.exact_corr(R, 'sample_rand_poi', HEADER, items, chunk=30, distribution=dist)
    return bad


def correspondence(R, ctx):
    tn = C.import_teneva()
    bad = []
    bad += corr_sample(R, ctx, tn)
    bad += corr_square(R, ctx, tn)
    bad += corr_int(R, ctx, tn)
    return bad


# ----------------------------------------------------------------------------
# search: property-level oracle on the implementation, independent of the model
# ----------------------------------------------------------------------------

def all_idx(n):
    return [list(t) for t in itertools.product(*[range(k) for k in n])]


def check_int_array(I, m, n, what, inp):
    I = np.asarray(I)
    if not np.issubdtype(I.dtype, np.integer):
        return dict(what=f'{what}: result is not an integer array (dtype {I.dtype})', input=inp)
    if I.shape != (m, len(n)):
        return dict(what=f'{what}: shape {I.shape}, requested {(m, len(n))}', input=inp)
    if I.size and (I.min() < 0 or (I >= np.asarray(n)[None, :]).any()):
        return dict(what=f'{what}: index outside the tensor bounds', input=inp, got=I.tolist())
    return None


def oracle_sample_chain(tn, Y, unsert, seed=0):
    """every multi-index: the audited conditionals multiply to entry/total (exact formula when unsert > 0)"""
    A = full(Y)
    n = list(A.shape)
    rows = all_idx(n)
    inp = dict(fn='sample', Y=[G.tolist() for G in Y], unsert=unsert, forced='every multi-index')
    if A.min() < -1e-13 * np.abs(A).max() or A.sum() <= 0:
        return None
    marg0 = A.reshape(n[0], -1).sum(axis=1)
    # rows whose first-mode marginal vanishes are unreachable when unsert == 0 (0/0 afterwards): leave them out
    rows = [r for r in rows if marg0[r[0]] > 1e-9 * A.sum() and
            all(A[tuple(r[:k])].sum() > 1e-9 * A.sum() for k in range(1, len(n)))]
    g = Aud(seed, force=script_force(rows))
    impl, I = run_sample(tn, Y, len(rows), unsert, g)
    if impl[0] != 0:
        return dict(what='sample raised on a non-negative tensor with positive total', input=inp, got=impl)
    f = check_int_array(I, len(rows), n, 'sample', inp)
    if f:
        return f
    if np.asarray(I).tolist() != rows:
        return dict(what='sample does not return the indices its generator drew', input=inp,
                    got=np.asarray(I).tolist(), expected=rows)
    tot = A.sum()
    for j, r in enumerate(rows):
        pr = 1.0
        for k in range(len(n)):
            pv = np.asarray(impl[2][j][k])
            if pv.shape != (n[k],) or not np.isfinite(pv).all() or pv.min() < 0 or abs(pv.sum() - 1) > 1e-9:
                return dict(what='sample hands choice something that is not a distribution', input=inp,
                            got=pv.tolist(), at=[r, k])
            pr *= pv[r[k]]
        if unsert == 0:
            exp = A[tuple(r)] / tot
        else:
            exp = (marg0[r[0]] + unsert) / (tot + n[0] * unsert) * A[tuple(r)] / marg0[r[0]]
        if abs(pr - exp) > 1e-10:
            return dict(what='sample: product of the conditional probabilities along a multi-index is not '
                             'entry/total', input=inp, at=r, got=pr, expected=float(exp))
    return None


def oracle_square_chain(tn, Y, seed=0):
    """every multi-index: the audited conditionals multiply to entry^2/||Y||^2"""
    A = full(Y)
    n = list(A.shape)
    inp = dict(fn='sample_square', Y=[G.tolist() for G in Y], forced='every multi-index; argument forms of n (list, tuple, int32/int64/uint8 array, NumPy scalars, float array / '
                              'list with integral values) and m (int, float, NumPy scalars), integer / float32 cores; sample_lhs usage '
                              'counts on the grid k <= 12, every m <= 400 and m = t*k, t <= 200; sample_tt block structure (one left set x mode '
                              'range x one right set, offsets) for seeds None / Generator / int, d = 3..5', unique=False)
    nrm = float((A ** 2).sum())
    if nrm <= 0:
        return None
    A2 = A ** 2
    rows = [r for r in all_idx(n) if all(A2[tuple(r[:k])].sum() > 1e-9 * nrm for k in range(1, len(n)))]
    g = Aud(seed, force=script_force(rows))
    I, err, rec = run_square(tn, Y, len(rows), False, 5, 100, g)
    if err is not None:
        return dict(what='sample_square raised on a valid tensor: ' + repr(err)[:200], input=inp)
    f = check_int_array(I, len(rows), n, 'sample_square', inp)
    if f:
        return f
    if np.asarray(I).tolist() != rows:
        return dict(what='sample_square does not return the indices its generator drew', input=inp,
                    got=np.asarray(I).tolist(), expected=rows)
    att = attempts_of(g, len(n))
    if len(att) != 1 or att[0][1] is None:
        return dict(what='sample_square(unique=False): unexpected call structure on the generator', input=inp)
    P = att[0][2]
    for j, r in enumerate(rows):
        pr = 1.0
        for k in range(len(n)):
            pv = np.asarray(P[j][k])
            if pv.shape != (n[k],) or not np.isfinite(pv).all() or pv.min() < 0 or abs(pv.sum() - 1) > 1e-9:
                return dict(what='sample_square hands choice something that is not a distribution', input=inp,
                            got=pv.tolist(), at=[r, k])
            pr *= pv[r[k]]
        exp = A2[tuple(r)] / nrm
        if abs(pr - exp) > 1e-10:
            return dict(what='sample_square: product of the conditional probabilities along a multi-index is not '
                             'entry^2/||Y||^2', input=inp, at=r, got=pr, expected=float(exp))
    return None


def oracle_support(tn, fn, Y, m, seed):
    """real draws: never a zero-probability index; conservative chi-square (8-sigma) on the frequencies"""
    A = full(Y)
    w = A if fn == 'sample' else A ** 2
    inp = dict(fn=fn, Y=[G.tolist() for G in Y], m=m, seed=seed)
    if w.min() < 0 or w.sum() <= 0:
        return None
    try:
        if fn == 'sample':
            I = tn.sample(Y, m, seed=seed, unsert=0.)
        else:
            I = tn.sample_square(Y, m, unique=False, seed=seed)
    except Exception as e:  # noqa
        return dict(what=f'{fn} raised on a valid tensor: ' + repr(e)[:200], input=inp)
    f = check_int_array(I, m, list(A.shape), fn, inp)
    if f:
        return f
    cnt = np.zeros(A.shape)
    np.add.at(cnt, tuple(np.asarray(I).T), 1)
    pr = w / w.sum()
    hit0 = (cnt > 0) & (pr <= 1e-13)
    if hit0.any():
        return dict(what=f'{fn} drew a multi-index of probability zero', input=inp,
                    got=np.argwhere(hit0)[0].tolist())
    big = pr * m >= 10
    if big.sum() >= 2:
        e = pr[big] * m
        chi = float((((cnt[big] - e) ** 2) / e).sum())
        dof = int(big.sum())
        if chi > dof + 8 * math.sqrt(2 * dof) + 40:
            return dict(what=f'{fn}: sample frequencies are incompatible with the tensor (chi-square {chi:.1f}, '
                             f'{dof} cells; threshold beyond 8 sigma)', input=inp)
    return None


def oracle_lhs(tn, n, m, seed):
    inp = dict(fn='sample_lhs', n=n, m=m, seed=seed)
    try:
        I = tn.sample_lhs(n, m, seed=seed)
    except Exception as e:  # noqa
        return dict(what='sample_lhs raised: ' + repr(e)[:200], input=inp)
    f = check_int_array(I, m, n, 'sample_lhs', inp)
    if f:
        return f
    for k, nk in enumerate(n):
        cnt = np.bincount(I[:, k], minlength=nk)
        lo, hi = m // nk, -(-m // nk)
        if not ((cnt == lo) | (cnt == hi)).all():
            return dict(what='sample_lhs: an index of a mode is not used floor(m/n) or ceil(m/n) times',
                        input=inp, got=cnt.tolist(), mode=k)
    return None


def lhs_grid(tn, rng, deep):
    """the floor/ceil usage clause of sample_lhs over a systematic (k, m) grid: every m <= 400 (600 deep) for every
    mode size k <= 12 (all k in one call), and the exact multiples m = t*k, t <= 200 (300 deep).  Pure counting.
    Returns (number of evaluations, first failure or None); a failure is reduced to the single mode n = [k]."""
    ks = list(range(1, 13))
    n_eval = 0

    def reduce(f, k, m, seed):
        g = oracle_lhs(tn, [k], m, seed)
        if g:
            g['replay'] = dict(fn='sample_lhs', n=[k], m=m, seed=seed)
            return g
        return f
    for m in range(1, (600 if deep else 400) + 1):
        seed = rng.randrange(10 ** 6)
        n_eval += 1
        f = oracle_lhs(tn, ks, m, seed)
        if f:
            f['replay'] = dict(fn='sample_lhs', n=ks, m=m, seed=seed)
            return n_eval, (reduce(f, ks[f['mode']], m, seed) if 'mode' in f else f)
    top = 600 if deep else 400
    for k in ks[1:]:
        for t in range(top // k + 1, (300 if deep else 200) + 1):
            seed = rng.randrange(10 ** 6)
            n_eval += 1
            f = oracle_lhs(tn, [k], t * k, seed)
            if f:
                f['replay'] = dict(fn='sample_lhs', n=[k], m=t * k, seed=seed)
                return n_eval, f
    return n_eval, None



def oracle_rand(tn, n, m, seed):
    inp = dict(fn='sample_rand', n=n, m=m, seed=seed)
    try:
        I = tn.sample_rand(n, m, seed=seed)
    except Exception as e:  # noqa
        return dict(what='sample_rand raised: ' + repr(e)[:200], input=inp)
    return check_int_array(I, m, n, 'sample_rand', inp)


def oracle_poi(tn, a, b, m, seed):
    inp = dict(fn='sample_rand_poi', a=a, b=b, m=m, seed=seed)
    try:
        X = np.asarray(tn.sample_rand_poi(a, b, m, seed=seed))
    except Exception as e:  # noqa
        return dict(what='sample_rand_poi raised: ' + repr(e)[:200], input=inp)
    if X.shape != (m, len(a)) or (X < np.asarray(a)[None]).any() or (X > np.asarray(b)[None]).any():
        return dict(what='sample_rand_poi: wrong shape or point outside the limits', input=inp)
    return None


def oracle_tt(tn, n, r, seed):
    """layout against an independent construction from the public sample_lhs with the same integer seed"""
    inp = dict(fn='sample_tt', n=n, r=r, seed=seed)
    try:
        I, idx, im = tn.sample_tt(n, r, seed=seed)
    except Exception as e:  # noqa
        return dict(what='sample_tt raised: ' + repr(e)[:200], input=inp)
    I, idx, im = np.asarray(I), np.asarray(idx), np.asarray(im)
    d = len(n)
    if idx.shape != (d + 1,) or im.shape != (d,) or idx[0] != 0 or idx[-1] != I.shape[0]:
        return dict(what='sample_tt: idx / idx_many have the wrong shape or ends', input=inp,
                    got=[idx.tolist(), im.tolist(), list(I.shape)])
    f = check_int_array(I, I.shape[0], n, 'sample_tt', inp)
    if f:
        return f
    bad = tt_block_structure(I, idx, im, n, r)
    if bad:
        return dict(what='sample_tt: ' + bad[0], input=inp, mode=bad[1], at=bad[2])
    for k in range(d):
        L1 = tn.sample_lhs(n[:k], r, seed=seed) if k > 0 else None
        L2 = tn.sample_lhs(n[k + 1:], r, seed=seed) if k < d - 1 else None
        if d == 1:
            L1 = np.zeros((r, 0), dtype=int)
        l1 = 1 if L1 is None else len(L1)
        l2 = 1 if L2 is None else len(L2)
        blk = I[idx[k]:idx[k + 1]]
        if im[k] != l2 or len(blk) != n[k] * l1 * l2:
            return dict(what='sample_tt: block length or idx_many differ from n_k * len(lhs prefix) * len(lhs suffix)',
                        input=inp, mode=k, got=[int(im[k]), len(blk)], expected=[l2, n[k] * l1 * l2])
        for v in range(n[k]):
            for a in range(l1):
                for c in range(l2):
                    exp = ([] if L1 is None else L1[a].tolist()) + [v] + ([] if L2 is None else L2[c].tolist())
                    got = blk[(v * l1 + a) * l2 + c].tolist()
                    if got != exp:
                        return dict(what='sample_tt: row (left sample a, mode value v, right sample c) of a block '
                                         'is not at (v*len_1 + a)*len_2 + c', input=inp, mode=k, at=[a, v, c],
                                    got=got, expected=exp)
    return None


def tt_block_structure(I, idx, im, n, r):
    """seed-independent layout of sample_tt: block k has n_k * len_1 * len_2 rows and is the product, in the order
    (mode value v, left sample a, right sample c), of ONE set of left rows, the full range of mode k and ONE set of
    right rows.  Returns None or (description, mode, position)."""
    d = len(n)
    for k in range(d):
        l1 = 1 if (k == 0 and d > 1) else r
        l2 = 1 if k == d - 1 else r
        if int(im[k]) != l2 or int(idx[k + 1] - idx[k]) != n[k] * l1 * l2:
            return ('block length or idx_many differ from n_k * len_1 * len_2', k, None)
        blk = np.asarray(I[idx[k]:idx[k + 1]])
        L1 = [blk[a * l2, :k].tolist() for a in range(l1)]             # left rows as they appear for v = 0, c = 0
        L2 = [blk[c, k + 1:].tolist() for c in range(l2)]              # right rows as they appear for v = 0, a = 0
        for v in range(n[k]):
            for a in range(l1):
                for c in range(l2):
                    row = blk[(v * l1 + a) * l2 + c].tolist()
                    if row != L1[a] + [v] + L2[c]:
                        return ('a block is not the product of one left set, the mode range and one right set '
                                '(row (v*len_1 + a)*len_2 + c differs from left[a] ++ [v] ++ right[c])', k, [v, a, c])
    return None



def oracle_unique(tn, Y, m, seed):
    inp = dict(fn='sample_square', Y=[G.tolist() for G in Y], m=m, unique=True, seed=seed)
    A = full(Y)
    # entries of probability >= 0.05: with max_rep=6 (up to 640*m draws) missing one of them has probability < 1e-25
    likely = int((A ** 2 >= 0.05 * (A ** 2).sum()).sum()) if (A ** 2).sum() > 0 else 0
    try:
        with warnings.catch_warnings():
            warnings.simplefilter('ignore')
            I = tn.sample_square(Y, m, unique=True, seed=seed, max_rep=6)
    except ValueError as e:
        if likely >= m:
            return dict(what=f'sample_square(unique=True) gave up although {likely} >= m multi-indices have probability '
                             '>= 0.05: ' + repr(e)[:100], input=inp)
        return None
    except Exception as e:  # noqa
        return dict(what='sample_square raised: ' + repr(e)[:200], input=inp)
    f = check_int_array(I, m, list(A.shape), 'sample_square', inp)
    if f:
        return f
    if len({tuple(r) for r in np.asarray(I).tolist()}) != m:
        return dict(what='sample_square(unique=True) returned repeated rows', input=inp, got=np.asarray(I).tolist())
    # a tensor that vanishes by cancellation between cores (||Y|| at rounding level of prod ||G_k||) defines no
    # distribution: the property says nothing there (the code then samples the rounding noise of orthogonalize)
    scale = float(np.prod([np.linalg.norm(G) for G in Y]))
    if not np.sqrt((A ** 2).sum()) > 1e-9 * scale:
        return None
    if (np.abs(A[tuple(np.asarray(I).T)]) <= 1e-12 * max(1.0, np.abs(A).max())).any():
        return dict(what='sample_square drew a multi-index whose entry is zero', input=inp, got=np.asarray(I).tolist())
    return None



# ----------------------------------------------------------------------------
# extreme scales: cores = small integer cores * 2^e_k (exact in floats); the distribution is that of the integer
# tensor, computed exactly with Python integers, whatever the scale
# ----------------------------------------------------------------------------

def _int_cores(Y0):
    return [[[[int(x) for x in row] for row in sl] for sl in G] for G in Y0]


def exact_entry(Y0, idx):
    v = [1]
    for G, i in zip(_int_cores(Y0), idx):
        r2 = len(G[0][0])
        v = [sum(v[a] * G[a][i][b] for a in range(len(G))) for b in range(r2)]
    return v[0]


def exact_norm2(Y0):
    W = [[1]]
    for G in reversed(_int_cores(Y0)):
        r1, n, r2 = len(G), len(G[0]), len(G[0][0])
        W = [[sum(G[a][i][b] * G[a2][i][b2] * W[b][b2] for i in range(n) for b in range(r2) for b2 in range(r2))
              for a2 in range(r1)] for a in range(r1)]
    return W[0][0]


def exact_total(Y0):
    w = [1]
    for G in reversed(_int_cores(Y0)):
        r1, n, r2 = len(G), len(G[0]), len(G[0][0])
        w = [sum(G[a][i][b] * w[b] for i in range(n) for b in range(r2)) for a in range(r1)]
    return w[0]


def oracle_scale(tn, fn, Y0, exps, m, seed):
    """real draws from the scaled tensor through the auditing generator: no exception, finite distributions, and the
    audited conditionals along every drawn row multiply to the exact probability of that row"""
    inp = dict(fn=fn, kind='scale', Y0=[np.asarray(G).tolist() for G in Y0], exps=list(exps), m=m, seed=seed)
    Y0 = [np.asarray(G, dtype=float) for G in Y0]
    Y = [G * 2.0 ** e for G, e in zip(Y0, exps)]
    d = len(Y)
    n = [G.shape[1] for G in Y]
    den = exact_norm2(Y0) if fn == 'sample_square' else exact_total(Y0)
    if den <= 0:
        return None
    g = Aud(seed)
    if fn == 'sample_square':
        I, err, rec = run_square(tn, Y, m, False, 5, 100, g)
        if err is not None:
            return dict(what='sample_square raised on a valid tensor (cores scaled by powers of two): ' + repr(err)[:160],
                        input=inp)
        att = attempts_of(g, d)
        if len(att) != 1 or att[0][1] is None:
            return dict(what='sample_square(unique=False): unexpected call structure on the generator', input=inp)
        P = att[0][2]
    else:
        impl, I = run_sample(tn, Y, m, 0.0, g)
        if impl[0] != 0:
            return dict(what='sample raised on a non-negative tensor with positive total (cores scaled by powers of '
                             'two, all partial products representable)', input=inp, got=impl)
        P = impl[2]
    f = check_int_array(I, m, n, fn, inp)
    if f:
        return f
    for j, r in enumerate(np.asarray(I).tolist()):
        pr = 1.0
        for k in range(d):
            pv = np.asarray(P[j][k], dtype=float)
            if pv.shape != (n[k],) or not np.isfinite(pv).all() or pv.min() < 0 or abs(pv.sum() - 1) > 1e-9:
                return dict(what=f'{fn} hands choice something that is not a distribution (scaled cores)', input=inp,
                            got=pv.tolist(), at=[r, k])
            pr *= pv[r[k]]
        e = exact_entry(Y0, r)
        exp = float(Fraction(e * e, den)) if fn == 'sample_square' else float(Fraction(e, den))
        if abs(pr - exp) > 1e-7 * exp + 1e-11:
            return dict(what=f'{fn}: product of the conditional probabilities along a drawn multi-index differs from the '
                             'exact probability of the tensor (cores scaled by powers of two)', input=inp, at=r,
                        got=pr, expected=exp)
    return None


def gen_scale_cases(rng, deep):
    out = []

    def base(d, nonneg, nmax=2, rmax=2):
        while True:
            Y0 = gen_tt(rng, d=d, nmax=nmax, rmax=rmax, lo=(0 if nonneg else -2), hi=2)
            if (exact_total(Y0) if nonneg else exact_norm2(Y0)) > 0:
                return [G.tolist() for G in Y0]
    # short chains, every core scaled by 2^+e or 2^-e (adjacent products stay representable)
    for sgn in (1, -1):
        for d in (2, 3, 4):
            e = rng.randint(100, 480)
            out.append(dict(fn='sample_square', kind='scale', Y0=base(d, False, 3, 2), exps=[sgn * e] * d, m=4,
                            seed=rng.randrange(10 ** 6)))
    # scale concentrated in one core / spread with mixed signs
    for t in range(6 if deep else 3):
        d = rng.randint(2, 5)
        ex = [0] * d
        ex[rng.randrange(d)] = rng.choice([-1, 1]) * rng.randint(300, 600)
        out.append(dict(fn='sample_square', kind='scale', Y0=base(d, False, 3, 2), exps=ex, m=3, seed=rng.randrange(10 ** 6)))
        ex = [rng.choice([-1, 1]) * rng.randint(100, 450) for _ in range(d)]
        out.append(dict(fn='sample_square', kind='scale', Y0=base(d, False, 3, 2), exps=ex, m=3, seed=rng.randrange(10 ** 6)))
    # long chains: total norm 2^+-(300 .. 1200)
    for t in range(6 if deep else 3):
        d = rng.choice([12, 20, 30, 40])
        e = rng.choice([-1, 1]) * rng.randint(max(8, 300 // d), 30)
        out.append(dict(fn='sample_square', kind='scale', Y0=base(d, False), exps=[e] * d, m=3, seed=rng.randrange(10 ** 6)))
    # sample: alternating exponents (every partial product the code forms stays representable)
    for t in range(6 if deep else 3):
        d = rng.choice([2, 3, 4, 6, 12, 24])
        e = rng.randint(100, 300)
        sg = rng.choice([-1, 1])
        out.append(dict(fn='sample', kind='scale', Y0=base(d, True), exps=[sg * e * (-1) ** k for k in range(d)], m=3,
                        seed=rng.randrange(10 ** 6)))
    return out


# ----------------------------------------------------------------------------
# unique=True on strongly peaked tensors, every kind of seed
# ----------------------------------------------------------------------------

def gen_peaked(rng):
    """rank-1 tensor: every mode vector = unit vector + small noise, so one entry carries ~97% of the squared mass"""
    d = rng.randint(2, 3)
    Y = []
    for k in range(d):
        n = rng.randint(2, 3)
        v = np.array([rng.choice([-1, 1]) * rng.choice([0.0625, 0.125]) for _ in range(n)])
        v[rng.randrange(n)] = rng.choice([-1.0, 1.0])
        Y.append(v.reshape(1, n, 1))
    return Y


def oracle_unique_seedkind(tn, Y, m, seedkind, max_rep=8):
    inp = dict(fn='sample_square', kind='peaked', Y=[np.asarray(G).tolist() for G in Y], m=m, unique=True,
               seedkind=seedkind, max_rep=max_rep)
    Y = [np.asarray(G, dtype=float) for G in Y]
    seed = {'None': None, '0': 0, '1': 1}.get(seedkind)
    if seedkind.startswith('gen'):
        seed = np.random.default_rng(int(seedkind[3:]))
    A = full(Y)
    try:
        with warnings.catch_warnings():
            warnings.simplefilter('ignore')
            I = tn.sample_square(Y, m, unique=True, seed=seed, max_rep=max_rep)
    except ValueError as e:
        if 'required number of samples' in str(e):
            return None                  # the advertised exit when not enough distinct rows were found
        return dict(what='sample_square(unique=True) raised: ' + repr(e)[:200], input=inp)
    except Exception as e:  # noqa
        return dict(what='sample_square(unique=True) raised: ' + repr(e)[:200], input=inp)
    f = check_int_array(I, m, list(A.shape), 'sample_square', inp)
    if f:
        return f
    if len({tuple(r) for r in np.asarray(I).tolist()}) != m:
        return dict(what=f'sample_square(unique=True, seed={seedkind}) returned repeated rows', input=inp,
                    got=np.asarray(I).tolist())
    return None


def oracle_seedkind(tn, fn, seedkind, args):
    """shape / bounds / dtype of every sampler for seed None, 0 and a Generator object; m given as float too"""
    inp = dict(fn=fn, kind='seedkind', seedkind=seedkind, args=args)
    seed = {'None': None, '0': 0}.get(seedkind)
    if seedkind.startswith('gen'):
        seed = np.random.default_rng(int(seedkind[3:]))
    elif seedkind.isdigit():
        seed = int(seedkind)
    args = dict(args)
    nf, mf, cf = args.pop('n_form', None), args.pop('m_form', None), args.pop('core_form', None)
    if mf and 'm' in args:
        args['m'] = form_m(args['m'], mf)
    n_arg = form_n(args['n'], nf) if (nf and 'n' in args) else args.get('n')
    try:
        with warnings.catch_warnings():
            warnings.simplefilter('ignore')
            if fn in ('sample', 'sample_square'):
                Y = [np.asarray(G, dtype=float) for G in args['Y']]
                if cf:
                    Y = [G.astype({'int': np.int64, 'f32': np.float32, 'i32': np.int32}[cf]) for G in Y]
                n = [G.shape[1] for G in Y]
                m = args['m']
                if fn == 'sample':
                    I = tn.sample(Y, m, seed=seed, unsert=args.get('unsert', 0.0))
                else:
                    I = tn.sample_square(Y, m, unique=args['unique'], seed=seed)
                f = check_int_array(I, int(m), n, fn, inp)
                if f:
                    return f
                w = full(Y) if fn == 'sample' else full(Y) ** 2
                if (w[tuple(np.asarray(I).T)] <= 1e-13 * w.sum()).any() and args.get('unsert', 0.0) == 0.0:
                    return dict(what=f'{fn}(seed={seedkind}) drew a multi-index of probability zero', input=inp,
                                got=np.asarray(I).tolist())
                if fn == 'sample_square' and args['unique'] and len({tuple(r) for r in np.asarray(I).tolist()}) != int(m):
                    return dict(what=f'sample_square(unique=True, seed={seedkind}) returned repeated rows', input=inp)
                return None
            if fn == 'sample_lhs':
                I = tn.sample_lhs(n_arg, args['m'], seed=seed)
                f = check_int_array(I, int(args['m']), args['n'], fn, inp)
                if f:
                    return f
                for k, nk in enumerate(args['n']):
                    cnt = np.bincount(I[:, k], minlength=nk)
                    if not ((cnt == int(args['m']) // nk) | (cnt == -(-int(args['m']) // nk))).all():
                        return dict(what=f'sample_lhs(seed={seedkind}): an index of a mode is not used floor(m/n) or '
                                         'ceil(m/n) times', input=inp, got=cnt.tolist(), mode=k)
                return None
            if fn == 'sample_rand':
                return check_int_array(tn.sample_rand(n_arg, args['m'], seed=seed), int(args['m']), args['n'], fn, inp)
            if fn == 'sample_tt':
                I, idx, im = tn.sample_tt(n_arg, args['r'], seed=seed)
                I, idx, im = np.asarray(I), np.asarray(idx), np.asarray(im)
                if not (np.issubdtype(idx.dtype, np.integer) and np.issubdtype(im.dtype, np.integer)):
                    return dict(what=f'sample_tt(seed={seedkind}): idx / idx_many are not integer arrays', input=inp)
                d = len(args['n'])
                if idx.shape != (d + 1,) or im.shape != (d,) or idx[0] != 0 or idx[-1] != I.shape[0]:
                    return dict(what=f'sample_tt(seed={seedkind}): idx / idx_many have the wrong shape or ends', input=inp)
                f = check_int_array(I, I.shape[0], args['n'], fn, inp)
                if f:
                    return f
                bad = tt_block_structure(I, idx, im, [int(x) for x in args['n']], int(args['r']))
                if bad:
                    return dict(what=f'sample_tt(seed={seedkind}): ' + bad[0], input=inp, mode=bad[1], at=bad[2])
                return None
            if fn == 'sample_rand_poi':
                X = np.asarray(tn.sample_rand_poi(args['a'], args['b'], args['m'], seed=seed))
                if X.shape != (int(args['m']), len(args['a'])) or (X < np.asarray(args['a'])[None]).any() or \
                        (X > np.asarray(args['b'])[None]).any():
                    return dict(what=f'sample_rand_poi(seed={seedkind}): wrong shape or point outside the limits', input=inp)
                return None
    except Exception as e:  # noqa
        return dict(what=f'{fn}(seed={seedkind}) raised on a valid input: ' + repr(e)[:200], input=inp)
    return None


def _oracle(tn, p):
    """dispatch for search candidates and replay"""
    fn = p['fn']
    if p.get('kind') == 'scale':
        return oracle_scale(tn, fn, p['Y0'], p['exps'], p['m'], p['seed'])
    if p.get('kind') == 'peaked':
        return oracle_unique_seedkind(tn, p['Y'], p['m'], p['seedkind'], p.get('max_rep', 8))
    if p.get('kind') == 'seedkind':
        return oracle_seedkind(tn, fn, p['seedkind'], p['args'])
    Y = [np.array(G, dtype=float) for G in p['Y']] if 'Y' in p else None
    if fn == 'sample':
        if 'seed' in p:
            return oracle_support(tn, 'sample', Y, p['m'], p['seed'])
        return oracle_sample_chain(tn, Y, p.get('unsert', 0.0))
    if fn == 'sample_square':
        if p.get('unique') and 'seed' in p:
            return oracle_unique(tn, Y, p['m'], p['seed'])
        if 'seed' in p:
            return oracle_support(tn, 'sample_square', Y, p['m'], p['seed'])
        return oracle_square_chain(tn, Y)
    if fn == 'sample_lhs':
        return oracle_lhs(tn, p['n'], p['m'], p.get('seed', 0))
    if fn == 'sample_rand':
        return oracle_rand(tn, p['n'], p['m'], p.get('seed', 0))
    if fn == 'sample_rand_poi':
        return oracle_poi(tn, p['a'], p['b'], p['m'], p.get('seed', 0))
    if fn == 'sample_tt':
        return oracle_tt(tn, p['n'], p['r'], p.get('seed', 0))
    return None


def search(R, ctx, deep, hints):
    tn = C.import_teneva()
    rng = ctx['rng']
    fails, n_eval = [], 0
    cand = []
    # hints from the correspondence first (the same inputs, looked at through the property)
    for h in hints[:40]:
        inp = h.get('input') or {}
        if isinstance(inp, dict) and 'fn' in inp:
            q = {k: v for k, v in inp.items() if k not in ('forced', 'draws', 'seed')}
            if q['fn'] == 'sample_square':
                q.pop('unique', None)
            cand.append(q)
    # degenerate families first
    ones = lambda n: [np.ones((1, k, 1)).tolist() for k in n]  # noqa
    for n in ([2, 2], [3, 1], [1, 1], [2, 3, 2], [1, 4, 1], [2, 2, 2, 2]):
        for fn in ('sample', 'sample_square'):
            cand.append(dict(fn=fn, Y=ones(n)))
            cand.append(dict(fn=fn, Y=ones(n), m=50, seed=rng.randrange(1000)))
        cand.append(dict(fn='sample_lhs', n=n, m=1))
        cand.append(dict(fn='sample_lhs', n=n, m=7, seed=3))
        cand.append(dict(fn='sample_tt', n=n, r=1, seed=1))
        cand.append(dict(fn='sample_tt', n=n, r=3, seed=2))
        cand.append(dict(fn='sample_rand', n=n, m=5, seed=4))
    K = 60 if deep else 14
    for t in range(K):
        Y = gen_tt(rng, lo=0, hi=3, zero_frac=0.3)
        cand.append(dict(fn='sample', Y=[G.tolist() for G in Y], unsert=0.0))
        cand.append(dict(fn='sample', Y=[G.tolist() for G in Y], unsert=rng.choice([1e-10, 2.0 ** -6])))
        Ys = gen_tt(rng, lo=-2, hi=2, zero_frac=0.3)
        cand.append(dict(fn='sample_square', Y=[G.tolist() for G in Ys]))
        # generic float cores as well
        Yf = [G + 0.25 * rng.random() for G in gen_tt(rng, lo=-2, hi=2)]
        cand.append(dict(fn='sample_square', Y=[G.tolist() for G in Yf]))
        Yp = [np.abs(G) for G in Yf]
        cand.append(dict(fn='sample', Y=[G.tolist() for G in Yp], unsert=0.0))
        if t % 3 == 0:
            cand.append(dict(fn='sample', Y=[G.tolist() for G in Y], m=3000 if deep else 1500, seed=rng.randrange(10 ** 6)))
            cand.append(dict(fn='sample_square', Y=[G.tolist() for G in Ys], m=1200 if deep else 600,
                             seed=rng.randrange(10 ** 6)))
        cand.append(dict(fn='sample_square', Y=[G.tolist() for G in Yf], m=rng.randint(1, 4), unique=True,
                         seed=rng.randrange(10 ** 6)))
        cand.append(dict(fn='sample_square', Y=[G.tolist() for G in Ys], m=rng.randint(1, 3), unique=True,
                         seed=rng.randrange(10 ** 6)))
    for t in range(4 * K):
        d = rng.randint(1, 5)
        n = [rng.randint(1, 7) for _ in range(d)]
        cand.append(dict(fn='sample_lhs', n=n, m=rng.randint(1, 20), seed=rng.randrange(10 ** 6)))
        cand.append(dict(fn='sample_rand', n=n, m=rng.randint(1, 9), seed=rng.randrange(10 ** 6)))
        if t % 2 == 0:
            cand.append(dict(fn='sample_tt', n=n[:4], r=rng.randint(1, 4), seed=rng.randrange(10 ** 6)))
        if t % 4 == 0:
            a = [float(rng.randint(-3, 3)) for _ in range(d)]
            cand.append(dict(fn='sample_rand_poi', a=a, b=[x + 1.5 for x in a], m=rng.randint(1, 6),
                             seed=rng.randrange(10 ** 6)))
    # non-negative tensors with mixed-sign cores (re-gauged): exact chain product for every multi-index
    for t in range(12 if deep else 6):
        dd = rng.choice([3, 3, 4, 5])
        Yg = gen_gauged_int(rng, dd, nmax=(3 if dd < 5 else 2), rmax=3)
        cand.append(dict(fn='sample', Y=[G.tolist() for G in Yg], unsert=0.0, family='gauged-int'))
        if t % 2 == 0:
            cand.append(dict(fn='sample', Y=[G.tolist() for G in Yg], unsert=2.0 ** -6, family='gauged-int'))
        kind = ['orth', 'rot', 'square'][t % 3]
        Yf = gen_gauged_float(rng, rng.choice([3, 4] if kind == 'square' else [3, 4, 5]), kind)
        cand.append(dict(fn='sample', Y=[G.tolist() for G in Yf], unsert=0.0, family='gauged-' + kind))
    # extreme scales (cores times powers of two, long chains): exact probabilities from the integer tensor
    cand += gen_scale_cases(rng, deep)
    # unique=True on strongly peaked tensors (the restart branch), for every kind of seed
    for t in range(10 if deep else 5):
        Yp = gen_peaked(rng)
        mm = rng.choice([2, 3])
        for sk in ('None', '0', '1', f'gen{rng.randrange(1000)}'):
            cand.append(dict(fn='sample_square', kind='peaked', Y=[G.tolist() for G in Yp], m=mm, seedkind=sk, max_rep=8))
    # every sampler with seed None / 0 / a Generator object, m given as a float as well
    for sk in ('0', 'None', f'gen{rng.randrange(1000)}'):
        Ya = gen_tt(rng, lo=0, hi=3)
        while not full(Ya).sum() > 0:
            Ya = gen_tt(rng, lo=0, hi=3)
        Yb = gen_tt(rng, lo=-2, hi=2)
        while not np.abs(full(Yb)).sum() > 0:
            Yb = gen_tt(rng, lo=-2, hi=2)
        nn_ = [rng.randint(1, 5) for _ in range(rng.randint(1, 4))]
        aa = [float(rng.randint(-3, 3)) for _ in nn_]
        for fn_, args in (('sample', dict(Y=[G.tolist() for G in Ya], m=rng.choice([1, 3, 4.0]), unsert=0.0)),
                          ('sample', dict(Y=[G.tolist() for G in Ya], m=2, unsert=1e-10)),
                          ('sample_square', dict(Y=[G.tolist() for G in Yb], m=rng.choice([1, 2, 3.0]), unique=False)),
                          ('sample_square', dict(Y=[G.tolist() for G in Yb], m=1, unique=True)),
                          ('sample_lhs', dict(n=nn_, m=rng.choice([1, 4, 7, 6.0]))),
                          ('sample_rand', dict(n=nn_, m=rng.choice([1, 5, 3.0]))),
                          ('sample_tt', dict(n=nn_, r=rng.randint(1, 3))),
                          ('sample_rand_poi', dict(a=aa, b=[x + 2.5 for x in aa], m=rng.choice([1, 4, 2.0])))):
            cand.append(dict(fn=fn_, kind='seedkind', seedkind=sk, args=args))
    # sample_tt block structure for every kind of seed (None / Generator draw fresh numbers at every sample_lhs call)
    for t in range(12 if deep else 6):
        dd = [3, 4, 5][t % 3]
        for sk in ('None', f'gen{rng.randrange(1000)}', '0', str(rng.randrange(1, 10 ** 6))):
            cand.append(dict(fn='sample_tt', kind='seedkind', seedkind=sk,
                             args=dict(n=[rng.randint(2, 4) for _ in range(dd)], r=rng.randint(2, 3))))
    # argument forms: n as list / tuple / int32, int64, uint8 array / NumPy scalars / float array or list with integral
    # values, m as int / float / NumPy scalars, integer and float32 cores: integer result, shape, bounds
    for t in range(16 if deep else 8):
        nn_ = [rng.randint(1, 6) for _ in range(rng.randint(1, 4))]
        sk = rng.choice(['0', '7', 'None', f'gen{rng.randrange(1000)}'])
        for fn_ in ('sample_rand', 'sample_lhs'):
            cand.append(dict(fn=fn_, kind='seedkind', seedkind=sk,
                             args=dict(n=nn_, m=rng.choice([1, 5, 12]), n_form=(N_FORMS_INT + N_FORMS_FLOAT)[(t + (fn_ == 'sample_lhs')) % 9],
                                       m_form=rng.choice(M_FORMS))))
        cand.append(dict(fn='sample_tt', kind='seedkind', seedkind=sk,
                         args=dict(n=nn_, r=rng.randint(1, 3), n_form=N_FORMS_INT[t % len(N_FORMS_INT)])))
        if t % 2 == 0:
            Ya = gen_tt(rng, lo=0, hi=3)
            while not full(Ya).sum() > 0:
                Ya = gen_tt(rng, lo=0, hi=3)
            cf = rng.choice([None, 'int', 'f32', 'i32'])
            cand.append(dict(fn='sample', kind='seedkind', seedkind=sk,
                             args=dict(Y=[G.tolist() for G in Ya], m=rng.choice([1, 4]), unsert=0.0, m_form=rng.choice(M_FORMS),
                                       core_form=cf)))
            cand.append(dict(fn='sample_square', kind='seedkind', seedkind=sk,
                             args=dict(Y=[G.tolist() for G in Ya], m=rng.choice([1, 3]), unique=False,
                                       m_form=rng.choice(M_FORMS), core_form=cf)))
    for p in cand:
        n_eval += 1
        try:
            f = _oracle(tn, p)
        except Exception as e:  # noqa
            f = dict(what='property oracle could not be evaluated: ' + repr(e)[:300], input=p)
        if f:
            f['replay'] = p
            fails.append(f)
            if len(fails) >= 5:
                break
    # sample_lhs: usage counts over the systematic (k, m) grid (large m, exact multiples)
    if len(fails) < 5:
        try:
            ne, f = lhs_grid(tn, rng, deep)
            n_eval += ne
            if f:
                fails.append(f)
        except Exception as e:  # noqa
            fails.append(dict(what='sample_lhs grid could not be evaluated: ' + repr(e)[:300], input=dict(fn='sample_lhs')))
    # an integer seed and the generator it denotes give the same samples (ties the audited runs to int seeds)
    for t in range(10):
        s = rng.randrange(10 ** 6)
        n_eval += 1
        try:
            Y = gen_tt(rng, lo=0, hi=3)
            while not full(Y).sum() > 0:
                Y = gen_tt(rng, lo=0, hi=3)
            same = [np.array_equal(tn.sample(Y, 4, seed=s), tn.sample(Y, 4, seed=np.random.default_rng(s))),
                    np.array_equal(tn.sample_lhs([3, 4, 2], 5, seed=s), tn.sample_lhs([3, 4, 2], 5, seed=np.random.default_rng(s))),
                    np.array_equal(tn.sample_rand([3, 4, 2], 5, seed=s), tn.sample_rand([3, 4, 2], 5, seed=np.random.default_rng(s))),
                    np.array_equal(tn.sample_square(Y, 2, unique=False, seed=s),
                                   tn.sample_square(Y, 2, unique=False, seed=np.random.default_rng(s)))]
            if not all(same):
                fails.append(dict(what='an integer seed and default_rng(seed) give different samples',
                                  input=dict(seed=s, which=same)))
        except Exception as e:  # noqa
            fails.append(dict(what='sampler raised on a valid input: ' + repr(e)[:200], input=dict(seed=s)))
            break
    R.search.append(dict(name='per-multi-index product of audited conditionals, shapes/bounds/dtype, uniqueness, '
                              'LHS counts, sample_tt layout, support + conservative chi-square; extreme scales (cores * 2^+-(100..600), '
                              'chains up to d = 40) against exact integer probabilities; unique=True on peaked tensors '
                              'and every sampler for seed None / 0 / 1 / Generator, m as float; non-negative tensors with '
                              'mixed-sign cores (integer unimodular gauge, QR sweep, rotations, Kronecker squares), d = 3..5, '
                              'every multi-index; argument forms of n (list, tuple, int32/int64/uint8 array, NumPy scalars, float array / '
                              'list with integral values) and m (int, float, NumPy scalars), integer / float32 cores; sample_lhs usage '
                              'counts on the grid k <= 12, every m <= 400 and m = t*k, t <= 200; sample_tt block structure (one left set x mode '
                              'range x one right set, offsets) for seeds None / Generator / int, d = 3..5',
                         evaluations=n_eval, failures=len(fails), deep=deep))
    return fails


def replay(data):
    tn = C.import_teneva()
    p = data['payload']
    print(data['what'])
    q = p.get('replay') if isinstance(p, dict) else None
    if q is None:
        print('no replayable input in this file (broken proof / correspondence without failing input):', str(p)[:2000])
        return 1
    f = _oracle(tn, q)
    print('input:', q)
    print('replayed:', f)
    return 1 if f else 0
