"""C07 — TT-ALS (als, als_func): shape, descent, per-core optimality, restart, sample order, missing slices, info."""
import itertools
import math
import warnings
from fractions import Fraction

import numpy as np
from harness import common as C

THEOREMS = 'Properties/C07.v'
CLAIM = dict(
    text='Coq theorems (Properties/C07.v) about the models Model/Als.v (als: constant rank and rank-adaptive) and '
         'Model/AlsFunc.v (als_func, n_max=None), for every d, mode sizes, ranks, sample list (duplicates, weights, any '
         'order), every solver unless a contract is named. '
         'SHAPE: what als / als_func return has the (r1, n, r2) of every core of the initial approximation '
         '(C07_als_shape, C07_als_func_shape). '
         'INFO: the returned cores are those after exactly info[nswp] >= 1 sweeps (C07_als_sweep_count, '
         'C07_als_func_sweep_count); with only nswp given max(1, nswp) sweeps are executed and reported with stop=nswp '
         '(C07_als_nswp, C07_als_func_nswp); every stop reason is justified by the options (C07_als_stop_reason, '
         'C07_als_func_stop_reason); a callback answering with a true value (the model callback is the truthiness of the answer: True / 1 / np.bool_(True) '
         'stop, False / 0 / None / np.bool_(False) do not - strict in correspondence and search) after sweep t stops the run right after that sweep at '
         'the latest, and with exactly t sweeps and stop=cb when it is the first reason (C07_als_cb_stops, '
         'C07_als_cb_first). '
         'MISSING SLICES: ValueError unless allow_skip_cores, the validation fires exactly on uncovered slices '
         '(C07_als_missing_rejected, C07_uncovered_slice_detected, C07_covered_accepted). '
         'INTERFACES: after every core update the interface matrices hold the true partial products of every sample '
         'and the update equals the one of an interface-free reference (C07_interfaces_init/fwd/bwd, '
         'C07_func_interfaces_init/fwd/bwd). '
         'ALGEBRA (commutative ring): get is linear in one slice with the row the code forms '
         '(C07_get_linear_in_slice), the functional TT is linear in one whole core (C07_func_linear_in_core), the '
         'objective as a function of one core is the sum of the ridge objectives the code solves plus a constant '
         '(C07_objective_splits, C07_func_objective_splits), ridge identity J(x+h) = J(x) + sum w (a.h)^2 + lamb |h|^2 '
         'for a solution x of the normal equations (C07_ridge_identity). '
         'DESCENT / OPTIMALITY (at R, lamb > 0, weights >= 0, contract: the solver returns a solution of a symmetric '
         'positive definite system): the system the code forms is SPD and gets solved (C07_normal_equations_solved); '
         'every core update, of the reference and of the code with interface matrices, does not increase the '
         'regularised weighted objective (C07_core_update_descends, C07_code_fwd/bwd_update_descends, '
         'C07_func_core_update_descends), hence it never increases from sweep to sweep (C07_als_descends, '
         'C07_als_func_descends); right after its update a core is the exact minimiser over all cores of its shape '
         'given the others (C07_core_update_optimal: when each of its slices has a sample; '
         'C07_func_core_update_optimal: always), in particular the core updated last (core 1) of the result '
         '(C07_als_last_core_optimal, C07_als_func_last_core_optimal). '
         'RESTART: nswp = a+b equals nswp = a, then a fresh call on the result with nswp = b, a, b >= 1 '
         '(C07_als_restart, C07_sweeps_restart, C07_als_func_restart). '
         'SAMPLE ORDER: the whole result of als (cores and info) is invariant under permutations of the sample list, '
         'for every option set (C07_als_sample_order); the pinned `not idx.any()` code was order dependent '
         '(C07_pinned_order_dependent, witness over Qc). '
         'ADAPTIVE (d >= 3; contracts: matrix_skeleton returns inner size <= its r argument, orthogonalize keeps mode '
         'sizes): every TT-rank of the result is <= r and mode sizes are kept (C07_adaptive_ranks). '
         'The same for als_func with y[sigma], H[k][sigma,:] (C07_als_func_sample_order). '
         'ENTRY PATH of als_func (fh=None): the basis matrices built from X, a, b are rectangular and hold T_i of the '
         'scaled, clipped points (scale_cheb of the C18 model, func_basis1 of the C12 model) for every box and every '
         'point (C07_cheb_basis_wf, C07_cheb_basis_entry), so shape, descent and last-core optimality hold with the '
         'objective measured in that basis (C07_als_func_cheb_shape, C07_als_func_cheb_descends, '
         'C07_als_func_cheb_last_core_optimal).',
    note='The models are tied to /repo on every run: exact Qc evaluation of _optimize_core and of small als / als_func '
         'runs; als_func also through its default entry path (X, a, b -> poi_scale cheb -> func_basis) on boxes '
         'asymmetric about 0 and of length != 2 with boundary and outside points, in binary64 and exactly over Qc, with '
         'an independent numpy.polynomial.chebyshev objective in the search; '
         'binary64 (PrimFloat) evaluation of the same Gallina terms for 1..3 sweeps over all option paths (e, '
         'e_vld, cb, nswp=0, allow_skip_cores, permuted samples, restart) within max(1e-7, 300 x the measured sensitivity of the cores to a 1.1e-13 relative perturbation of y) '
         '(1e-9 against the exact Qc values), status / nswp / stop '
         'exact; rank-adaptive runs with the recorded outputs of orthogonalize / matrix_skeleton replayed. '
         'Cross-cutting families (correspondence with the model on the canonical input, and search): ARGUMENT FORMS '
         '(I_trn list / tuple / int32 / int64 / uint8 / F-ordered / non-contiguous; y list / float32 / float16 / int; w float32 / '
         'int / non-contiguous; lamb, nswp, r, r_add as NumPy scalars; Y0 / A0 tuple, F-ordered, non-contiguous; flags as int / '
         'np.bool_; defaults passed explicitly; als_func X list / float32 / F-ordered, a, b int / np.float32 / np.float64, fh one '
         'function / list / tuple) must give the canonical answer; HISTORIES (2-4 calls on the same I / y / w / Y0 / A0 objects, '
         'info omitted and one info dict reused, arguments bit-identical afterwards, no aliasing, restart through the returned '
         'object); SCALES / DEGENERATE (single sample, mode size 1, d = 2, duplicates only, (w, lamb) * 2^k for k = -1000 .. 940 '
         'exactly invariant, y * 2^+-300: descent / shape / info in the search only - the normal equations are then numerically '
         'singular, so no core-by-core correspondence). HISTORIES ON A SHARED INFO DICT (explicit and the module '
         'default, als and als_func): after a converged call (small info[e]) a second call on other data with a threshold e >= that '
         'value must give the result / nswp / stop of a fresh info dict; a, restart, b on one reused info dict (search). STIFF BUT FULL-RANK SLICE DESIGNS (interface vectors / data '
         'with a large common component plus O(1) variation, lamb 1e-6 .. 1e-10, badly balanced start): _optimize_core against the '
         'exact Qc minimiser by the exact rational objective gap, whole als in the search (last core, descent), asserted where the '
         'slice systems have cond <= 1e14 (measured on the unchanged tree: gap <= 6e-19 sum w y^2 there; beyond 1/eps the Gram '
         'matrix is numerically singular and the unchanged code itself loses the minimiser - those slices are counted, not '
         'asserted). WEIGHTS WITH EXACT ZEROS (all samples of one slice masked out, or every '
         'weight 0; the theorems need only w >= 0 and a sample per slice - the minimiser of such a slice is 0) in correspondence and '
         'search; BOOLEAN OPTIONS in every false (False / 0 / None / np.False_) and true (True / 1 / np.True_) form: '
         'allow_skip_cores on data with a slice without sample (constant rank and r given; the model gets the truth value), log, '
         'use_stab, allow_swap (false forms), log of als_func. '
         'Undocumented forms that RAISE on the unchanged tree and are therefore '
         'only required not to return a different answer: Y0 / A0 with int-dtype cores (UFuncTypeError), w as a list (TypeError), '
         'a, b as 0-d arrays (TypeError); float32 cores return a float32 result (kept out). The rank-adaptive mode is required '
         'to reject missing slice data as well. '
         'Not modelled: allow_swap=True, update_sol, lamb=None, use_stab, log, info[t], info[r], negative indices; '
         'als_func with n_max set, with a basis wider than the mode size of A0 (unequal mode sizes in the default path) '
         'or with vector-valued a, b. In the adaptive mode an index pair without sample leaves 0 in the two-core '
         'block, in the code (since c1e64d5) as in the model. '
         'als(nswp=0) executes one sweep (proved). chain 1 Y 1 (matching ranks) is a hypothesis of the '
         'restart / order / descent theorems.',
    technique='Coq proof (interface invariant by induction over the sweep, simulation of the driver loop, ridge '
              'identity in a commutative ring, order argument at R) + exact/float model-implementation '
              'correspondence + implementation-level search')
TRUSTED = ['Coq 8.16.1 kernel + vm_compute (case evaluation, the Qc witnesses)',
           'hand-written models Model/Als.v, Model/AlsFunc.v, Lin/Solve.v tied to als.py / als_func.py / utils._info_appr by correspondence',
           'oracle contract (spd_solver): scipy.linalg.lstsq(gelsy) on a symmetric positive definite system N returns x with N x = rhs '
           '(checked every run against exact Gauss-Jordan over Qc and in binary64 to 1e-9)',
           'oracle contracts of the adaptive mode: matrix_skeleton(A, e, r, rel=True) returns factors with inner size <= r; '
           'orthogonalize keeps mode sizes (their recorded outputs are replayed in the correspondence)',
           'oracles without contract: teneva.accuracy / accuracy_on_data values, the callback',
           'numpy einsum / reshape / fancy indexing semantics as re-expressed in the model',
           'Reals axioms of the Coq standard library for the order statements (listed by Print Assumptions)']
ASSUMPTIONS = ['lamb is not None and lamb > 0, weights >= 0 (w=None is the weight vector of ones)',
               'indices are in range (negative wrapping indices are not modelled)',
               'exact arithmetic in the theorems; binary64 effects are covered by the 1e-9 correspondence only']
TIME_LIMIT = {'quick': 900, 'thorough': 5400}

TOL = 1e-9
# binary64 streams: Gauss-Jordan (model) against gelsy (implementation) over several sweeps; rounding differences are amplified
# by the conditioning of the normal equations (observed up to 3e-9 on d = 4, three sweeps), mutants move cores by >= 1e-3
TOLF = 1e-7

# ---------------------------------------------------------------------------------------------- Coq headers
HQ = r'''From Coq Require Import List ZArith QArith Qcanon.
From TV Require Import Num.Ops Lin.Tab Lin.Solve TT.Chain Model.Als Model.AlsFunc.
Import ListNotations.
Definition qz (z : Z) : Qc := Q2Qc (inject_Z z).
Definition showQ (q : Qc) : Z * Z := (Qnum (this q), Zpos (Qden (this q))).
Definition coreQ r1 n r2 (l : list (list (list Z))) : core Qc := mk_core r1 n r2 (map (map (map qz)) l).
Definition vecsQ (l : list (list Z)) : list (list Qc) := map (map qz) l.
Definition showG (G : core Qc) := map (map (map showQ)) (dat G).
Definition showY (Y : list (core Qc)) := map showG Y.
Definition tagQ (a b : Z) : list (list (list (list (Z * Z)))) := [[[[(a, b)]]]].
Definition noacc (t : nat) (Y Yold : list (core Qc)) : Qc := qz (-1).
Definition noaccv (t : nat) (Y : list (core Qc)) : Qc := qz (-1).
Definition showR (r : result (list (core Qc) * @info Qc)) :=
  match r with
  | Ok (Y, inf) => tagQ 0 0 ++ tagQ (Z.of_nat (i_nswp inf)) (Z.of_nat (stop_code (i_stop inf))) ++ showY Y
  | Err e => tagQ 1 (err_code e)
  end.
Definition optQ lamb Q S L R := [showG (opt_core OQc (gauss_solve OQc) lamb Q 0 (zip3 S L R))].
Definition alsQ S Y0 nswp lamb skip :=
  showR (als OQc (gauss_solve OQc) noacc noaccv None S Y0 (Some nswp) None None lamb skip 50).
Definition optfQ lamb Q y L R H := [showG (fopt_core OQc (gauss_solve OQc) lamb Q y L R H)].
Definition alsfQ H y A0 nswp lamb :=
  tagQ 0 0 ++ tagQ (Z.of_nat nswp) 1 ++ showY (fY (Nat.iter nswp (fsweep OQc (gauss_solve OQc) lamb y H) (finit_st OQc H y A0))).
Definition alsfcQ X y A0 a b nswp lamb :=
  let H := cheb_H OQc a b (cn (nth 0%nat A0 dcore)) (length A0) X in
  tagQ 0 0 ++ tagQ (Z.of_nat nswp) 1 ++ showY (fY (Nat.iter nswp (fsweep OQc (gauss_solve OQc) lamb y H) (finit_st OQc H y A0))).
Open Scope Z_scope.
'''

HF = r'''From Coq Require Import List ZArith Floats.
From TV Require Import Num.Ops Num.InstF Lin.Tab Lin.Solve TT.Chain Model.Als Model.AlsFunc.
Import ListNotations.
Definition showG (G : core float) := map (map (map F_show)) (dat G).
Definition showY (Y : list (core float)) := map showG Y.
Definition tagF (a b : Z) : list (list (list (list (Z * Z)))) := [[[[(a, b)]]]].
Definition showR (r : result (list (core float) * @info float)) :=
  match r with
  | Ok (Y, inf) => tagF 0 0 ++ tagF (Z.of_nat (i_nswp inf)) (Z.of_nat (stop_code (i_stop inf))) ++ showY Y
  | Err e => tagF 1 (err_code e)
  end.
Definition lk (l : list float) (t : nat) : float := nth t l (-1)%float.
Definition cbat (t0 : option nat) : option (nat -> list (core float) -> bool) :=
  match t0 with Some t0 => Some (fun t _ => Nat.eqb t t0) | None => None end.
Definition alsF accs accvs t0 S Y0 nswp e evld lamb skip :=
  showR (als OF (gauss_solve OF) (fun t _ _ => lk accs t) (fun t _ => lk accvs t) (cbat t0) S Y0 nswp e evld lamb skip 60).
Definition alsfF H y A0 nswp lamb :=
  tagF 0 0 ++ tagF (Z.of_nat nswp) 1 ++ showY (fY (Nat.iter nswp (fsweep OF (gauss_solve OF) lamb y H) (finit_st OF H y A0))).
Definition alsfcF X y A0 a b nswp lamb :=
  let H := cheb_H OF a b (cn (nth 0%nat A0 dcore)) (length A0) X in
  tagF 0 0 ++ tagF (Z.of_nat nswp) 1 ++ showY (fY (Nat.iter nswp (fsweep OF (gauss_solve OF) lamb y H) (finit_st OF H y A0))).
Definition adaF orths skels S Y0 nswp r radd lamb :=
  match als_adaptive OF (gauss_solve OF) (fun _ => nth 0 orths []) (fun c _ _ => nth c skels (mk_core 0 0 0 [], mk_core 0 0 0 []))
                     S Y0 nswp r radd lamb with
  | Ok Y => tagF 0 0 ++ tagF (Z.of_nat nswp) 1 ++ showY Y
  | Err e => tagF 1 (err_code e)
  end.
Open Scope float_scope.
'''

STOP = {'nswp': 1, 'e': 2, 'e_vld': 3, 'cb': 4}
# answers of a callback: true values stop the run, false values do not (als docstring; /repo d12f1ba)
CB_TRUE = [('True', True), ('1', 1), ('np.bool_(True)', np.bool_(True)), ('np.float64(0.5)', np.float64(0.5))]
CB_FALSE = [('False', False), ('0', 0), ('None', None), ('np.bool_(False)', np.bool_(False))]
# forms of a boolean option: the false forms must act as False, the true forms as True
FLAG_FALSE = [('False', False), ('0', 0), ('None', None), ('np.False_', np.bool_(False))]
FLAG_TRUE = [('True', True), ('1', 1), ('np.True_', np.bool_(True))]


# ---------------------------------------------------------------------------------------------- literals
def core_q(G):
    G = np.asarray(G)
    return f'(coreQ {G.shape[0]} {G.shape[1]} {G.shape[2]} {C.nested(G.astype(int).tolist())})'


def core_f(G):
    G = np.asarray(G, dtype=float)
    return f'(mk_core {G.shape[0]} {G.shape[1]} {G.shape[2]} {C.nested(G.tolist(), C.flit)})'


def lst(items):
    return '[' + '; '.join(items) + ']'


def samples_q(I, y, w):
    return lst(f'(Smp {C.natlist(i)} {C.qlit(Fraction(yy))} {C.qlit(Fraction(ww))})' for i, yy, ww in zip(I, y, w))


def samples_f(I, y, w):
    return lst(f'(Smp {C.natlist(i)} {C.flit(yy)} {C.flit(ww)})' for i, yy, ww in zip(I, y, w))


def opt_lit(x, leaf):
    return 'None' if x is None else f'(Some {leaf(x)})'


def cores_of_q(v):
    return [np.array([[[float(Fraction(a, b)) for (a, b) in row] for row in mat] for mat in G]) for G in v]


def cores_of_f(v):
    return [np.array([[[C.float_of_show(p) for p in row] for row in mat] for mat in G]) for G in v]


def parse_res(v, conv):
    """model result -> dict(status, nswp, stop, cores)"""
    tag = v[0][0][0][0]
    if tag[0] != 0:
        return dict(status=tag[1])
    nswp, stop = v[1][0][0][0]
    return dict(status=0, nswp=nswp, stop=stop, cores=conv(v[2:]))


def cores_close(A, B, tol=TOL):
    if len(A) != len(B):
        return False, 'number of cores'
    worst = 0.0
    for a, b in zip(A, B):
        a, b = np.asarray(a, dtype=float), np.asarray(b, dtype=float)
        if a.shape != b.shape:
            return False, f'shape {a.shape} vs {b.shape}'
        if not (np.isfinite(a).all() and np.isfinite(b).all()):
            return False, 'non-finite'
        sc = max(1.0, float(np.abs(b).max()) if b.size else 1.0)
        worst = max(worst, float(np.abs(a - b).max()) / sc if a.size else 0.0)
    return worst <= tol, worst


# ---------------------------------------------------------------------------------------------- generators
LAMBS = [Fraction(1, 4), Fraction(1, 2), Fraction(1), Fraction(2), Fraction(3, 8)]
WS = [Fraction(1, 2), Fraction(1), Fraction(2), Fraction(3), Fraction(3, 2)]


def gen_tensor(rng, shape, rmax, lo=-2, hi=2):
    d = len(shape)
    r = [1] + [rng.randint(1, rmax) for _ in range(d - 1)] + [1]
    Y = []
    for k in range(d):
        G = np.array([[[rng.randint(lo, hi) for _ in range(r[k + 1])] for _ in range(shape[k])] for _ in range(r[k])])
        if not G.any():
            G[0, 0, 0] = 1
        Y.append(G)
    return Y


def gen_indices(rng, shape, m, family):
    """m index rows; 'cover' families cover every slice of every mode."""
    d = len(shape)
    I = [[rng.randrange(shape[k]) for k in range(d)] for _ in range(m)]
    info = {}
    if family == 'missing':
        k0 = rng.randrange(d)
        if shape[k0] < 2:
            k0 = max(range(d), key=lambda k: shape[k])
        i0 = rng.randrange(shape[k0])
        for k in range(d):
            perm = list(range(shape[k]))
            rng.shuffle(perm)
            for j in range(m):
                if j < shape[k]:
                    I[j][k] = perm[j]
        for j in range(m):
            if I[j][k0] == i0:
                I[j][k0] = (i0 + 1) % shape[k0]
        info = dict(k0=k0, i0=i0)
    else:
        for k in range(d):
            perm = list(range(shape[k]))
            rng.shuffle(perm)
            for j in range(min(m, shape[k])):
                I[j][k] = perm[j]
        rows = list(range(m))
        rng.shuffle(rows)
        I = [I[j] for j in rows]
        if family.startswith('single'):
            # one slice (k0, i0) covered by exactly one sample, sitting at position p
            k0 = rng.randrange(d)
            if shape[k0] < 2:
                k0 = max(range(d), key=lambda k: shape[k])
            i0 = rng.randrange(shape[k0])
            p = 0 if family == 'single0' else rng.randrange(m)
            others = [i for i in range(shape[k0]) if i != i0]
            for j in range(m):
                if I[j][k0] == i0:
                    I[j][k0] = rng.choice(others)
            # keep the other slices of mode k0 covered
            free = [j for j in range(m) if j != p]
            rng.shuffle(free)
            for t, i in enumerate(others):
                I[free[t]][k0] = i
            I[p][k0] = i0
            info = dict(k0=k0, i0=i0, p=p)
        if family == 'dup':
            for _ in range(max(1, m // 4)):
                a, b = rng.randrange(m), rng.randrange(m)
                I[a] = list(I[b])
    return I, info


def gen_case(rng, family=None, d=None, thorough=False):
    family = family or rng.choice(['generic', 'generic', 'dup', 'single0', 'singlep', 'weights', 'missing'])
    d = d or rng.choice([2, 2, 3, 3, 4])
    shape = [rng.choice([2, 3]) for _ in range(d)]
    if family.startswith('single') or family == 'missing':
        if max(shape) < 2:
            shape[0] = 2
    Y0 = gen_tensor(rng, shape, 2)
    m = rng.randint(max(shape) + 1, 12 if d <= 3 else 10)
    I, finfo = gen_indices(rng, shape, m, family)
    y = [rng.randint(-3, 3) for _ in range(m)]
    if family == 'weights' or rng.random() < 0.25:
        w = [rng.choice(WS) for _ in range(m)]
    else:
        w = None
    if family == 'zerow':
        # weights used as a mask: exact zeros; ALL samples of one slice (k0, i0) carry weight 0 (the slice HAS samples);
        # sometimes every weight is 0 (only the regulariser remains)
        w = [rng.choice(WS + [Fraction(0)]) for _ in range(m)]
        k0 = 1 if rng.random() < 0.5 else rng.randrange(d)
        i0 = rng.randrange(shape[k0])
        w = [Fraction(0) if I[j][k0] == i0 else w[j] for j in range(m)]
        if rng.random() < 0.15:
            w = [Fraction(0)] * m
        finfo = dict(k0=k0, i0=i0, zero_weights=sum(1 for v in w if v == 0))
    return dict(family=family, shape=shape, I=I, y=y, w=w, Y0=[G.tolist() for G in Y0], lamb=rng.choice(LAMBS),
                finfo=finfo, nswp=rng.choice([1, 1, 2, 3]),
                skip=((family == 'missing' and rng.random() < 0.6) or (family == 'zerow' and rng.random() < 0.5)))


# ---------------------------------------------------------------------------------------------- implementation runs
def _pert(y):
    """y * (1 + 2^-43 * (+-1)): a relative perturbation of 1.1e-13 of the training values"""
    y = np.array([float(v) for v in y])
    return y * (1.0 + 2.0 ** -43 * np.where(np.arange(len(y)) % 2 == 0, 1.0, -1.0))


def with_floor(fn):
    """adds res['floor']: how far the returned cores move (metric of cores_close) when y is perturbed by a relative 1.1e-13.
    Comparisons between two float evaluations of the same exact quantity (Gauss-Jordan vs gelsy, permuted summation order)
    use max(tolerance, 300 * floor): rounding differences are 1e-16 * condition, the floor is 1e-13 * condition, so the margin
    is 3e5 rounding units, while a semantic change moves cores by a multiple of their size."""
    def wrapped(*a, floor=True, **k):
        res = fn(*a, **k)
        if floor and res.get('status') == 0 and not k.get('record'):
            res2 = fn(*a, _p=True, **k)
            res['floor'] = 0.0
            if res2.get('status') == 0 and len(res2['cores']) == len(res['cores']) and \
                    all(x.shape == z.shape for x, z in zip(res2['cores'], res['cores'])):
                res['floor'] = max([float(np.abs(x - z).max()) / max(1.0, float(np.abs(z).max())) if z.size else 0.0
                                    for x, z in zip(res2['cores'], res['cores'])] + [0.0])
                if not np.isfinite(res['floor']):
                    res['floor'] = 0.0
        return res
    return wrapped


def ftol(tol, *runs):
    return max([tol] + [300.0 * float(r_.get('floor', 0.0)) for r_ in runs if isinstance(r_, dict)])


@with_floor
def run_als(tn, c, nswp=None, Y0=None, I=None, y=None, w='case', e=None, e_vld=None, vld=None, cb=None, skip=None,
            record=False, r=None, _p=False, **kw):
    """returns dict(status, nswp, stop, cores, accs, accvs)"""
    I = c['I'] if I is None else I
    y = c['y'] if y is None else y
    w = c['w'] if isinstance(w, str) else w
    Y0 = c['Y0'] if Y0 is None else Y0
    info = {}
    accs, accvs = [-1.0], []
    o_acc, o_accv = tn.accuracy, tn.accuracy_on_data
    if record:
        def acc(*a, **k):
            v = float(o_acc(*a, **k))
            accs.append(v)
            return v

        def accv(*a, **k):
            v = float(o_accv(*a, **k))
            accvs.append(v)
            return v
        tn.accuracy, tn.accuracy_on_data = acc, accv
    try:
        with warnings.catch_warnings():
            warnings.simplefilter('ignore')
            Y = tn.als(np.array(I, dtype=int), _pert(y) if _p else np.array([float(v) for v in y]), [np.array(G, dtype=float) for G in Y0],
                       nswp=c['nswp'] if nswp is None else nswp, e=e, info=info,
                       I_vld=None if vld is None else np.array(vld[0], dtype=int),
                       y_vld=None if vld is None else np.array(vld[1], dtype=float), e_vld=e_vld,
                       lamb=float(c['lamb']), w=None if w is None else np.array([float(v) for v in w]),
                       cb=cb, allow_skip_cores=c['skip'] if skip is None else skip, r=r, **kw)
        return dict(status=0, nswp=int(info['nswp']), stop=STOP.get(info['stop'], -1), cores=[np.array(G) for G in Y],
                    accs=accs, accvs=accvs, info=info)
    except Exception as ex:  # noqa
        return dict(status=C.errclass(ex), error=repr(ex)[:200])
    finally:
        tn.accuracy, tn.accuracy_on_data = o_acc, o_accv


def compare_run(model, impl, tol=TOL):
    """model / impl dicts -> None or reason"""
    if model['status'] != impl['status']:
        return f"status model={model['status']} impl={impl['status']} {impl.get('error', '')}"
    if model['status'] != 0:
        return None
    if model['nswp'] != impl['nswp'] or model['stop'] != impl['stop']:
        return f"info model=({model['nswp']},{model['stop']}) impl=({impl['nswp']},{impl['stop']})"
    ok, why = cores_close(impl['cores'], model['cores'], ftol(tol, impl))
    return None if ok else f'cores differ: {why} (sensitivity floor {impl.get("floor")})'


def tolerant_corr(R, name, header, items, conv, chunk, distribution, comparison, tol=None):
    """items: dict(coq, impl (dict), input). Model values are parsed with parse_res(conv)."""
    vals = C.run_cases(f'{R.pid}_{name}', header, [it['coq'] for it in items], chunk=chunk)
    bad = []
    for it, v in zip(items, vals):
        model = parse_res(v, conv)
        R.add_distinct((name, it['input']))
        why = compare_run(model, it['impl'], tol if tol is not None else (TOLF if header is HF else TOL))
        it['model'] = model
        if why:
            bad.append(dict(stream=name, input=it['input'], why=why))
    R.corr.append(dict(name=name, cases=len(items), mismatches=len(bad), comparison=comparison,
                       distribution=distribution, first_mismatches=bad[:3]))
    if items:
        it = items[0]
        R.samples.append(dict(stream=name, input=it['input'],
                              model=dict(status=it['model']['status'], nswp=it['model'].get('nswp'),
                                         core0=np.asarray(it['model']['cores'][0]).tolist() if it['model'].get('cores') else None),
                              impl=dict(status=it['impl']['status'], nswp=it['impl'].get('nswp'),
                                        core0=np.asarray(it['impl']['cores'][0]).tolist() if it['impl'].get('cores') else None)))
    return bad


def ones(c):
    return c['w'] if c['w'] is not None else [Fraction(1)] * len(c['I'])


# ---------------------------------------------------------------------------------------------- streams
def stream_opt_core(R, ctx, tn):
    """_optimize_core called directly on integer data; model opt_core at Qc (exact rationals)."""
    import importlib
    M = importlib.import_module('teneva.als')
    rng = ctx['rng']
    items = []
    dist = dict(cases=0, families={})
    N = 220 if ctx['thorough'] else 60
    for t in range(N):
        r1, r2, n = rng.randint(1, 3), rng.randint(1, 3), rng.randint(1, 4)
        m = rng.randint(1, 9)
        fam = rng.choice(['generic', 'single0', 'singlep', 'missing', 'dup', 'weights', 'zerow', 'zerow'])
        i = [rng.randrange(n) for _ in range(m)]
        if fam.startswith('single') and n >= 2:
            i0 = rng.randrange(n)
            p = 0 if fam == 'single0' else rng.randrange(m)
            i = [(x if x != i0 else (i0 + 1) % n) for x in i]
            i[p] = i0
        if fam == 'missing' and n >= 2:
            i0 = rng.randrange(n)
            i = [(x if x != i0 else (i0 + 1) % n) for x in i]
        Q = np.array([[[rng.randint(-3, 3) for _ in range(r2)] for _ in range(n)] for _ in range(r1)])
        Yl = [[rng.randint(-2, 2) for _ in range(r1)] for _ in range(m)]
        Yr = [[rng.randint(-2, 2) for _ in range(r2)] for _ in range(m)]     # column j of the code's Yr
        if fam == 'dup' and m >= 2:
            a, b = rng.randrange(m), rng.randrange(m)
            i[a], Yl[a], Yr[a] = i[b], list(Yl[b]), list(Yr[b])
        y = [rng.randint(-3, 3) for _ in range(m)]
        w = [rng.choice(WS) for _ in range(m)] if (fam == 'weights' or rng.random() < 0.3) else None
        if fam == 'zerow':
            i0 = i[rng.randrange(m)]
            w = [Fraction(0) if i[j] == i0 else rng.choice(WS + [Fraction(0)]) for j in range(m)]
        lamb = rng.choice(LAMBS)
        with warnings.catch_warnings():
            warnings.simplefilter('ignore')
            try:
                out = M._optimize_core(Q.astype(float), np.array(i), np.array(y, dtype=float), np.array(Yl, dtype=float),
                                       np.array(Yr, dtype=float).T.copy(), float(lamb),
                                       None if w is None else np.array([float(v) for v in w]))
                impl = dict(status=0, nswp=0, stop=0, cores=[np.array(out)])
            except Exception as ex:  # noqa
                impl = dict(status=C.errclass(ex), error=repr(ex)[:200])
        S = samples_q([[x] for x in i], y, w if w is not None else [1] * m)
        coq = (f'tagQ 0 0 ++ tagQ 0 0 ++ optQ {C.qlit(lamb)} {core_q(Q)} {S} (vecsQ {C.nested(Yl)}) (vecsQ {C.nested(Yr)})')
        items.append(dict(coq=coq, impl=impl, input=dict(fam=fam, Q=Q.tolist(), i=i, y=y, w=[str(v) for v in w] if w else None,
                                                         Yl=Yl, Yr=Yr, lamb=str(lamb))))
        dist['cases'] += 1
        dist['families'][fam] = dist['families'].get(fam, 0) + 1
    return tolerant_corr(R, 'optimize_core_Qc', HQ, items, cores_of_q, 8, dist,
                         'model exact over Qc (Gauss-Jordan); implementation within 1e-9 relative of the rational value')


def stream_als_q(R, ctx, tn):
    """whole als, exact over Qc: d = 2, one sweep (numerators grow too fast for more)."""
    rng = ctx['rng']
    items = []
    dist = dict(cases=0, families={})
    for t in range(24 if ctx['thorough'] else 8):
        c = gen_case(rng, d=2)
        c['nswp'] = 1
        c['Y0'] = [G.tolist() for G in gen_tensor(rng, c['shape'], 2, -1, 1)]
        impl = run_als(tn, c)
        coq = (f'alsQ {samples_q(c["I"], c["y"], ones(c))} {lst(core_q(G) for G in c["Y0"])} 1%nat {C.qlit(c["lamb"])} '
               f'{"true" if c["skip"] else "false"}')
        items.append(dict(coq=coq, impl=impl, input=jcase(c)))
        dist['cases'] += 1
        dist['families'][c['family']] = dist['families'].get(c['family'], 0) + 1
    return tolerant_corr(R, 'als_Qc_d2', HQ, items, cores_of_q, 1, dist,
                         'model exact over Qc; implementation within 1e-9 relative; status / nswp / stop exact')


def jcase(c, **extra):
    o = dict(family=c['family'], shape=c['shape'], I=c['I'], y=c['y'], w=[str(v) for v in c['w']] if c['w'] else None,
             Y0=c['Y0'], lamb=str(c['lamb']), nswp=c['nswp'], skip=c['skip'], finfo=c['finfo'])
    o.update(extra)
    return o


def als_f_term(c, impl_rec, nswp, e=None, e_vld=None, t0=None, I=None, y=None, w=None, Y0=None, skip=None):
    I = c['I'] if I is None else I
    y = c['y'] if y is None else y
    w = ones(c) if w is None else w
    Y0 = c['Y0'] if Y0 is None else Y0
    accs = impl_rec.get('accs', [-1.0]) if impl_rec else [-1.0]
    accvs = impl_rec.get('accvs', []) if impl_rec else []
    return (f'alsF {lst(C.flit(v) for v in accs)} {lst(C.flit(v) for v in accvs)} '
            f'{opt_lit(t0, lambda t: str(t) + "%nat")} {samples_f(I, y, w)} {lst(core_f(G) for G in Y0)} '
            f'{opt_lit(nswp, lambda t: str(t) + "%nat")} {opt_lit(e, C.flit)} {opt_lit(e_vld, C.flit)} {C.flit(float(c["lamb"]))} '
            f'{"true" if (c["skip"] if skip is None else skip) else "false"}')


def stream_als_f(R, ctx, tn):
    """whole als in binary64: the same Gallina term at the PrimFloat instance, 1..3 sweeps, all option paths."""
    rng = ctx['rng']
    items = []
    dist = dict(cases=0, families={}, d={}, variants={})

    def add(c, impl, coq, variant, **extra):
        items.append(dict(coq=coq, impl=impl, input=jcase(c, variant=variant, **extra)))
        dist['cases'] += 1
        dist['families'][c['family']] = dist['families'].get(c['family'], 0) + 1
        dist['d'][len(c['shape'])] = dist['d'].get(len(c['shape']), 0) + 1
        dist['variants'][variant] = dist['variants'].get(variant, 0) + 1

    N = 160 if ctx['thorough'] else 36
    fams = ['generic', 'dup', 'single0', 'singlep', 'weights', 'missing']
    for t in range(N):
        c = gen_case(rng, family=fams[t % len(fams)])
        m = len(c['I'])
        # plain run, 1..3 sweeps
        impl = run_als(tn, c)
        add(c, impl, als_f_term(c, None, c['nswp']), 'plain')
        if c['family'] == 'missing':
            c2 = dict(c, skip=not c['skip'])
            add(c2, run_als(tn, c2), als_f_term(c2, None, c['nswp']), 'missing-flipped')
            continue
        # permuted sample order (all permutations for <= 4 samples of a cut-down set, random otherwise)
        perm = list(range(m))
        rng.shuffle(perm)
        Ip, yp = [c['I'][j] for j in perm], [c['y'][j] for j in perm]
        wp = [ones(c)[j] for j in perm]
        implp = run_als(tn, c, I=Ip, y=yp, w=(None if c['w'] is None else wp))
        add(c, implp, als_f_term(c, None, c['nswp'], I=Ip, y=yp, w=wp), 'permuted', perm=perm)
        if t % 3 == 0:
            # restart: a sweeps, then b sweeps from the result of the IMPLEMENTATION
            a, b = rng.randint(1, 2), rng.randint(1, 2)
            ia = run_als(tn, c, nswp=a)
            if ia['status'] == 0:
                Ya = [G.tolist() for G in ia['cores']]
                ib = run_als(tn, c, nswp=b, Y0=Ya)
                add(c, ib, als_f_term(c, None, b, Y0=Ya), 'restart-b', a=a, b=b)
        if t % 3 == 1:
            # callback answering with a true value after sweep t0 and with a false value before; the model's callback is the
            # TRUTHINESS of the answer (documented: "If the callback returns a true value ... stopped")
            t0 = rng.randint(1, 3)
            yes = CB_TRUE[rng.randrange(len(CB_TRUE))]
            no = CB_FALSE[rng.randrange(len(CB_FALSE))]
            ic = run_als(tn, c, nswp=4, cb=lambda Y, info, opts, t0=t0, yes=yes, no=no: yes[1] if info['nswp'] == t0 else no[1])
            add(c, ic, als_f_term(c, None, 4, t0=t0), 'cb', t0=t0, cb_true=yes[0], cb_false=no[0])
        if t % 3 == 2:
            # stop by e: threshold strictly between two recorded accuracy values
            rec = run_als(tn, c, nswp=5, e=None, record=True)
            if rec['status'] == 0:
                a = rec['accs'][1:]
                cand = [k for k in range(1, len(a)) if 0 < a[k] < 0.5 * min(a[:k])]
                if cand:
                    k = cand[0]
                    thr = math.sqrt(a[k] * min(a[:k]))
                    ie = run_als(tn, c, nswp=5, e=thr, record=True)
                    add(c, ie, als_f_term(c, ie, 5, e=thr), 'e-stop', thr=thr)
        if t % 4 == 0:
            # validation data and e_vld (also the case where it is met before the first sweep)
            Iv = [[rng.randrange(n) for n in c['shape']] for _ in range(4)]
            yv = [rng.randint(-3, 3) or 1 for _ in range(4)]
            rec = run_als(tn, c, nswp=3, vld=(Iv, yv), e_vld=None, record=True)
            if rec['status'] == 0 and rec['accvs']:
                v = rec['accvs']
                for thr in (1.5 * max(v) + 1.0, 0.5 * (min(v[1:]) + sorted(v[1:])[-1]) if len(v) > 1 else None):
                    if thr is None or any(abs(x - thr) < 1e-6 * thr for x in v):
                        continue
                    iv = run_als(tn, c, nswp=3, vld=(Iv, yv), e_vld=thr, record=True)
                    add(c, iv, als_f_term(c, iv, 3, e_vld=thr), 'e_vld', thr=thr, Iv=Iv, yv=yv)
        if t % 6 in (0, 4):
            i0 = run_als(tn, c, nswp=0)
            add(c, i0, als_f_term(c, None, 0), 'nswp0')
            # a stop reason set in front of the loop is kept when the callback returns True after the first sweep
            i1 = run_als(tn, c, nswp=0, cb=lambda Y, info, opts: True)
            add(c, i1, als_f_term(c, None, 0, t0=1), 'nswp0+cb', t0=1)
    # weights containing exact zeros (all samples of one slice masked out), with and without allow_skip_cores
    for t in range(24 if ctx['thorough'] else 8):
        c = gen_case(rng, family='zerow', d=[3, 2, 3, 4][t % 4])
        add(c, run_als(tn, c), als_f_term(c, None, c['nswp']), 'zero weights')
        if t % 2 == 0:
            m = len(c['I'])
            perm = list(range(m))
            rng.shuffle(perm)
            Ip, yp, wp = [c['I'][j] for j in perm], [c['y'][j] for j in perm], [c['w'][j] for j in perm]
            add(c, run_als(tn, c, I=Ip, y=yp, w=wp), als_f_term(c, None, c['nswp'], I=Ip, y=yp, w=wp), 'zero weights, permuted', perm=perm)
    # allow_skip_cores in every false / true form on data with a slice without sample: the model gets its truth value
    for t in range(12 if ctx['thorough'] else 4):
        c = gen_case(rng, family='missing', d=[3, 2, 3, 4][t % 4])
        for name, val in (FLAG_FALSE[t % len(FLAG_FALSE)], FLAG_FALSE[(t + 1) % len(FLAG_FALSE)], FLAG_TRUE[t % len(FLAG_TRUE)]):
            c2 = dict(c, skip=bool(val))
            add(c2, call_als(tn, canon_kw(c, nswp=c['nswp'], allow_skip_cores=val)), als_f_term(c2, None, c['nswp']),
                'allow_skip_cores form', flag=name)
    # cross-cutting families: the implementation is called in another argument form / on reused objects / with an exact
    # power-of-two rescaling of (w, lamb) / on degenerate shapes; the model evaluates the canonical input
    for t in range(24 if ctx['thorough'] else 8):
        c = gen_case(rng, family=['generic', 'weights', 'dup', 'singlep'][t % 4], d=[2, 3, 3, 4][t % 4])
        forms = [f_ for f_ in als_forms(c) if f_[2]]
        name, over, _ = forms[rng.randrange(len(forms))]
        over = dict(over)
        over.setdefault('nswp', c['nswp'])
        if name.startswith('nswp'):
            over['nswp'] = type(over['nswp'])(c['nswp'])
        add(c, call_als(tn, canon_kw(c, **over)), als_f_term(c, None, c['nswp']), 'form: ' + name)
        if t % 2 == 0:
            kw = canon_kw(c, nswp=c['nswp'])
            with warnings.catch_warnings():
                warnings.simplefilter('ignore')
                try:
                    tn.als(**kw)                                   # first call, module-level default info
                except Exception:  # noqa
                    pass
            add(c, call_als(tn, dict(kw, info=None)), als_f_term(c, None, c['nswp']), 'second call on the same objects')
        else:
            k = rng.choice([300, -300, 900, -1000])
            c2 = dict(c, lamb=float(c['lamb']) * 2.0 ** k, w=[float(v) * 2.0 ** k for v in ones(c)])
            add(c2, run_als(tn, c2), als_f_term(c2, None, c['nswp']), 'w, lamb * 2^k', k=k)
    for t, fam in enumerate(['m1', 'n1', 'd2', 'dup-only'] * (3 if ctx['thorough'] else 1)):
        c = gen_degenerate(rng, fam)
        add(c, run_als(tn, c), als_f_term(c, None, c['nswp']), 'degenerate: ' + fam)
    # all permutations of a small sample set
    c = gen_case(rng, family='single0', d=3)
    c['I'], c['y'] = c['I'][:max(c['shape']) + 1], c['y'][:max(c['shape']) + 1]
    c['w'] = None
    c['skip'] = True
    m = len(c['I'])
    perms = list(itertools.permutations(range(m)))
    rng.shuffle(perms)
    for perm in perms[:(120 if ctx['thorough'] else 24)]:
        Ip, yp = [c['I'][j] for j in perm], [c['y'][j] for j in perm]
        add(c, run_als(tn, c, I=Ip, y=yp), als_f_term(c, None, c['nswp'], I=Ip, y=yp), 'all-perms', perm=list(perm))
    return tolerant_corr(R, 'als_binary64', HF, items, cores_of_f, 6, dist,
                         'same Gallina term at PrimFloat (Gauss-Jordan instead of gelsy): cores within 1e-7 relative; '
                         'status / nswp / stop reason exact; accuracy values are replayed oracles')


# ---------------------------------------------------------------------------------------------- als_func
def cheb_H(X, n):
    """H[k][j, i] = T_i(x_jk) — the basis values als_func builds with a=-1, b=1 (independent recomputation)"""
    X = np.asarray(X, dtype=float)
    return [np.cos(np.arange(n)[None, :] * np.arccos(X[:, k])[:, None]) for k in range(X.shape[1])]


def gen_func_case(rng, d=None):
    d = d or rng.choice([2, 2, 3])
    n = rng.choice([2, 3])
    shape = [n] * d
    A0 = gen_tensor(rng, shape, 2)
    m = rng.randint(3, 8)
    # basis matrices with small integer entries: fh is a table lookup on integer "points" 0..m-1
    H = [[[rng.randint(-2, 2) for _ in range(n)] for _ in range(m)] for _ in range(d)]
    y = [rng.randint(-3, 3) for _ in range(m)]
    return dict(shape=shape, A0=[G.tolist() for G in A0], H=H, y=y, lamb=rng.choice(LAMBS), nswp=rng.choice([1, 2, 3]))


@with_floor
def run_als_func(tn, c, nswp=None, A0=None, order=None, _p=False):
    m = len(c['y'])
    order = list(range(m)) if order is None else order
    H = [np.array(Hk, dtype=float)[order] for Hk in c['H']]
    y = (_pert(c['y']) if _p else np.array(c['y'], dtype=float))[order]
    X = np.tile(np.arange(m, dtype=float)[:, None], (1, len(H)))
    fh = [(lambda x, Hk=Hk: Hk[np.asarray(np.rint(x), dtype=int)].T) for Hk in H]
    info = {}
    try:
        with warnings.catch_warnings():
            warnings.simplefilter('ignore')
            Y = tn.als_func(X, y, [np.array(G, dtype=float) for G in (c['A0'] if A0 is None else A0)],
                            nswp=c['nswp'] if nswp is None else nswp, e=None, info=info, fh=fh, lamb=float(c['lamb']))
        return dict(status=0, nswp=int(info['nswp']), stop=STOP.get(info['stop'], -1), cores=[np.array(G) for G in Y])
    except Exception as ex:  # noqa
        return dict(status=C.errclass(ex), error=repr(ex)[:200])


def stream_als_func(R, ctx, tn):
    rng = ctx['rng']
    itemsq, itemsf = [], []
    dist = dict(cases_q=0, cases_f=0)
    for t in range(40 if ctx['thorough'] else 10):
        c = gen_func_case(rng)
        impl = run_als_func(tn, c)
        Hs = lst(C.nested(Hk, C.flit) for Hk in c['H'])
        coq = (f'alsfF {Hs} {lst(C.flit(v) for v in c["y"])} {lst(core_f(G) for G in c["A0"])} {c["nswp"]}%nat '
               f'{C.flit(float(c["lamb"]))}')
        itemsf.append(dict(coq=coq, impl=impl, input=dict(c, lamb=str(c['lamb']))))
        dist['cases_f'] += 1
    for t in range(12 if ctx['thorough'] else 4):
        c = gen_func_case(rng, d=2)
        c['nswp'] = 1
        c['A0'] = [G.tolist() for G in gen_tensor(rng, c['shape'], 1, -1, 1)]
        impl = run_als_func(tn, c)
        Hs = lst(f'(vecsQ {C.nested(Hk)})' for Hk in c['H'])
        coq = (f'alsfQ {Hs} {lst(C.qlit(Fraction(v)) for v in c["y"])} {lst(core_q(G) for G in c["A0"])} 1%nat '
               f'{C.qlit(c["lamb"])}')
        itemsq.append(dict(coq=coq, impl=impl, input=dict(c, lamb=str(c['lamb']))))
        dist['cases_q'] += 1
    bad = tolerant_corr(R, 'als_func_binary64', HF, itemsf, cores_of_f, 4, dist,
                        'model at PrimFloat; cores within 1e-7 relative; nswp / stop exact (basis given as integer tables via fh)')
    bad += tolerant_corr(R, 'als_func_Qc', HQ, itemsq, cores_of_q, 1, dist,
                         'model exact over Qc, d=2 rank 1 one sweep; implementation within 1e-9 relative')
    return bad


# ---------------------------------------------------------------------------------------------- stiff but full-rank slice designs
# Regime: the slice system N = A^T W A + lamb I is symmetric positive definite with condition 1e8 .. 1e14 (interface vectors
# with a large common component plus O(1) variation, data with a large offset, lamb = 2^-20 .. 2^-33).  Measured on the
# unchanged tree (600 slices): the exact objective gap J(returned slice) - J(exact minimiser) is <= 6e-19 * sum(w y^2) for
# cond(N) < 1e16; beyond 1/eps the Gram matrix is numerically singular and the unchanged code itself loses the minimiser
# (reported to the lead; such slices are counted, not asserted).  Asserted: gap <= max(1e-9 * J*, 1e-13 * sum(w y^2)).
COND_OK = 1e14
GAP_REL, GAP_S = 1e-9, 1e-13


def solve_fr(N, g):
    """exact Gauss-Jordan over Fractions"""
    n = len(g)
    M = [list(row) + [g[i]] for i, row in enumerate(N)]
    for c in range(n):
        p_ = max(range(c, n), key=lambda r_: abs(M[r_][c]))
        M[c], M[p_] = M[p_], M[c]
        piv = M[c][c]
        M[c] = [v / piv for v in M[c]]
        for r_ in range(n):
            if r_ != c and M[r_][c] != 0:
                f = M[r_][c]
                M[r_] = [a - f * b for a, b in zip(M[r_], M[c])]
    return [M[i][n] for i in range(n)]


def slice_problem(L, Rv, idx, y, w, lamb):
    """exact ridge problem of one slice: rows a_j = kron(L_j, R_j) (index a*r2+b); returns (J, N, g, cond)"""
    rows = [[Fraction(la) * Fraction(rb) for la in L[j] for rb in Rv[j]] for j in idx]
    ys = [Fraction(y[j]) for j in idx]
    ws = [Fraction(w[j]) for j in idx]
    lam = Fraction(lamb)
    p_ = len(rows[0])
    N = [[sum(wj * r_[a] * r_[b] for wj, r_ in zip(ws, rows)) + (lam if a == b else 0) for b in range(p_)] for a in range(p_)]
    g = [sum(wj * r_[a] * yj for wj, r_, yj in zip(ws, rows, ys)) for a in range(p_)]

    def J(x):
        return sum(wj * (sum(a * b for a, b in zip(r_, x)) - yj) ** 2 for wj, r_, yj in zip(ws, rows, ys)) + lam * sum(v * v for v in x)
    cond = float(np.linalg.cond(np.array([[float(v) for v in row] for row in N])))
    return J, N, g, cond


def gap_verdict(gap, Jopt, S):
    """None if the exact objective gap is within the measured float accuracy of the unchanged code"""
    if gap < 0:
        return 'the reference is not the minimiser (negative gap)'
    if gap > max(Fraction(GAP_REL) * Jopt, Fraction(GAP_S) * S):
        return f'objective gap {float(gap):.3e} (J* = {float(Jopt):.3e}, sum w y^2 = {float(S):.3e})'
    return None


def gen_stiff_core(rng):
    r1, r2, n = rng.choice([1, 2]), rng.choice([1, 2, 2]), rng.randint(1, 3)
    m = rng.randint(n * r1 * r2 + 1, n * r1 * r2 + 8)
    B = 2 ** rng.choice([8, 10, 12])
    lamb = Fraction(1, 2 ** rng.choice([20, 24, 27, 30, 33]))
    i = [j % n for j in range(m)]
    rng.shuffle(i)
    Yl = [[B + rng.randint(-3, 3)] + [rng.randint(-3, 3) for _ in range(r1 - 1)] for _ in range(m)]
    Yr = [[rng.choice([1, 2, 4]) * rng.choice([1, B // 16]) + rng.randint(-2, 2)] + [rng.randint(-3, 3) for _ in range(r2 - 1)]
          for _ in range(m)]
    y = [rng.choice([0, B * B]) + rng.randint(-40, 40) + Fraction(rng.randint(-8, 8), 16) for _ in range(m)]
    w = [Fraction(rng.choice([1, 2, 1, 3]), rng.choice([1, 2])) for _ in range(m)] if rng.random() < 0.4 else None
    Q = [[[rng.randint(-3, 3) for _ in range(r2)] for _ in range(n)] for _ in range(r1)]
    return dict(r1=r1, r2=r2, n=n, i=i, Yl=Yl, Yr=Yr, y=y, w=w, lamb=lamb, Q=Q)


def stream_opt_core_stiff(R, ctx, tn):
    """_optimize_core on stiff slice designs: the model (exact over Qc) supplies the minimiser, the verdict is the EXACT objective
    gap of the slice the implementation returns (rational arithmetic), asserted where cond(N) <= COND_OK"""
    import importlib
    M = importlib.import_module('teneva.als')
    rng = ctx['rng']
    cases, terms = [], []
    for t in range(90 if ctx['thorough'] else 28):
        c = gen_stiff_core(rng)
        m = len(c['i'])
        with warnings.catch_warnings():
            warnings.simplefilter('ignore')
            try:
                out = M._optimize_core(np.array(c['Q'], dtype=float), np.array(c['i']), np.array([float(v) for v in c['y']]),
                                       np.array(c['Yl'], dtype=float), np.array(c['Yr'], dtype=float).T.copy(), float(c['lamb']),
                                       None if c['w'] is None else np.array([float(v) for v in c['w']]))
                c['out'] = np.array(out)
            except Exception as ex:  # noqa
                c['err'] = repr(ex)[:200]
        S_ = samples_q([[x] for x in c['i']], c['y'], c['w'] if c['w'] is not None else [1] * m)
        terms.append(f'tagQ 0 0 ++ tagQ 0 0 ++ optQ {C.qlit(c["lamb"])} {core_q(np.array(c["Q"]))} {S_} '
                     f'(vecsQ {C.nested(c["Yl"])}) (vecsQ {C.nested(c["Yr"])})')
        cases.append(c)
    vals = C.run_cases(f'{R.pid}_optimize_core_stiff_Qc', HQ, terms, chunk=7)
    bad = []
    dist = dict(cases=len(cases), slices=0, asserted=0, out_of_regime=0, cond_1e10_1e14=0, worst_gap_over_S=0.0)
    for c, v in zip(cases, vals):
        inp = dict(r1=c['r1'], r2=c['r2'], n=c['n'], i=c['i'], Yl=c['Yl'], Yr=c['Yr'], y=[str(x) for x in c['y']],
                   w=None if c['w'] is None else [str(x) for x in c['w']], lamb=str(c['lamb']), Q=c['Q'], family='stiff-core')
        R.add_distinct(('optimize_core_stiff_Qc', inp))
        if 'err' in c:
            bad.append(dict(stream='optimize_core_stiff_Qc', input=inp, why='implementation raised: ' + c['err']))
            continue
        G = v[2]                                              # model core, entries (num, den)
        m = len(c['i'])
        w = c['w'] if c['w'] is not None else [Fraction(1)] * m
        S = sum(Fraction(wj) * Fraction(yj) ** 2 for wj, yj in zip(w, c['y']))
        for k in range(c['n']):
            idx = [j for j in range(m) if c['i'][j] == k]
            if not idx:
                continue
            J, N, g, cond = slice_problem(c['Yl'], c['Yr'], idx, c['y'], w, c['lamb'])
            dist['slices'] += 1
            if cond > COND_OK:
                dist['out_of_regime'] += 1
                continue
            dist['asserted'] += 1
            dist['cond_1e10_1e14'] += 1 if cond >= 1e10 else 0
            xs = [Fraction(G[a][k][b][0], G[a][k][b][1]) for a in range(c['r1']) for b in range(c['r2'])]
            xh = [Fraction(float(c['out'][a, k, b])) for a in range(c['r1']) for b in range(c['r2'])]
            Jo = J(xs)
            why = gap_verdict(J(xh) - Jo, Jo, S)
            dist['worst_gap_over_S'] = max(dist['worst_gap_over_S'], float((J(xh) - Jo) / S) if S else 0.0)
            if why:
                bad.append(dict(stream='optimize_core_stiff_Qc', input=dict(inp, slice=k, cond=cond), why=why))
                break
    R.corr.append(dict(name='optimize_core_stiff_Qc', cases=len(cases), mismatches=len(bad),
                       comparison='exact (rational) objective gap of the returned slice against the model minimiser over Qc: '
                                  f'gap <= max({GAP_REL} J*, {GAP_S} sum w y^2) for every slice with cond(N) <= {COND_OK:g}',
                       distribution=dist, first_mismatches=bad[:3]))
    return bad


def gen_stiff_case(rng, kind=None):
    """whole-als stiff data: values ~ offset * rank-1 (1 + 0.1 noise) + O(1) rank-1 + 1e-2 noise, small lamb, full coverage + duplicates;
    or a badly balanced initial tensor (one interface direction scaled by 1e-4 .. 1e-6)"""
    kind = kind or ('offset' if rng.random() < 0.8 else 'unbalanced')
    d = rng.choice([2, 3, 3])
    n = [rng.choice([2, 3, 4]) for _ in range(d)]
    r = [1] + [2 if rng.random() < 0.85 else 1 for _ in range(d - 1)] + [1]
    I = [list(t) for t in itertools.product(*[range(k) for k in n])]
    I = I + [list(I[rng.randrange(len(I))]) for _ in range(rng.randint(0, 8))]
    rng.shuffle(I)
    nr = np.random.default_rng(rng.randrange(10 ** 6))
    off = rng.choice([1e3, 3e3, 1e4, 1e4, 2e4, 2e4]) if kind == 'offset' else 1.0
    lamb = 10.0 ** (-rng.choice([6, 7, 8, 9, 10]))
    u = [nr.normal(size=k) for k in n]
    v = [1 + 0.1 * nr.normal(size=k) for k in n]
    y = [float(off * np.prod([v[j][row[j]] for j in range(d)]) + np.prod([u[j][row[j]] for j in range(d)]) + 0.01 * nr.normal())
         for row in I]
    Y0 = [nr.normal(size=(r[k], n[k], r[k + 1])) for k in range(d)]
    if kind == 'unbalanced':
        k = rng.randrange(d - 1)
        if Y0[k].shape[2] >= 2:
            Y0[k][:, :, 1] *= 10.0 ** (-rng.choice([4, 5, 6]))
    return dict(family='stiff-' + kind, shape=n, I=I, y=y, Y0=[G.tolist() for G in Y0], lamb=lamb, off=off)


def interfaces_of(Y, I, k):
    L, Rv = [], []
    for row in I:
        v = np.ones(1)
        for j in range(k):
            v = v @ Y[j][:, row[j], :]
        u = np.ones(1)
        for j in range(len(Y) - 1, k, -1):
            u = Y[j][:, row[j], :] @ u
        L.append([float(x) for x in v])
        Rv.append([float(x) for x in u])
    return L, Rv


def core_conds(Y, I, lamb, k):
    L, Rv = interfaces_of(Y, I, k)
    out = []
    for i in range(Y[k].shape[1]):
        idx = [j for j in range(len(I)) if I[j][k] == i]
        if idx:
            A = np.array([np.kron(L[j], Rv[j]) for j in idx])
            out.append(float(np.linalg.cond(A.T @ A + lamb * np.eye(A.shape[1]))))
    return out


def oracle_stiff(tn, c, nswp=4):
    """stiff regime, implementation only: after every sweep the last updated core (core 1) is the minimiser of its slice problems up
    to the exact objective gap bound (own rational solver), and the objective does not rise, wherever the slice systems met are
    within the conditioning the unchanged code handles"""
    I, y, lamb = c['I'], c['y'], c['lamb']
    w = [1.0] * len(y)
    S = sum(Fraction(v) ** 2 for v in y)
    Y = [np.array(G, dtype=float) for G in c['Y0']]
    Ia, ya = np.array(I, dtype=int), np.array(y, dtype=float)
    Jp = J_ind(Y, I, y, None, lamb)
    cp = max(max(core_conds(Y, I, lamb, k)) for k in range(len(Y)))
    for swp in range(1, nswp + 1):
        with warnings.catch_warnings():
            warnings.simplefilter('ignore')
            Y = tn.als(Ia, ya, Y, nswp=1, e=None, lamb=lamb, info={})
        if [G.shape for G in Y] != [np.array(G).shape for G in c['Y0']] or not all(np.isfinite(G).all() for G in Y):
            return dict(what='als (stiff data): shape changed or non-finite cores', sweep=swp)
        J = J_ind(Y, I, y, None, lamb)
        cn_ = max(max(core_conds(Y, I, lamb, k)) for k in range(len(Y)))
        if max(cp, cn_) <= 1e12 and J > Jp + max(GAP_REL * Jp, 10 * GAP_S * float(S)):
            return dict(what='training objective increased from sweep to sweep (stiff but well-posed slice designs)',
                        got=[Jp, J], sweep=swp, cond=max(cp, cn_))
        Jp, cp = J, cn_
        L, Rv = interfaces_of(Y, I, 1)
        for i in range(Y[1].shape[1]):
            idx = [j for j in range(len(I)) if I[j][1] == i]
            Jf, N, g, cond = slice_problem(L, Rv, idx, y, w, lamb)
            if cond > COND_OK:
                continue
            xs = solve_fr(N, g)
            xh = [Fraction(float(Y[1][a, i, b])) for a in range(Y[1].shape[0]) for b in range(Y[1].shape[2])]
            Jo = Jf(xs)
            why = gap_verdict(Jf(xh) - Jo, Jo, S)
            if why:
                return dict(what='the last updated core is not the minimiser of the objective given the other cores '
                                 '(stiff but well-posed slice design): ' + why, sweep=swp, slice=i, cond=cond)
    return None


# ---------------------------------------------------------------------------------------------- als_func, default entry path
BOXES = [(0.0, 1.0), (0.5, 3.0), (-3.0, -1.0), (2.0, 7.0), (-1.0, 1.0), (-2.0, 5.0), (0.25, 0.75)]
TPOS = [-0.25, 0.0, 0.0, 0.125, 0.25, 0.375, 0.5, 0.625, 0.75, 0.875, 1.0, 1.0, 1.5]   # outside, boundary, interior


def gen_cheb_case(rng, d=None, box=None, n=None, rmax=2):
    d = d or rng.choice([2, 2, 3])
    n = n or rng.choice([2, 3, 4])
    a, b = box or rng.choice(BOXES)
    m = rng.randint(4, 9)
    X = [[a + (b - a) * rng.choice(TPOS) for _ in range(d)] for _ in range(m)]
    y = [rng.randint(-3, 3) for _ in range(m)]
    A0 = gen_tensor(rng, [n] * d, rmax)
    return dict(d=d, n=n, a=a, b=b, X=X, y=y, A0=[G.tolist() for G in A0], lamb=rng.choice(LAMBS), nswp=rng.choice([1, 2, 3]))


@with_floor
def run_als_func_cheb(tn, c, nswp=None, order=None, A0=None, _p=False):
    """the DEFAULT path of als_func: X, a, b given, fh=None"""
    m = len(c['y'])
    order = list(range(m)) if order is None else order
    info = {}
    try:
        with warnings.catch_warnings():
            warnings.simplefilter('ignore')
            Y = tn.als_func(np.array(c['X'], dtype=float)[order], (_pert(c['y']) if _p else np.array(c['y'], dtype=float))[order],
                            [np.array(G, dtype=float) for G in (c['A0'] if A0 is None else A0)], c['a'], c['b'],
                            nswp=c['nswp'] if nswp is None else nswp, e=None, info=info, lamb=float(c['lamb']))
        return dict(status=0, nswp=int(info['nswp']), stop=STOP.get(info['stop'], -1), cores=[np.array(G) for G in Y])
    except Exception as ex:  # noqa
        return dict(status=C.errclass(ex), error=repr(ex)[:200])


def jcheb(c):
    return dict(c, lamb=str(c['lamb']))


def stream_als_func_cheb(R, ctx, tn):
    """als_func through its default entry path (poi_scale 'cheb' + func_basis) on boxes that are not symmetric about 0
    and not of length 2, with points on the boundary and outside (clipping)."""
    rng = ctx['rng']
    itemsf, itemsq = [], []
    dist = dict(cases_f=0, cases_q=0, boxes={})
    N = 60 if ctx['thorough'] else 16
    for t in range(N):
        c = gen_cheb_case(rng, box=BOXES[t % len(BOXES)])
        impl = run_als_func_cheb(tn, c)
        coq = (f'alsfcF {C.nested(c["X"], C.flit)} {lst(C.flit(v) for v in c["y"])} {lst(core_f(G) for G in c["A0"])} '
               f'{C.flit(c["a"])} {C.flit(c["b"])} {c["nswp"]}%nat {C.flit(float(c["lamb"]))}')
        itemsf.append(dict(coq=coq, impl=impl, input=jcheb(c)))
        dist['cases_f'] += 1
        dist['boxes'][str((c['a'], c['b']))] = dist['boxes'].get(str((c['a'], c['b'])), 0) + 1
    for t in range(12 if ctx['thorough'] else 4):
        c = gen_cheb_case(rng, d=2, box=BOXES[t % 4], n=2, rmax=1)
        c['nswp'] = 1
        c['A0'] = [G.tolist() for G in gen_tensor(rng, [2, 2], 1, -1, 1)]
        impl = run_als_func_cheb(tn, c)
        Xq = '[' + '; '.join('[' + '; '.join(C.qlit(Fraction(v)) for v in row) + ']' for row in c['X']) + ']'
        coq = (f'alsfcQ {Xq} {lst(C.qlit(Fraction(v)) for v in c["y"])} {lst(core_q(G) for G in c["A0"])} '
               f'{C.qlit(Fraction(c["a"]))} {C.qlit(Fraction(c["b"]))} 1%nat {C.qlit(c["lamb"])}')
        itemsq.append(dict(coq=coq, impl=impl, input=jcheb(c)))
        dist['cases_q'] += 1
    bad = tolerant_corr(R, 'als_func_cheb_binary64', HF, itemsf, cores_of_f, 4, dist,
                        'model = scale_cheb (C18 model) + func_basis1 (C12 model) + als_func at PrimFloat; cores within 1e-7 '
                        'relative; nswp / stop exact; boxes asymmetric / length != 2, points on the boundary and outside')
    bad += tolerant_corr(R, 'als_func_cheb_Qc', HQ, itemsq, cores_of_q, 1, dist,
                         'the same entry path exact over Qc (d=2, n=2, rank 1, one sweep); implementation within 1e-9 relative')
    return bad


def cheb_ref_H(c, order=None):
    """independent reference: numpy.polynomial.chebyshev on the scaled, clipped points"""
    from numpy.polynomial import chebyshev as NC
    X = np.array(c['X'], dtype=float)
    if order is not None:
        X = X[order]
    a, b = float(c['a']), float(c['b'])
    Z = np.clip((2.0 * X - (a + b)) / (b - a), -1.0, 1.0)
    return [NC.chebvander(Z[:, k], c['n'] - 1) for k in range(X.shape[1])]


def oracle_func_cheb(tn, c, rng_seed=0):
    """property clauses of als_func on its default entry path, objective measured in the TRUE Chebyshev basis"""
    prng = np.random.default_rng(rng_seed)
    H = cheb_ref_H(c)
    A0 = [np.array(G, dtype=float) for G in c['A0']]
    runs = [run_als_func_cheb(tn, c, nswp=t) for t in (1, 2, 3)]
    for r_ in runs:
        if r_['status'] != 0:
            return dict(what='als_func (default Chebyshev path) raised on a valid input: ' + r_.get('error', ''))
    if [G.shape for G in runs[-1]['cores']] != [G.shape for G in A0]:
        return dict(what='als_func (default Chebyshev path) changed the shape / ranks of the initial approximation',
                    got=[list(G.shape) for G in runs[-1]['cores']], expected=[list(G.shape) for G in A0])
    Js = [J_fun(A0, H, c['y'], c['lamb'])] + [J_fun(r_['cores'], H, c['y'], c['lamb']) for r_ in runs]
    for t in range(1, 4):
        if Js[t] > Js[t - 1] * (1 + TOL) + 1e-12:
            return dict(what='als_func (default Chebyshev path): the objective in the Chebyshev basis of the scaled points '
                             'increased from sweep to sweep', got=Js, sweep=t)
    Y = [G.copy() for G in runs[-1]['cores']]
    J0 = Js[-1]
    for trial in range(16):
        h = prng.normal(size=Y[1].shape) * 10.0 ** (-prng.integers(0, 5))
        Z = [G.copy() for G in Y]
        Z[1] = Z[1] + h
        J1 = J_fun(Z, H, c['y'], c['lamb'])
        if J1 < J0 * (1 - TOL) - 1e-12:
            return dict(what='als_func (default Chebyshev path): the last updated core is not a minimiser of the objective '
                             'in the Chebyshev basis of the scaled points', got=[J0, J1], h=h.tolist())
    # first-order condition for the last updated core
    g = np.zeros_like(Y[1])
    eps = 1e-6
    for pos in itertools.product(*[range(s_) for s_ in Y[1].shape]):
        Z = [G.copy() for G in Y]
        Z[1][pos] += eps
        Jp = J_fun(Z, H, c['y'], c['lamb'])
        Z[1][pos] -= 2 * eps
        Jm = J_fun(Z, H, c['y'], c['lamb'])
        g[pos] = (Jp - Jm) / (2 * eps)
    if np.abs(g).max() > 1e-5 * max(1.0, J0):
        return dict(what='als_func (default Chebyshev path): gradient of the objective w.r.t. the last updated core is not zero',
                    got=float(np.abs(g).max()))
    m = len(c['y'])
    order = list(reversed(range(m)))
    rp = run_als_func_cheb(tn, c, nswp=3, order=order)
    ok, why = cores_close(rp.get('cores', []), runs[-1]['cores'], ftol(TOLF, rp, runs[-1]))
    if not ok:
        return dict(what='als_func (default Chebyshev path): result depends on the order of the training samples', got=why)
    ra = run_als_func_cheb(tn, c, nswp=2, A0=[G.tolist() for G in runs[0]['cores']])
    ok, why = cores_close(ra.get('cores', []), runs[-1]['cores'], 1e-12)
    if not ok:
        return dict(what='als_func (default Chebyshev path): 1+2 sweeps differ from 1 sweep, restart, 2 sweeps', got=why)
    # the default path equals the explicit-basis path fed with the reference basis
    cc = dict(A0=c['A0'], H=[h.tolist() for h in H], y=c['y'], lamb=c['lamb'], nswp=3)
    rb = run_als_func(tn, cc)
    ok, why = cores_close(rb.get('cores', []), runs[-1]['cores'], ftol(1e-9, rb, runs[-1]))
    if not ok:
        return dict(what='als_func: default Chebyshev path differs from fh = reference Chebyshev basis of the scaled points', got=why)
    return None


# ---------------------------------------------------------------------------------------------- adaptive mode
def stream_adaptive(R, ctx, tn):
    """rank-adaptive als: model with replayed orthogonalize / matrix_skeleton oracles (binary64)."""
    rng = ctx['rng']
    items = []
    dist = dict(cases=0, r={})
    o_orth, o_skel = tn.orthogonalize, tn.matrix_skeleton
    for t in range(40 if ctx['thorough'] else 10):
        d = rng.choice([3, 3, 4])
        c = gen_case(rng, family='generic', d=d)
        # cover every PAIR of neighbouring slices so that no entry of the two-core solve is left to np.empty
        I = []
        for k in range(d - 1):
            for a in range(c['shape'][k]):
                for b in range(c['shape'][k + 1]):
                    row = [rng.randrange(n) for n in c['shape']]
                    row[k], row[k + 1] = a, b
                    I.append(row)
        c['I'] = I
        c['y'] = [rng.randint(-3, 3) for _ in I]
        c['w'] = None
        c['nswp'] = rng.choice([1, 2])
        r = rng.choice([1, 2, 3])
        orths, skels = [], []

        def orth(Y, k, use_stab=False):
            out = o_orth(Y, k, use_stab)
            orths.append([np.array(G) for G in out])
            return out

        def skel(A, e=1e-10, r=1e12, hermitian=False, rel=False, give_to='m'):
            U, V = o_skel(A, e, r, hermitian, rel, give_to)
            skels.append((np.array(U), np.array(V)))
            return U, V
        tn.orthogonalize, tn.matrix_skeleton = orth, skel
        try:
            impl = run_als(tn, c, r=r, e_adap=1e-3)
        finally:
            tn.orthogonalize, tn.matrix_skeleton = o_orth, o_skel
        if impl['status'] != 0 or not orths:
            items_bad = dict(stream='als_adaptive', input=jcase(c, r=r), why='implementation raised: ' + impl.get('error', ''))
            R.corr.append(dict(name='als_adaptive_binary64', cases=1, mismatches=1, first_mismatches=[items_bad]))
            return [items_bad]
        orth_l = lst([lst(core_f(G) for G in orths[0])])
        skel_l = lst(f'({core_f(U[None, :, :])}, {core_f(V[None, :, :])})' for U, V in skels)
        coq = (f'adaF {orth_l} {skel_l} {samples_f(c["I"], c["y"], ones(c))} {lst(core_f(G) for G in c["Y0"])} '
               f'{c["nswp"]}%nat {r}%nat 10000%nat {C.flit(float(c["lamb"]))}')
        items.append(dict(coq=coq, impl=impl, input=jcase(c, r=r)))
        dist['cases'] += 1
        dist['r'][r] = dist['r'].get(r, 0) + 1
    return tolerant_corr(R, 'als_adaptive_binary64', HF, items, cores_of_f, 2, dist,
                         'model at PrimFloat with the recorded outputs of orthogonalize / matrix_skeleton replayed by call '
                         'number: cores within 1e-7 relative (hence ranks equal)')


def correspondence(R, ctx):
    tn = C.import_teneva()
    bad = []
    bad += stream_opt_core(R, ctx, tn)
    bad += stream_opt_core_stiff(R, ctx, tn)
    bad += stream_als_q(R, ctx, tn)
    bad += stream_als_f(R, ctx, tn)
    bad += stream_als_func(R, ctx, tn)
    bad += stream_als_func_cheb(R, ctx, tn)
    bad += stream_adaptive(R, ctx, tn)
    return bad


# ---------------------------------------------------------------------------------------------- search (implementation only)
def tt_get(Y, idx):
    v = np.ones(1)
    for G, i in zip(Y, idx):
        v = v @ G[:, i, :]
    return float(v[0])


def J_ind(Y, I, y, w, lamb):
    w = [1.0] * len(y) if w is None else [float(v) for v in w]
    return sum(wj * (tt_get(Y, i) - float(yj)) ** 2 for i, yj, wj in zip(I, y, w)) + \
        float(lamb) * sum(float((np.asarray(G) ** 2).sum()) for G in Y)


def fn_get(Y, hs):
    v = np.ones(1)
    for G, h in zip(Y, hs):
        v = v @ np.einsum('i,aib->ab', np.asarray(h, dtype=float), G)
    return float(v[0])


def J_fun(Y, H, y, lamb):
    m = len(y)
    return sum((fn_get(Y, [np.asarray(Hk)[j] for Hk in H]) - float(y[j])) ** 2 for j in range(m)) + \
        float(lamb) * sum(float((np.asarray(G) ** 2).sum()) for G in Y)


def oracle_als(tn, c, rng_seed=0):
    """all index-version clauses on one case; returns a failure dict or None"""
    prng = np.random.default_rng(rng_seed)
    d = len(c['shape'])
    covered = all(len({row[k] for row in c['I']}) == c['shape'][k] for k in range(d))
    res = run_als(tn, c, nswp=3, skip=None)
    if not covered and not c['skip']:
        if res['status'] != 1:
            return dict(what='missing slice data is not rejected with ValueError (allow_skip_cores=False)',
                        got=res.get('status'), expected=1)
        # explicit default
        info = {}
        try:
            tn.als(np.array(c['I']), np.array(c['y'], dtype=float), [np.array(G, dtype=float) for G in c['Y0']], nswp=1,
                   lamb=float(c['lamb']), info=info)
            return dict(what='missing slice data accepted by default (allow_skip_cores default)')
        except ValueError:
            return None
        except Exception as ex:  # noqa
            return dict(what='missing slice data: wrong exception ' + repr(ex)[:100])
    if res['status'] != 0:
        return dict(what='als raised on a valid input: ' + res.get('error', ''), got=res['status'])
    Y0 = [np.array(G, dtype=float) for G in c['Y0']]
    # shape and ranks
    if [G.shape for G in res['cores']] != [G.shape for G in Y0]:
        return dict(what='als changed the shape / ranks of the initial approximation',
                    got=[list(G.shape) for G in res['cores']], expected=[list(G.shape) for G in Y0])
    if res['nswp'] != 3 or res['stop'] != STOP['nswp']:
        return dict(what='info does not report the executed sweep count / stop reason', got=[res['nswp'], res['stop']],
                    expected=[3, STOP['nswp']])
    # uncovered slices are kept (allow_skip_cores=True)
    if not covered:
        for k in range(d):
            for i in range(c['shape'][k]):
                if i not in {row[k] for row in c['I']} and not np.array_equal(res['cores'][k][:, i, :], Y0[k][:, i, :]):
                    return dict(what='allow_skip_cores: an uncovered slice was modified', got=[k, i])
    # objective trajectory through cb and through repeated runs
    Js = [J_ind(Y0, c['I'], c['y'], c['w'], c['lamb'])]
    seen = []

    def cb(Y, info, opts):
        seen.append((info['nswp'], [np.array(G) for G in Y]))
    run_als(tn, c, nswp=3, cb=cb, floor=False)
    if [s[0] for s in seen] != [1, 2, 3]:
        return dict(what='callback is not called once after every sweep', got=[s[0] for s in seen])
    for t, Y in seen:
        Js.append(J_ind(Y, c['I'], c['y'], c['w'], c['lamb']))
    for t in range(1, len(Js)):
        if Js[t] > Js[t - 1] * (1 + TOL) + 1e-12:
            return dict(what='training objective increased from sweep to sweep', got=Js, sweep=t)
    for t in (1, 2):
        rt = run_als(tn, c, nswp=t)
        ok, why = cores_close(rt['cores'], seen[t - 1][1], 1e-12)
        if not ok:
            return dict(what='cores seen by the callback after sweep t differ from als(nswp=t)', got=why, sweep=t)
    # the last updated core (core 1) is at the exact minimiser: no perturbation decreases J
    if covered:
        Y = [G.copy() for G in res['cores']]
        J0 = J_ind(Y, c['I'], c['y'], c['w'], c['lamb'])
        for trial in range(12):
            h = prng.normal(size=Y[1].shape) * 10.0 ** (-prng.integers(0, 5))
            Z = [G.copy() for G in Y]
            Z[1] = Z[1] + h
            J1 = J_ind(Z, c['I'], c['y'], c['w'], c['lamb'])
            if J1 < J0 * (1 - TOL) - 1e-12:
                return dict(what='the last updated core is not a minimiser of the objective given the other cores',
                            got=[J0, J1], h=h.tolist())
        # first-order condition, relative
        g = np.zeros_like(Y[1])
        eps = 1e-6
        for pos in itertools.product(*[range(s) for s in Y[1].shape]):
            Z = [G.copy() for G in Y]
            Z[1][pos] += eps
            Jp = J_ind(Z, c['I'], c['y'], c['w'], c['lamb'])
            Z[1][pos] -= 2 * eps
            Jm = J_ind(Z, c['I'], c['y'], c['w'], c['lamb'])
            g[pos] = (Jp - Jm) / (2 * eps)
        if np.abs(g).max() > 1e-5 * max(1.0, J0):
            return dict(what='gradient of the objective w.r.t. the last updated core is not zero', got=float(np.abs(g).max()))
    # restart
    for a, b in ((1, 2), (2, 1), (1, 1)):
        ra = run_als(tn, c, nswp=a)
        rb = run_als(tn, c, nswp=b, Y0=[G.tolist() for G in ra['cores']])
        rab = run_als(tn, c, nswp=a + b)
        ok, why = cores_close(rb['cores'], rab['cores'], 1e-12)
        if not ok:
            return dict(what=f'{a}+{b} sweeps differ from {a} sweeps, restart, {b} sweeps', got=why)
    # sample order
    m = len(c['I'])
    perms = [list(reversed(range(m))), list(range(1, m)) + [0]]
    p = list(range(m))
    prng.shuffle(p)
    perms.append([int(x) for x in p])
    for perm in perms:
        Ip, yp = [c['I'][j] for j in perm], [c['y'][j] for j in perm]
        wp = None if c['w'] is None else [c['w'][j] for j in perm]
        rp = run_als(tn, c, nswp=3, I=Ip, y=yp, w=wp)
        ok, why = cores_close(rp.get('cores', []), res['cores'], ftol(TOLF, rp, res))
        if not ok:
            return dict(what='result depends on the order of the training samples', got=why, perm=perm)
    # every form of a true answer stops right after that sweep with stop = cb; every form of a false answer never stops
    for name, val in CB_TRUE:
        for t0 in (1, 2):
            rc = run_als(tn, c, nswp=5, cb=lambda Y, info, opts: val if info['nswp'] == t0 else None)
            if rc.get('nswp') != t0 or rc.get('stop') != STOP['cb']:
                return dict(what=f'a callback returning the true value {name} after sweep {t0} does not stop the run right after that sweep',
                            got=[rc.get('nswp'), rc.get('stop')], expected=[t0, STOP['cb']], cb_answer=name)
            ok, why = cores_close(rc['cores'], seen[t0 - 1][1], 1e-12)
            if not ok:
                return dict(what='result after a callback stop differs from the cores after that sweep', got=why, cb_answer=name)
    for name, val in CB_FALSE:
        rc = run_als(tn, c, nswp=3, cb=lambda Y, info, opts: val)
        if rc.get('nswp') != 3 or rc.get('stop') != STOP['nswp']:
            return dict(what=f'a callback returning the false value {name} stopped the run or changed the stop reason',
                        got=[rc.get('nswp'), rc.get('stop')], expected=[3, STOP['nswp']], cb_answer=name)
    for t0 in (1, 2):
        rc = run_als(tn, c, nswp=5, cb=lambda Y, info, opts: info['nswp'] == t0)
        if rc['nswp'] != t0 or rc['stop'] != STOP['cb']:
            return dict(what='callback returning True does not stop right after that sweep', got=[rc['nswp'], rc['stop']],
                        expected=[t0, STOP['cb']])
        ok, why = cores_close(rc['cores'], seen[t0 - 1][1], 1e-12)
        if not ok:
            return dict(what='result after a callback stop differs from the cores after that sweep', got=why)
    return None


def oracle_stop(tn, c, rng):
    """stop contract for e_vld and e on the implementation: thresholds far from every observed value"""
    Iv = [[rng.randrange(n) for n in c['shape']] for _ in range(4)]
    yv = [rng.randint(-3, 3) or 1 for _ in range(4)]
    seen = []
    rec = run_als(tn, c, nswp=3, vld=(Iv, yv), cb=lambda Y, info, opts: seen.append((info['nswp'], float(info['e']), float(info['e_vld']))), floor=False)
    if rec['status'] != 0 or len(seen) != 3:
        return None
    ev = [s_[2] for s_ in seen]
    es = [s_[1] for s_ in seen]
    if min(ev) > 1e-9:
        hi, lo = 2.0 * max(ev) + 10.0, 0.5 * min(ev)
        r1 = run_als(tn, c, nswp=3, vld=(Iv, yv), e_vld=hi)
        # the validation error of Y0 may be anything: the run stops after sweep 1 at the latest (reason e_vld)
        if r1['status'] != 0 or r1['nswp'] != 1 or r1['stop'] != STOP['e_vld']:
            return dict(what='e_vld above every validation error does not stop right after the first sweep with stop=e_vld',
                        got=[r1.get('nswp'), r1.get('stop')], expected=[1, STOP['e_vld']], e_vld=hi, Iv=Iv, yv=yv)
        r2 = run_als(tn, c, nswp=3, vld=(Iv, yv), e_vld=lo)
        pre = float(np.linalg.norm(np.array([tt_get([np.array(G, dtype=float) for G in c['Y0']], i) for i in Iv]) - np.array(yv, dtype=float))
                    / np.linalg.norm(np.array(yv, dtype=float)))
        if pre > lo * (1 + 1e-6) and (r2['status'] != 0 or r2['nswp'] != 3 or r2['stop'] != STOP['nswp']):
            return dict(what='e_vld below every validation error stopped the run early or changed the stop reason',
                        got=[r2.get('nswp'), r2.get('stop')], expected=[3, STOP['nswp']], e_vld=lo, Iv=Iv, yv=yv)
    if min(es) > 1e-9:
        hi, lo = 2.0 * max(es) + 10.0, 0.5 * min(es)
        r3 = run_als(tn, c, nswp=3, e=hi)
        if r3['status'] != 0 or r3['nswp'] != 1 or r3['stop'] != STOP['e']:
            return dict(what='e above every sweep-to-sweep change does not stop right after the first sweep with stop=e',
                        got=[r3.get('nswp'), r3.get('stop')], expected=[1, STOP['e']], e=hi)
        r4 = run_als(tn, c, nswp=3, e=lo)
        if r4['status'] != 0 or r4['nswp'] != 3 or r4['stop'] != STOP['nswp']:
            return dict(what='e below every sweep-to-sweep change stopped the run early or changed the stop reason',
                        got=[r4.get('nswp'), r4.get('stop')], expected=[3, STOP['nswp']], e=lo)
    # a reason set in front of the loop (nswp=0) is kept when the callback returns True
    r5 = run_als(tn, c, nswp=0, cb=lambda Y, info, opts: True)
    if r5['status'] != 0 or r5['nswp'] != 1 or r5['stop'] not in (STOP['nswp'], STOP['cb']):
        return dict(what='nswp=0 with a callback returning True: not exactly one sweep / undocumented stop reason',
                    got=[r5.get('nswp'), r5.get('stop')])
    return None


# ---------------------------------------------------------------------------------------------- cross-cutting families
def _noncontig(A):
    A = np.asarray(A)
    B = np.zeros(A.shape[:-1] + (2 * A.shape[-1],), dtype=A.dtype)
    B[..., ::2] = A
    return B[..., ::2]


def als_forms(c):
    """(name, kwargs-override, must_succeed) : alternative forms of the arguments of als; values are exactly representable"""
    I = np.array(c['I'], dtype=int)
    y = np.array([float(v) for v in c['y']])
    Y0 = [np.array(G, dtype=float) for G in c['Y0']]
    w = None if c['w'] is None else np.array([float(v) for v in c['w']])
    lam = float(c['lamb'])
    F = [('I list', dict(I_trn=I.tolist()), True), ('I tuple', dict(I_trn=tuple(map(tuple, I.tolist()))), True),
         ('I int32', dict(I_trn=I.astype(np.int32)), True), ('I int64', dict(I_trn=I.astype(np.int64)), True),
         ('I uint8', dict(I_trn=I.astype(np.uint8)), True), ('I F-ordered', dict(I_trn=np.asfortranarray(I)), True),
         ('I non-contiguous', dict(I_trn=_noncontig(I)), True),
         ('y list', dict(y_trn=y.tolist()), True), ('y float32', dict(y_trn=y.astype(np.float32)), True),
         ('y int', dict(y_trn=y.astype(int)), True), ('y float16', dict(y_trn=y.astype(np.float16)), True),
         ('lamb np.float64', dict(lamb=np.float64(lam)), True), ('lamb np.float32', dict(lamb=np.float32(lam)), True),
         ('lamb 0-d', dict(lamb=np.array(lam)), True),
         ('nswp np.int64', dict(nswp=np.int64(2)), True), ('nswp np.int32', dict(nswp=np.int32(2)), True),
         ('Y0 tuple', dict(Y0=tuple(G.copy() for G in Y0)), True),
         ('Y0 F-ordered', dict(Y0=[np.asfortranarray(G) for G in Y0]), True),
         ('Y0 non-contiguous', dict(Y0=[_noncontig(G) for G in Y0]), True),
         ('Y0 int cores', dict(Y0=[G.astype(int) for G in Y0]), False),
         ('skip as int', dict(allow_skip_cores=1 if c['skip'] else 0), True),
         ('skip np.bool_', dict(allow_skip_cores=np.bool_(c['skip'])), True),
         ('defaults explicit', dict(r=None, r_add=10000, e_adap=1.E-3, cb=None, I_vld=None,
                                                                                 y_vld=None, e_vld=None, use_stab=False, log=False), True)]
    if w is not None:
        F += [('w float32', dict(w=w.astype(np.float32)), True), ('w list', dict(w=w.tolist()), False),
              ('w F/non-contiguous', dict(w=_noncontig(w)), True)]
    else:
        F += [('w ones', dict(w=np.ones(len(y))), True), ('w int ones', dict(w=np.ones(len(y), dtype=int)), True)]
    return F


@with_floor
def call_als(tn, kw, _p=False):
    kw = dict(kw)
    if _p:
        kw['y_trn'] = _pert(np.asarray(kw['y_trn'], dtype=float).tolist())
    info = kw.pop('info', None)
    info = {} if info is None else info
    try:
        with warnings.catch_warnings():
            warnings.simplefilter('ignore')
            Y = tn.als(info=info, **kw)
        return dict(status=0, nswp=int(info['nswp']), stop=STOP.get(info['stop'], -1), cores=[np.array(G) for G in Y], raw=Y, info=info)
    except Exception as ex:  # noqa
        return dict(status=C.errclass(ex), error=repr(ex)[:200])


def canon_kw(c, nswp=2, **over):
    kw = dict(I_trn=np.array(c['I'], dtype=int), y_trn=np.array([float(v) for v in c['y']]),
              Y0=[np.array(G, dtype=float) for G in c['Y0']], nswp=nswp, e=None, lamb=float(c['lamb']),
              w=None if c['w'] is None else np.array([float(v) for v in c['w']]), allow_skip_cores=c['skip'])
    kw.update(over)
    return kw


def oracle_forms(tn, c):
    """every documented argument form gives the answer of the canonical form (values exactly representable)"""
    ref = call_als(tn, canon_kw(c))
    if ref['status'] != 0:
        return None
    for name, over, must in als_forms(c):
        if must is None:
            continue
        res = call_als(tn, canon_kw(c, **over))
        if res['status'] != 0:
            if must:
                return dict(what=f'als: documented argument form "{name}" is rejected: ' + res.get('error', ''), form=name)
            continue
        ok, why = cores_close(res['cores'], ref['cores'], 1e-12 if must else 1e-5)
        if not ok or res['nswp'] != ref['nswp'] or res['stop'] != ref['stop']:
            return dict(what=f'als: argument form "{name}" silently gives a different answer than the canonical form', got=why, form=name)
    # adaptive: r / r_add as NumPy scalars
    if len(c['shape']) >= 3:
        ra = call_als(tn, canon_kw(c, nswp=1, r=2, allow_skip_cores=True))
        if ra['status'] == 0:
            for name, over in (('r np.int64', dict(r=np.int64(2))), ('r np.int32', dict(r=np.int32(2))),
                               ('r_add np.int64', dict(r=2, r_add=np.int64(10000)))):
                rb = call_als(tn, canon_kw(c, nswp=1, allow_skip_cores=True, **dict(dict(r=2), **over)))
                ok, why = cores_close(rb.get('cores', []), ra['cores'], 1e-12)
                if not ok:
                    return dict(what=f'als (adaptive): argument form "{name}" changes the answer or is rejected: ' + rb.get('error', ''),
                                got=why, form=name)
    return None


def _snap(x):
    if x is None:
        return None
    if isinstance(x, (list, tuple)):
        return [_snap(v) for v in x]
    x = np.asarray(x)
    return (x.dtype.str, x.shape, x.tobytes())


def oracle_history(tn, c):
    """2-3 calls on the SAME argument objects (info omitted, then one shared dict): every call equals the reference from a
    saved copy, the arguments are bit-identical afterwards, results do not alias the arguments; restart through reused objects"""
    ref = {t: call_als(tn, canon_kw(c, nswp=t)) for t in (1, 2, 3)}
    if any(r_['status'] != 0 for r_ in ref.values()):
        return None
    kw = canon_kw(c)
    objs = dict(I_trn=kw['I_trn'], y_trn=kw['y_trn'], Y0=kw['Y0'], w=kw['w'])
    before = {k: _snap(v) for k, v in objs.items()}
    shared = {}
    outs = []
    for call, (t, info) in enumerate([(2, 'omit'), (2, 'omit'), (3, shared), (1, shared)]):
        k2 = dict(kw, nswp=t)
        try:
            with warnings.catch_warnings():
                warnings.simplefilter('ignore')
                Y = tn.als(**k2) if info == 'omit' else tn.als(info=info, **k2)
        except Exception as ex:  # noqa
            return dict(what=f'als: call {call + 1} on reused argument objects raised: ' + repr(ex)[:150])
        ok, why = cores_close(Y, ref[t]['cores'], 1e-12)
        if not ok:
            return dict(what=f'als: call {call + 1} on the same argument objects differs from the reference computed from a saved copy',
                        got=why, call=call + 1)
        if info != 'omit' and (info.get('nswp') != t or info.get('stop') != 'nswp'):
            return dict(what='als: a reused info dictionary does not report this call', got=[info.get('nswp'), info.get('stop')], call=call + 1)
        for k_, v in objs.items():
            if _snap(v) != before[k_]:
                return dict(what=f'als: argument {k_} is modified by the call', call=call + 1)
        for G in Y:
            for G0 in kw['Y0']:
                if np.shares_memory(G, G0):
                    return dict(what='als: the result aliases the initial approximation', call=call + 1)
        outs.append(Y)
    # restart through reused objects: Ya is an argument of the next call and must stay what it was
    Ya = tn.als(kw['I_trn'], kw['y_trn'], kw['Y0'], nswp=1, e=None, lamb=kw['lamb'], w=kw['w'], allow_skip_cores=c['skip'])
    sa = _snap(Ya)
    Yb = tn.als(kw['I_trn'], kw['y_trn'], Ya, nswp=2, e=None, lamb=kw['lamb'], w=kw['w'], allow_skip_cores=c['skip'])
    ok, why = cores_close(Yb, ref[3]['cores'], 1e-12)
    if not ok:
        return dict(what='als: 1 sweep, then 2 sweeps from the returned object (same I / y / w objects) differs from 3 sweeps', got=why)
    if _snap(Ya) != sa:
        return dict(what='als: the tensor returned by the first call is modified when passed as Y0 to the second call')
    return None


def oracle_history_func(tn, c):
    """als_func (default path and fh path): same X / y / A0 objects reused, info omitted"""
    X = np.array(c['X'], dtype=float)
    y = np.array(c['y'], dtype=float)
    A0 = [np.array(G, dtype=float) for G in c['A0']]
    ref = {t: run_als_func_cheb(tn, c, nswp=t) for t in (1, 2, 3)}
    if any(r_['status'] != 0 for r_ in ref.values()):
        return None
    before = (_snap(X), _snap(y), _snap(A0))
    with warnings.catch_warnings():
        warnings.simplefilter('ignore')
        for call, t in enumerate((2, 2, 3)):
            Y = tn.als_func(X, y, A0, c['a'], c['b'], nswp=t, e=None, lamb=float(c['lamb']))
            ok, why = cores_close(Y, ref[t]['cores'], 1e-12)
            if not ok:
                return dict(what=f'als_func: call {call + 1} on the same argument objects differs from the reference computed from a saved copy',
                            got=why, call=call + 1)
            if (_snap(X), _snap(y), _snap(A0)) != before:
                return dict(what='als_func: an argument is modified by the call', call=call + 1)
            if any(np.shares_memory(G, G0) for G in Y for G0 in A0):
                return dict(what='als_func: the result aliases the initial approximation', call=call + 1)
        Ya = tn.als_func(X, y, A0, c['a'], c['b'], nswp=1, e=None, lamb=float(c['lamb']))
        sa = _snap(Ya)
        Yb = tn.als_func(X, y, Ya, c['a'], c['b'], nswp=2, e=None, lamb=float(c['lamb']))
    ok, why = cores_close(Yb, ref[3]['cores'], 1e-12)
    if not ok:
        return dict(what='als_func: 1 sweep, then 2 sweeps from the returned object differs from 3 sweeps', got=why)
    if _snap(Ya) != sa:
        return dict(what='als_func: the tensor returned by the first call is modified when passed as A0 to the second call')
    return None


def oracle_history_info(tn, c1, c2, f1, f2):
    """HISTORY on a shared info dict (explicit and the module default), als and als_func: a first call that has converged
    (small final info['e']) must not influence a second call on other data with an e threshold >= that value: result, nswp
    and stop equal those of the same call with a fresh info dict.  Also a+b = a, restart, b on ONE reused info dict."""
    def als1(c, Y0, info, **kw):
        k = dict(I_trn=np.array(c['I'], dtype=int), y_trn=np.array([float(v) for v in c['y']]), Y0=[np.array(G, dtype=float) for G in Y0],
                 lamb=float(c['lamb']), allow_skip_cores=True)
        k.update(kw)
        if info is not None:
            k['info'] = info
        with warnings.catch_warnings():
            warnings.simplefilter('ignore')
            return tn.als(**k)

    def fun1(c, A0, info, **kw):
        k = dict(X_trn=np.array(c['X'], dtype=float), y_trn=np.array(c['y'], dtype=float), A0=[np.array(G, dtype=float) for G in A0],
                 a=c['a'], b=c['b'], lamb=float(c['lamb']))
        k.update(kw)
        if info is not None:
            k['info'] = info
        with warnings.catch_warnings():
            warnings.simplefilter('ignore')
            return tn.als_func(**k)

    for name, run, ca, cb_, start in (('als', als1, c1, c2, 'Y0'), ('als_func', fun1, f1, f2, 'A0')):
        try:
            Yc = run(ca, ca[start], {}, nswp=8, e=None)                      # converge first
            for mode in ('explicit', 'default'):
                D = {} if mode == 'explicit' else None
                probe = {}
                run(ca, Yc, probe, nswp=2, e=None)
                run(ca, Yc, D, nswp=2, e=None)                               # first call: ends with a small info['e']
                old_e = float(probe['e'])
                thr = max(2.0 * old_e, 1e-12)
                fresh = {}
                Yref = run(cb_, cb_[start], fresh, nswp=3, e=thr)
                Y2 = run(cb_, cb_[start], D, nswp=3, e=thr)                  # second call on the SAME info dict, other data
                ok, why = cores_close(Y2, Yref, 1e-12)
                if not ok:
                    return dict(what=f'{name}: a call on a reused info dict ({mode}) differs from the same call with a fresh info dict '
                                     f'(the earlier call ended with e = {old_e:.3e}, this call has e = {thr:.3e})', got=why,
                                fresh=[fresh.get('nswp'), fresh.get('stop')], routine=name, mode=mode)
                if D is not None and (D.get('nswp') != fresh.get('nswp') or D.get('stop') != fresh.get('stop')):
                    return dict(what=f'{name}: nswp / stop reported in a reused info dict differ from those of a fresh info dict',
                                got=[D.get('nswp'), D.get('stop')], expected=[fresh.get('nswp'), fresh.get('stop')], routine=name)
            # restart on ONE reused info dict, with an e threshold that the converged first leg meets
            D = {}
            run(ca, Yc, D, nswp=2, e=None)
            thr = max(2.0 * float(D['e']), 1e-12)
            Ya = run(cb_, cb_[start], D, nswp=1, e=thr)
            Yb = run(cb_, Ya, D, nswp=2, e=thr)
            f1_, f2_ = {}, {}
            Za = run(cb_, cb_[start], f1_, nswp=1, e=thr)
            Zb = run(cb_, Za, f2_, nswp=2, e=thr)
            ok, why = cores_close(Yb, Zb, 1e-12)
            if not ok or D.get('nswp') != f2_.get('nswp') or D.get('stop') != f2_.get('stop'):
                return dict(what=f'{name}: a sweeps, restart, b sweeps on one reused info dict differs from the same two calls with fresh '
                                 'info dicts', got=why, info=[D.get('nswp'), D.get('stop')], fresh=[f2_.get('nswp'), f2_.get('stop')], routine=name)
            if f2_.get('stop') == 'nswp' and f1_.get('stop') == 'nswp':
                Zab = run(cb_, cb_[start], {}, nswp=3, e=thr)
                ok, why = cores_close(Yb, Zab, 1e-12)
                if not ok:
                    return dict(what=f'{name}: 1+2 sweeps on one reused info dict differ from 3 sweeps', got=why, routine=name)
        except Exception as ex:  # noqa
            return dict(what=f'{name}: history on a shared info dict raised: ' + repr(ex)[:200], routine=name)
    return None


def oracle_forms_func(tn, c):
    """argument forms of als_func: X / y / A0 containers and dtypes, a / b scalars, fh as one function or a list"""
    ref = run_als_func_cheb(tn, c, nswp=2)
    if ref['status'] != 0:
        return None
    X = np.array(c['X'], dtype=float)
    y = np.array(c['y'], dtype=float)
    A0 = [np.array(G, dtype=float) for G in c['A0']]
    a, b, lam, n = c['a'], c['b'], float(c['lamb']), c['n']
    x32 = bool((X.astype(np.float32).astype(float) == X).all())
    ab_int = float(a).is_integer() and float(b).is_integer()
    forms = [('X list', dict(X_trn=X.tolist())), ('X F-ordered', dict(X_trn=np.asfortranarray(X))), ('X non-contiguous', dict(X_trn=_noncontig(X))),
             ('y list', dict(y_trn=y.tolist())), ('y int', dict(y_trn=y.astype(int))), ('y float32', dict(y_trn=y.astype(np.float32))),
             ('A0 tuple', dict(A0=tuple(G.copy() for G in A0))), ('A0 F-ordered', dict(A0=[np.asfortranarray(G) for G in A0])),
             ('A0 non-contiguous', dict(A0=[_noncontig(G) for G in A0])),
             ('a, b np.float64', dict(a=np.float64(a), b=np.float64(b))), ('a, b np.float32', dict(a=np.float32(a), b=np.float32(b))),
             ('lamb np.float32', dict(lamb=np.float32(lam))), ('nswp np.int64', dict(nswp=np.int64(2))),
             ('n_max=None, thr_pow explicit', dict(n_max=None, thr_pow=1.E-6, log=False, X_vld=None, y_vld=None, e_vld=None))]
    if x32:
        forms.append(('X float32', dict(X_trn=X.astype(np.float32))))
    if ab_int:
        forms.append(('a, b Python int', dict(a=int(a), b=int(b))))
    # fh given explicitly: one function for all modes / a list of d functions, equal to the default basis
    def fh1(x, a=a, b=b, n=n):
        return tn.func_basis(tn.poi_scale(x, a, b, kind='cheb'), n)
    forms += [('fh single function', dict(fh=fh1)), ('fh list', dict(fh=[fh1] * len(A0))), ('fh tuple', dict(fh=tuple([fh1] * len(A0))))]
    # undocumented forms (a, b are documented as float): may raise, must not silently change the answer
    maybe = [('a, b 0-d arrays', dict(a=np.array(a), b=np.array(b))), ('A0 int cores', dict(A0=[G.astype(int) for G in A0]))]
    for name, over in forms + maybe:
        kw = dict(X_trn=X.copy(), y_trn=y.copy(), A0=[G.copy() for G in A0], a=a, b=b, nswp=2, e=None, info={}, lamb=lam)
        kw.update(over)
        try:
            with warnings.catch_warnings():
                warnings.simplefilter('ignore')
                Y = tn.als_func(**kw)
        except Exception as ex:  # noqa
            if (name, over) in maybe:
                continue
            return dict(what=f'als_func: documented argument form "{name}" is rejected: ' + repr(ex)[:150], form=name)
        ok, why = cores_close(Y, ref['cores'], 1e-12)
        if not ok:
            return dict(what=f'als_func: argument form "{name}" silently gives a different answer than the canonical form', got=why, form=name)
    return None


def gen_degenerate(rng, fam):
    """degenerate shapes and scales for als: every case is valid input"""
    c = gen_case(rng, family='generic', d=2 if fam == 'd2' else rng.choice([2, 3]))
    d = len(c['shape'])
    if fam == 'm1':
        c['I'], c['y'], c['w'] = c['I'][:1], c['y'][:1], (c['w'][:1] if c['w'] else None)
        c['skip'] = True
    elif fam == 'n1':
        ks = [0] if rng.random() < 0.5 else list(range(d))
        for k in ks:
            c['shape'][k] = 1
        c['Y0'] = [G.tolist() for G in gen_tensor(rng, c['shape'], 2)]
        c['I'] = [[min(i, n - 1) for i, n in zip(row, c['shape'])] for row in c['I']]
        c['skip'] = True
    elif fam == 'dup-only':
        row = c['I'][0]
        c['I'] = [list(row) for _ in c['I']]
        c['skip'] = True
    elif fam in ('y*2^300', 'y*2^-300'):
        sc = 2.0 ** (300 if fam == 'y*2^300' else -300)
        c['y'] = [float(v) * sc for v in c['y']]
        c['skip'] = True
    c['family'] = fam
    return c


def oracle_degenerate(tn, c):
    """valid degenerate input: no exception, finite result, shape kept, info, descent, restart, sample order"""
    Y0 = [np.array(G, dtype=float) for G in c['Y0']]
    Js = [J_ind(Y0, c['I'], c['y'], c['w'], c['lamb'])]
    runs = {}
    for t in (1, 2, 3):
        r_ = call_als(tn, canon_kw(c, nswp=t))
        if r_['status'] != 0:
            return dict(what=f'als raised on a valid degenerate input ({c["family"]}): ' + r_.get('error', ''))
        if not all(np.isfinite(G).all() for G in r_['cores']):
            return dict(what=f'als returned non-finite cores on a valid degenerate input ({c["family"]})')
        if [G.shape for G in r_['cores']] != [G.shape for G in Y0]:
            return dict(what=f'als changed the shape / ranks of the initial approximation ({c["family"]})')
        if r_['nswp'] != t or r_['stop'] != STOP['nswp']:
            return dict(what=f'info does not report the executed sweep count / stop reason ({c["family"]})', got=[r_['nswp'], r_['stop']])
        runs[t] = r_
        Js.append(J_ind(r_['cores'], c['I'], c['y'], c['w'], c['lamb']))
    for t in range(1, 4):
        if Js[t] > Js[t - 1] * (1 + TOL) + 1e-300:
            return dict(what=f'training objective increased from sweep to sweep ({c["family"]})', got=Js, sweep=t)
    if c['family'].startswith('y*'):
        return None
    rb = call_als(tn, canon_kw(c, nswp=2, Y0=[G.copy() for G in runs[1]['cores']]))
    ok, why = cores_close(rb.get('cores', []), runs[3]['cores'], 1e-12)
    if not ok:
        return dict(what=f'1+2 sweeps differ from 1 sweep, restart, 2 sweeps ({c["family"]})', got=why)
    m = len(c['I'])
    perm = list(reversed(range(m)))
    cp = dict(c, I=[c['I'][j] for j in perm], y=[c['y'][j] for j in perm], w=None if c['w'] is None else [c['w'][j] for j in perm])
    rp = call_als(tn, canon_kw(cp, nswp=3))
    ok, why = cores_close(rp.get('cores', []), runs[3]['cores'], ftol(TOLF, rp, runs[3]))
    if not ok:
        return dict(what=f'result depends on the order of the training samples ({c["family"]})', got=why)
    return None


def oracle_wlamb_scale(tn, c):
    """exact invariance: (w, lamb) -> (2^k w, 2^k lamb) leaves every normal equation, hence the result, unchanged"""
    w = [float(v) for v in ones(c)]
    ref = call_als(tn, canon_kw(c, w=np.array(w)))
    if ref['status'] != 0:
        return None
    for k in (300, -300, 1000 - 60, -1000):
        sc = 2.0 ** k
        res = call_als(tn, canon_kw(c, w=np.array(w) * sc, lamb=float(c['lamb']) * sc))
        ok, why = cores_close(res.get('cores', []), ref['cores'], ftol(TOLF, res, ref))
        if not ok:
            return dict(what=f'als: scaling the weights and lamb by 2^{k} changes the result', got=why, k=k, error=res.get('error'))
    return None


def oracle_flags(tn, c):
    """c: data with a slice without sample.  Every boolean option of als in its false forms (False / 0 / None / np.False_)
    acts as False and in its true forms (True / 1 / np.True_) as True."""
    import contextlib
    import io
    d = len(c['shape'])
    Y0 = [np.array(G, dtype=float) for G in c['Y0']]
    unc = [(k, i) for k in range(d) for i in range(c['shape'][k]) if i not in {row[k] for row in c['I']}]
    if not unc:
        return None
    modes = [('constant rank', {})] + ([('rank-adaptive', dict(r=2))] if d >= 3 else [])
    for mode, extra in modes:
        for name, val in FLAG_FALSE:
            res = call_als(tn, canon_kw(c, nswp=1, allow_skip_cores=val, **extra), floor=False)
            if res['status'] != 1:
                return dict(what=f'als ({mode}): missing slice data is accepted when allow_skip_cores is the false value {name} '
                                 '(ValueError required unless explicitly allowed)', got=res.get('status'), expected=1, flag=name, mode=mode)
        for name, val in FLAG_TRUE:
            res = call_als(tn, canon_kw(c, nswp=1, allow_skip_cores=val, **extra), floor=False)
            if res['status'] != 0:
                return dict(what=f'als ({mode}): allow_skip_cores given as the true value {name} does not allow missing slice data: '
                                 + res.get('error', ''), flag=name, mode=mode)
            if mode == 'constant rank':
                if [G.shape for G in res['cores']] != [G.shape for G in Y0]:
                    return dict(what='als changed the shape / ranks of the initial approximation', flag=name)
                for k, i in unc:
                    if not np.array_equal(res['cores'][k][:, i, :], Y0[k][:, i, :]):
                        return dict(what='allow_skip_cores: an uncovered slice was modified', got=[k, i], flag=name)
    # log / use_stab / allow_swap: the false forms give the canonical answer; log in a true form only prints
    cs = dict(c, skip=True)
    ref = call_als(tn, canon_kw(cs, nswp=2), floor=False)
    refa = call_als(tn, canon_kw(cs, nswp=1, r=2), floor=False) if d >= 3 else None
    if ref['status'] != 0:
        return None
    for name, val in FLAG_FALSE + FLAG_TRUE:
        with contextlib.redirect_stdout(io.StringIO()):
            res = call_als(tn, canon_kw(cs, nswp=2, log=val), floor=False)
        ok, why = cores_close(res.get('cores', []), ref['cores'], 1e-12)
        if not ok:
            return dict(what=f'als: log={name} changes the result or raises: ' + res.get('error', ''), got=why, flag=name)
    for name, val in FLAG_FALSE:
        if refa is not None and refa['status'] == 0:
            for opt in ('use_stab', 'allow_swap'):
                res = call_als(tn, canon_kw(cs, nswp=1, r=2, **{opt: val}), floor=False)
                ok, why = cores_close(res.get('cores', []), refa['cores'], 1e-12)
                if not ok:
                    return dict(what=f'als (rank-adaptive): {opt} given as the false value {name} changes the result or raises: '
                                     + res.get('error', ''), got=why, flag=name, option=opt)
    return None


def oracle_flags_func(tn, c):
    """als_func: log in every false / true form gives the canonical answer"""
    import contextlib
    import io
    ref = run_als_func_cheb(tn, c, nswp=2, floor=False)
    if ref['status'] != 0:
        return None
    for name, val in FLAG_FALSE + FLAG_TRUE:
        try:
            with warnings.catch_warnings(), contextlib.redirect_stdout(io.StringIO()):
                warnings.simplefilter('ignore')
                Y = tn.als_func(np.array(c['X'], dtype=float), np.array(c['y'], dtype=float), [np.array(G, dtype=float) for G in c['A0']],
                                c['a'], c['b'], nswp=2, e=None, info={}, lamb=float(c['lamb']), log=val)
        except Exception as ex:  # noqa
            return dict(what=f'als_func: log={name} raises: ' + repr(ex)[:150], flag=name)
        ok, why = cores_close(Y, ref['cores'], 1e-12)
        if not ok:
            return dict(what=f'als_func: log={name} changes the result', got=why, flag=name)
    return None


def oracle_adaptive(tn, c, r):
    # missing slice data must be rejected in the rank-adaptive mode too (ValueError unless allow_skip_cores)
    d = len(c['shape'])
    k0 = max(range(d), key=lambda k: c['shape'][k])
    if c['shape'][k0] >= 2:
        i0 = c['I'][0][k0]
        Im = [list(row) for row in c['I']]
        for row in Im:
            if row[k0] == i0:
                row[k0] = (i0 + 1) % c['shape'][k0]
        rm = run_als(tn, c, nswp=1, r=r, I=Im, skip=False)
        if rm['status'] != 1:
            return dict(what='rank-adaptive als (r given): missing slice data is not rejected with ValueError '
                             '(allow_skip_cores=False)', got=rm.get('status'), expected=1, I_missing=Im, slice=[k0, i0])
        rs = run_als(tn, c, nswp=1, r=r, I=Im, skip=True)
        if rs['status'] == 1:
            return dict(what='rank-adaptive als (r given): allow_skip_cores=True still raises ValueError for missing slice data',
                        I_missing=Im, slice=[k0, i0])
    res = run_als(tn, c, nswp=2, r=r)
    if res['status'] != 0:
        return dict(what='adaptive als raised: ' + res.get('error', ''))
    ranks = [G.shape[2] for G in res['cores'][:-1]]
    if max(ranks) > r:
        return dict(what='rank-adaptive als returned a rank above r', got=ranks, expected=r)
    if [G.shape[1] for G in res['cores']] != c['shape']:
        return dict(what='rank-adaptive als changed the mode sizes', got=[G.shape[1] for G in res['cores']])
    return None


def oracle_func(tn, c, rng_seed=0):
    prng = np.random.default_rng(rng_seed)
    res = run_als_func(tn, c, nswp=3)
    if res['status'] != 0:
        return dict(what='als_func raised on a valid input: ' + res.get('error', ''))
    A0 = [np.array(G, dtype=float) for G in c['A0']]
    if [G.shape for G in res['cores']] != [G.shape for G in A0]:
        return dict(what='als_func changed the shape / ranks of the initial approximation',
                    got=[list(G.shape) for G in res['cores']], expected=[list(G.shape) for G in A0])
    if res['nswp'] != 3 or res['stop'] != STOP['nswp']:
        return dict(what='als_func info does not report the executed sweep count / stop reason', got=[res['nswp'], res['stop']])
    Js = [J_fun(A0, c['H'], c['y'], c['lamb'])]
    runs = [run_als_func(tn, c, nswp=t) for t in (1, 2, 3)]
    Js += [J_fun(r_['cores'], c['H'], c['y'], c['lamb']) for r_ in runs]
    for t in range(1, 4):
        if Js[t] > Js[t - 1] * (1 + TOL) + 1e-12:
            return dict(what='als_func: training objective increased from sweep to sweep', got=Js, sweep=t)
    Y = [G.copy() for G in res['cores']]
    J0 = Js[-1]
    for trial in range(12):
        h = prng.normal(size=Y[1].shape) * 10.0 ** (-prng.integers(0, 5))
        Z = [G.copy() for G in Y]
        Z[1] = Z[1] + h
        J1 = J_fun(Z, c['H'], c['y'], c['lamb'])
        if J1 < J0 * (1 - TOL) - 1e-12:
            return dict(what='als_func: the last updated core is not a minimiser given the other cores', got=[J0, J1])
    ra = run_als_func(tn, c, nswp=1)
    rb = run_als_func(tn, c, nswp=2, A0=[G.tolist() for G in ra['cores']])
    ok, why = cores_close(rb['cores'], res['cores'], 1e-12)
    if not ok:
        return dict(what='als_func: 1+2 sweeps differ from 1 sweep, restart, 2 sweeps', got=why)
    m = len(c['y'])
    order = list(reversed(range(m)))
    rp = run_als_func(tn, c, nswp=3, order=order)
    ok, why = cores_close(rp.get('cores', []), res['cores'], ftol(TOLF, rp, res))
    if not ok:
        return dict(what='als_func: result depends on the order of the training samples', got=why)
    return None


def oracle_func_shape(tn):
    """F10: y = 1, initial approximation e_0 x e_0 with mode size 3, Chebyshev basis, lamb = 1e-9"""
    X = np.random.default_rng(0).uniform(-1, 1, size=(40, 2))
    y = np.ones(40)
    A0 = [np.array([[[1.], [0.], [0.]]]), np.array([[[1.], [0.], [0.]]])]
    with warnings.catch_warnings():
        warnings.simplefilter('ignore')
        A = tn.als_func(X, y, A0, nswp=1, lamb=1e-9, e=None, info={})
    if [G.shape for G in A] != [(1, 3, 1), (1, 3, 1)]:
        return dict(what='als_func (n_max=None) changed the mode sizes of the initial approximation',
                    got=[list(G.shape) for G in A], expected=[[1, 3, 1], [1, 3, 1]], kind='func_shape')
    # Chebyshev path against the table path: same result when the table holds the Chebyshev values
    A0 = [np.array(G, dtype=float) for G in gen_tensor(C.Rng(5), [3, 3], 2)]
    yy = np.cos(3 * X[:, 0]) + X[:, 1]
    with warnings.catch_warnings():
        warnings.simplefilter('ignore')
        A = tn.als_func(X, yy, A0, nswp=2, lamb=0.5, e=None, info={})
    H = cheb_H(X, 3)
    c = dict(A0=[G.tolist() for G in A0], H=[h.tolist() for h in H], y=yy.tolist(), lamb=0.5, nswp=2)
    B = run_als_func(tn, c)
    ok, why = cores_close(A, B.get('cores', []), ftol(1e-9, B))
    if not ok:
        return dict(what='als_func: Chebyshev basis path differs from the same basis passed through fh', got=why,
                    kind='func_shape')
    return None


F4_CASE = dict(family='F4', shape=[3, 3, 2],
               I=[[2, 0, 1], [0, 1, 0], [1, 2, 1], [0, 0, 0], [1, 1, 1], [0, 2, 0], [1, 0, 0]],
               y=[1, 2, -1, 0.5, 3, -2, 1.5], w=None, lamb=Fraction(1, 1000), nswp=3, skip=False, finfo={},
               Y0=None)


def search(R, ctx, deep, hints):
    tn = C.import_teneva()
    rng = ctx['rng']
    fails, n_eval = [], 0

    def push(kind, payload, f):
        if f:
            f = dict(f)
            f.setdefault('kind', kind)
            f['input'] = payload
            fails.append(f)

    # regression inputs first: F4 (only sample of a slice at position 0), F10 (als_func shape)
    c = dict(F4_CASE)
    c['Y0'] = [np.asarray(G).tolist() for G in tn.rand([3, 3, 2], 2, seed=5)]
    n_eval += 1
    try:
        push('als', jcase(c), oracle_als(tn, c))
    except Exception as ex:  # noqa
        push('als', jcase(c), dict(what='oracle raised: ' + repr(ex)[:200]))
    n_eval += 1
    try:
        push('func_shape', {}, oracle_func_shape(tn))
    except Exception as ex:  # noqa
        push('func_shape', {}, dict(what='als_func raised: ' + repr(ex)[:200]))
    # als_func through its default entry path: boxes asymmetric about 0 / of length != 2, boundary and outside points
    crng = C.Rng(77)
    for t in range(21 if deep else 7):
        if len(fails) >= 5:
            break
        c = gen_cheb_case(crng, box=BOXES[t % len(BOXES)])
        n_eval += 1
        try:
            push('func_cheb', jcheb(c), oracle_func_cheb(tn, c))
        except Exception as ex:  # noqa
            push('func_cheb', jcheb(c), dict(what='oracle raised: ' + repr(ex)[:200]))
    for h in hints[:6]:
        inp = h.get('input', {})
        if isinstance(inp, dict) and 'X' in inp and 'a' in inp and len(fails) < 5:
            c = dict(inp, lamb=Fraction(inp['lamb']))
            n_eval += 1
            try:
                push('func_cheb', jcheb(c), oracle_func_cheb(tn, c))
            except Exception as ex:  # noqa
                push('func_cheb', jcheb(c), dict(what='oracle raised: ' + repr(ex)[:200]))
    # hints from the correspondence
    cases = []
    for h in hints[:6]:
        inp = h.get('input', {})
        if isinstance(inp, dict) and 'I' in inp and 'Y0' in inp:
            cases.append(dict(inp, lamb=Fraction(inp['lamb']), w=[Fraction(v) for v in inp['w']] if inp.get('w') else None))
    fams = ['single0', 'singlep', 'generic', 'dup', 'weights', 'missing', 'single0', 'generic']
    n_rand = 60 if deep else 10
    for t in range(n_rand):
        cases.append(gen_case(rng, family=fams[t % len(fams)], d=[2, 3, 3, 4][t % 4]))
    for c in cases:
        if len(fails) >= 5:
            break
        n_eval += 1
        try:
            push('als', jcase(c), oracle_als(tn, c))
        except Exception as ex:  # noqa
            push('als', jcase(c), dict(what='oracle raised: ' + repr(ex)[:200]))
    # cross-cutting families: argument forms, histories on reused objects, scales and degenerate shapes
    xr = C.Rng(4242 + ctx['seed'] % 1000)
    # histories on a shared info dict (explicit and module default), als and als_func
    for t in range(6 if deep else 2):
        if len(fails) >= 5:
            break
        c1, c2 = gen_case(xr, family='generic', d=[3, 2][t % 2]), gen_case(xr, family='generic', d=[2, 3][t % 2])
        f1, f2 = gen_cheb_case(xr, box=BOXES[t % len(BOXES)]), gen_cheb_case(xr, box=BOXES[(t + 3) % len(BOXES)])
        n_eval += 1
        push('history_info', dict(c1=jcase(c1), c2=jcase(c2), f1=jcheb(f1), f2=jcheb(f2)), oracle_history_info(tn, c1, c2, f1, f2))
    # stiff but full-rank slice designs (large offset / badly balanced start, small lamb)
    for t in range(30 if deep else 12):
        if len(fails) >= 5:
            break
        c = gen_stiff_case(xr)
        n_eval += 1
        try:
            push('stiff', c, oracle_stiff(tn, c))
        except Exception as ex:  # noqa
            push('stiff', c, dict(what='stiff oracle raised: ' + repr(ex)[:200]))
    # weights with exact zeros (a whole slice masked out, k0 = 1 = the core updated last in half of the cases)
    for t in range(16 if deep else 4):
        if len(fails) >= 5:
            break
        c = gen_case(xr, family='zerow', d=[3, 2, 3, 4][t % 4])
        n_eval += 1
        try:
            push('als', jcase(c), oracle_als(tn, c))
        except Exception as ex:  # noqa
            push('als', jcase(c), dict(what='oracle raised: ' + repr(ex)[:200]))
    # boolean options in every false / true form
    for t in range(6 if deep else 2):
        if len(fails) >= 5:
            break
        c = gen_case(xr, family='missing', d=[3, 2, 4][t % 3])
        n_eval += 1
        try:
            push('flags', jcase(c), oracle_flags(tn, c))
        except Exception as ex:  # noqa
            push('flags', jcase(c), dict(what='flags oracle raised: ' + repr(ex)[:200]))
    cf = gen_cheb_case(xr, box=BOXES[1])
    n_eval += 1
    try:
        push('flags_func', jcheb(cf), oracle_flags_func(tn, cf))
    except Exception as ex:  # noqa
        push('flags_func', jcheb(cf), dict(what='flags oracle raised: ' + repr(ex)[:200]))
    xfams = ['generic', 'weights', 'dup', 'singlep']
    for t in range(12 if deep else 3):
        if len(fails) >= 5:
            break
        c = gen_case(xr, family=xfams[t % len(xfams)], d=[3, 2, 3, 4][t % 4])
        for kind, fn in (('forms', oracle_forms), ('history', oracle_history), ('wlamb', oracle_wlamb_scale)):
            n_eval += 1
            try:
                push(kind, jcase(c), fn(tn, c))
            except Exception as ex:  # noqa
                push(kind, jcase(c), dict(what=f'{kind} oracle raised: ' + repr(ex)[:200]))
    for t, fam in enumerate(['m1', 'n1', 'd2', 'dup-only', 'y*2^300', 'y*2^-300'] * (3 if deep else 1)):
        if len(fails) >= 5:
            break
        c = gen_degenerate(xr, fam)
        n_eval += 1
        try:
            push('degenerate', jcase(c), oracle_degenerate(tn, c))
        except Exception as ex:  # noqa
            push('degenerate', jcase(c), dict(what='degenerate oracle raised: ' + repr(ex)[:200]))
    for t in range(9 if deep else 3):
        if len(fails) >= 5:
            break
        c = gen_cheb_case(xr, box=BOXES[(2 * t) % len(BOXES)])
        if t % 3 == 2:
            c['X'], c['y'] = c['X'][:1], c['y'][:1]          # a single sample
        for kind, fn in (('forms_func', oracle_forms_func), ('history_func', oracle_history_func)):
            n_eval += 1
            try:
                push(kind, jcheb(c), fn(tn, c))
            except Exception as ex:  # noqa
                push(kind, jcheb(c), dict(what=f'{kind} oracle raised: ' + repr(ex)[:200]))
    for t in range(20 if deep else 4):
        if len(fails) >= 5:
            break
        c = gen_case(rng, family='generic', d=rng.choice([2, 3]))
        c['skip'] = True
        n_eval += 1
        srng = C.Rng(1000 + t)
        try:
            push('stop', jcase(c, srng=1000 + t), oracle_stop(tn, c, srng))
        except Exception as ex:  # noqa
            push('stop', jcase(c, srng=1000 + t), dict(what='oracle raised: ' + repr(ex)[:200]))
    for t in range(30 if deep else 6):
        if len(fails) >= 5:
            break
        c = gen_case(rng, family='generic', d=rng.choice([3, 4]))
        r = rng.choice([1, 2, 3])
        n_eval += 1
        try:
            push('adaptive', jcase(c, r=r), oracle_adaptive(tn, c, r))
        except Exception as ex:  # noqa
            push('adaptive', jcase(c, r=r), dict(what='oracle raised: ' + repr(ex)[:200]))
    for t in range(30 if deep else 6):
        if len(fails) >= 5:
            break
        c = gen_func_case(rng)
        n_eval += 1
        try:
            push('func', dict(c, lamb=str(c['lamb'])), oracle_func(tn, c))
        except Exception as ex:  # noqa
            push('func', dict(c, lamb=str(c['lamb'])), dict(what='oracle raised: ' + repr(ex)[:200]))
    R.search.append(dict(name='ALS oracles on the implementation (objective recomputed from the returned cores, '
                              'perturbation of the last core, restart, permutation, info, cb, missing slices, adaptive ranks, '
                              'als_func)', evaluations=n_eval, failures=len(fails), deep=deep))
    return fails


def replay(data):
    tn = C.import_teneva()
    p = data['payload']
    print(data['what'])
    kind, inp = p.get('kind'), p.get('input', {})
    f = None
    if kind == 'func_shape':
        f = oracle_func_shape(tn)
    elif kind == 'als':
        c = dict(inp, lamb=Fraction(inp['lamb']), w=[Fraction(v) for v in inp['w']] if inp.get('w') else None)
        f = oracle_als(tn, c)
    elif kind == 'stop':
        c = dict(inp, lamb=Fraction(inp['lamb']), w=[Fraction(v) for v in inp['w']] if inp.get('w') else None)
        f = oracle_stop(tn, c, C.Rng(inp['srng']))
    elif kind == 'adaptive':
        c = dict(inp, lamb=Fraction(inp['lamb']), w=None)
        f = oracle_adaptive(tn, c, inp['r'])
    elif kind == 'func':
        c = dict(inp, lamb=Fraction(inp['lamb']))
        f = oracle_func(tn, c)
    elif kind == 'history_info':
        def cv(x):
            return dict(x, lamb=Fraction(x['lamb']), w=[Fraction(v) for v in x['w']] if x.get('w') else None)
        f = oracle_history_info(tn, cv(inp['c1']), cv(inp['c2']), dict(inp['f1'], lamb=Fraction(inp['f1']['lamb'])),
                                dict(inp['f2'], lamb=Fraction(inp['f2']['lamb'])))
    elif kind == 'stiff':
        f = oracle_stiff(tn, inp)
    elif kind == 'flags':
        c = dict(inp, lamb=Fraction(inp['lamb']), w=[Fraction(v) for v in inp['w']] if inp.get('w') else None)
        f = oracle_flags(tn, c)
    elif kind == 'flags_func':
        f = oracle_flags_func(tn, dict(inp, lamb=Fraction(inp['lamb'])))
    elif kind in ('forms', 'history', 'wlamb', 'degenerate'):
        c = dict(inp, lamb=Fraction(inp['lamb']), w=[Fraction(v) for v in inp['w']] if inp.get('w') else None)
        f = dict(forms=oracle_forms, history=oracle_history, wlamb=oracle_wlamb_scale, degenerate=oracle_degenerate)[kind](tn, c)
    elif kind in ('forms_func', 'history_func'):
        c = dict(inp, lamb=Fraction(inp['lamb']))
        f = dict(forms_func=oracle_forms_func, history_func=oracle_history_func)[kind](tn, c)
    elif kind == 'func_cheb':
        c = dict(inp, lamb=Fraction(inp['lamb']))
        f = oracle_func_cheb(tn, c)
    else:
        print('no failing input recorded:', p.get('broken'))
        return 1
    print('replayed:', f)
    return 1 if f else 0
