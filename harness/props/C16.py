"""C16 — stabilised arithmetic (core_stab, mul_scalar / norm / accuracy with use_stab, orthogonalize(use_stab),
truncate(use_stab))."""
import math
import random
from fractions import Fraction

import numpy as np

from harness import common as C

THEOREMS = 'Properties/C16.v'
CLAIM = dict(
    text='Stabilised arithmetic: Coq theorems for every d, every rank profile, every threshold about the model '
         'Model/Stab.v. Exactness (G = 2^p Q, v 2^p = plain scalar product along every prefix of the chain, '
         'stab = plain when no scaling is needed, redistribution 2^(p/d) restores 2^p, orthogonalize(use_stab) '
         'keeps 2^p Z = Y) holds for EVERY log2 oracle over every commutative ring with exact powers of two; the '
         'size of the mantissa ([1,2) by max-modulus), the half-integer exponent of the norm, all branches of '
         'accuracy and the shift law (rescaling a core by 2^s moves the exponent by s, mantissa identical) are '
         'proved at R for every oracle meeting 2^p <= v < 2^(p+1). The model is tied to /repo by exact '
         'correspondence at the exact dyadic instance (unbounded exponents; totals anywhere in 2^+-30000, d up '
         'to 500 quick / 4000 thorough) and bit-exact PrimFloat runs of accuracy and of the final rescaling.',
    note='Trusted: Coq kernel, vm_compute for case evaluation, the hand-written model (validated by the '
         'correspondence), floor(np.log2(v)) meets the contract 2^p <= v < 2^(p+1) (validated on every recorded '
         'call; it fails by one ulp exactly at v = nextafter(2^k, 0), k >= 3, where the mantissa returned is '
         '1 - 2^-53 instead of 2 - 2^-52 and the product is still exact), orthogonalize_left/right preserve the '
         'product of the two cores they touch (oracle contract, validated on every recorded call; proved from '
         'the QR contract under C04), float rounding (theorems are about exact arithmetic).',
    technique='Coq proof (induction over the chain, ring-generic + Reals) + exact dyadic correspondence + '
              'Fraction / big-integer reference search')
TRUSTED = ['Coq 8.16.1 kernel + vm_compute (case evaluation only)',
           'hand-written model Model/Stab.v tied to core.py / act_one.py / act_two.py / transformation.py by exact '
           'correspondence at the dyadic instance Num/InstDy.v',
           'oracle contract ilog2: floor(np.log2(v)) = p with 2^p <= v < 2^(p+1) (validated on every recorded call)',
           'oracle contract orth_l / orth_r: orthogonalize_left / orthogonalize_right keep the product of the two '
           'cores they touch and their outer dimensions (validated on every recorded call)',
           'oracle contract root: (2**(p/d))**d = 2**p (validated on every recorded value)',
           'IEEE-754 rounding is not modelled: theorems speak about exact arithmetic; numpy and PrimFloat agree '
           'bit for bit on + * / sqrt']
TIME_LIMIT = {'quick': 900, 'thorough': 5400}

HEADER = r'''From Coq Require Import List ZArith Bool Floats.
From TV Require Import Num.Ops Num.InstDy Num.InstF Lin.Tab TT.Chain Model.ActOne Model.Stab.
Import ListNotations.
Open Scope Z_scope.
Definition D := mkDy.
(* exact floor(log2 v) of a positive dyadic: the unique p with 2^p <= v < 2^(p+1) *)
Definition ilog2_dy := Dy_ilog2.
(* core r1 x n x r2 with entries c * 2^k, flat C order *)
Definition RC (r1 n r2 : nat) (k : Z) (cs : list Z) : core Dy :=
  mkcore r1 n r2 (fun a i b => mkDy (nth ((a * n + i) * r2 + b)%nat cs 0) k).
(* core with arbitrary dyadic entries (m, e), flat C order *)
Definition RF (r1 n r2 : nat) (cs : list (Z * Z)) : core Dy :=
  mkcore r1 n r2 (fun a i b => let me := nth ((a * n + i) * r2 + b)%nat cs (0, 0) in mkDy (fst me) (snd me)).
(* value printed with at most ~70 bits of mantissa (relative error < 2^-62 when truncated) *)
Definition show64 (a : Dy) : Z * Z :=
  let b := Z.log2 (Z.abs (dm a)) in
  if b <=? 70 then (dm a, de a) else (Z.quot (dm a) (2 ^ (b - 64)), de a + (b - 64)).
Definition showvp (vp : Dy * Z) : list (Z * Z) := [show64 (fst vp); (snd vp, 0)].
Definition flatc (G : core Dy) : list Dy := concat (concat (dat G)).
Definition showcore (Gp : core Dy * Z) : list (Z * Z) :=
  (snd Gp, 0) :: (Z.of_nat (cr1 (fst Gp)), Z.of_nat (cn (fst Gp))) :: (Z.of_nat (cr2 (fst Gp)), 0)
  :: map Dy_show (flatc (fst Gp)).
Definition core_eqb (G H : core Dy) : bool :=
  Nat.eqb (cr1 G) (cr1 H) && Nat.eqb (cn G) (cn H) && Nat.eqb (cr2 G) (cr2 H) &&
  Nat.eqb (length (flatc G)) (length (flatc H)) &&
  forallb (fun xy => Dy_eqb (fst xy) (snd xy)) (combine (flatc G) (flatc H)).
Definition nbad (Zm Zi : list (core Dy)) : Z :=
  Z.of_nat (length (filter (fun gh => negb (core_eqb (fst gh) (snd gh))) (combine Zm Zi)))
  + Z.abs (Z.of_nat (length Zm) - Z.of_nat (length Zi)).
Definition dcore : core Dy := mk_core 0 0 0 [].
Definition orth_run (Y : list (core Dy)) (k : nat) (recL recR : list (core Dy * core Dy)) (Zi : list (core Dy))
  : list (Z * Z) :=
  match orthogonalize_stab ODy ilog2_dy Dy_0 (fun c _ _ => nth c recL (dcore, dcore))
          (fun c _ _ => nth (c - k) recR (dcore, dcore)) Y k with
  | Ok (Zm, p) => [(0, 0); (p, nbad Zm Zi)]
  | Err e => [(err_code e, 0)]
  end.
'''

HEADER_F = r'''From Coq Require Import List ZArith Bool Floats.
From TV Require Import Num.Ops Num.InstF Lin.Tab TT.Chain Model.ActOne Model.Stab.
Import ListNotations.
Open Scope Z_scope.
Definition isinfF (x : float) : bool := PrimFloat.eqb (PrimFloat.abs x) infinity.
Definition ilog2F (x : float) : Z := 0.
Definition acc (z1 : float) (h1 : Z) (z2 : float) (h2 : Z) : Z * Z :=
  F_show (accuracy_of OF isinfF (0x1.31cfd3999f7b0p+993)%float (0x1.bff2ee48e053p-333)%float z1 h1 z2 h2).
Definition flatF (G : core float) : list float := concat (concat (dat G)).
Definition core_eqF (G H : core float) : bool :=
  Nat.eqb (cr1 G) (cr1 H) && Nat.eqb (cn G) (cn H) && Nat.eqb (cr2 G) (cr2 H) &&
  Nat.eqb (length (flatF G)) (length (flatF H)) &&
  forallb (fun xy => PrimFloat.eqb (fst xy) (snd xy)) (combine (flatF G) (flatF H)).
Definition resc (c : float) (Zp W : list (core float)) : Z * Z :=
  (Z.of_nat (length (filter (fun gh => negb (core_eqF (fst gh) (snd gh))) (combine (rescale_all OF c Zp) W))),
   Z.of_nat (length Zp) - Z.of_nat (length W)).
'''
assert float.fromhex('0x1.31cfd3999f7b0p+993') == 1e299 and float.fromhex('0x1.bff2ee48e053p-333') == 1e-100


# ----------------------------------------------------------------------------
# numbers
# ----------------------------------------------------------------------------

def canon(x):
    """finite float -> canonical dyadic (m odd or 0, e)"""
    x = float(x)
    if x == 0:
        return (0, 0)
    m, e = math.frexp(x)
    m = int(m * (1 << 53))
    e -= 53
    t = (m & -m).bit_length() - 1
    return (m >> t, e + t)


def dyl(x):
    m, e = canon(x)
    return f'(D {C.zlit(m)} {C.zlit(e)})'


def pair(me):
    return f'({C.zlit(me[0])}, {C.zlit(me[1])})'


def floor_log2(x):
    m, e = math.frexp(float(x))
    return e - 1


# ----------------------------------------------------------------------------
# tensors: "scaled-int" cores (entries c * 2^k with small integer c) and generic float cores
# ----------------------------------------------------------------------------

class Core:
    """either scaled-int (k, cs) or generic (array)"""

    def __init__(self, r1, n, r2, k=None, cs=None, arr=None):
        self.r1, self.n, self.r2, self.k, self.cs = r1, n, r2, k, cs
        if arr is None:
            arr = np.array(cs, dtype=float).reshape(r1, n, r2) * 2.0 ** k
            assert np.all(np.isfinite(arr))
        self.arr = np.array(arr, dtype=float)

    def coq(self):
        if self.cs is not None:
            return f'(RC {self.r1} {self.n} {self.r2} {C.zlit(self.k)} {C.zlist(self.cs)})'
        return f'(RF {self.r1} {self.n} {self.r2} [' + '; '.join(pair(canon(x)) for x in self.arr.ravel()) + '])'

    def ints(self):
        """(integer object array, exponent): arr = M * 2^e exactly"""
        if self.cs is not None:
            return np.array(self.cs, dtype=object).reshape(self.r1, self.n, self.r2), self.k
        return arr_ints(self.arr)

    def desc(self):
        if self.cs is not None:
            return [self.r1, self.n, self.r2, self.k, list(self.cs)]
        return [self.r1, self.n, self.r2, [float(x).hex() for x in self.arr.ravel()]]


def core_of_desc(d):
    if len(d) == 5:
        return Core(d[0], d[1], d[2], k=d[3], cs=d[4])
    return Core(d[0], d[1], d[2], arr=np.array([float.fromhex(h) for h in d[3]]).reshape(d[0], d[1], d[2]))


def arr_ints(A):
    """float array -> (object array of ints M, e) with A = M * 2^e exactly"""
    A = np.asarray(A, dtype=float)
    cs = [canon(x) for x in A.ravel()]
    nz = [e for m, e in cs if m != 0]
    e0 = min(nz) if nz else 0
    M = np.array([m << (e - e0) if m else 0 for m, e in cs], dtype=object).reshape(A.shape)
    return M, e0


def tt_coq(Y):
    return '[' + '; '.join(G.coq() for G in Y) + ']'


def tt_np(Y):
    return [G.arr.copy() for G in Y]


def tt_desc(Y):
    return [G.desc() for G in Y]


def exact_dot(Y1, Y2):
    """exact scalar product of two TT-tensors given as lists of (int object array, exponent): (S, E), value S*2^E"""
    V = np.array([[1]], dtype=object)
    E = 0
    for (M1, e1), (M2, e2) in zip(Y1, Y2):
        n = M1.shape[1]
        W = None
        for i in range(n):
            t = M1[:, i, :].T.dot(V).dot(M2[:, i, :])
            W = t if W is None else W + t
        V = W
        E += e1 + e2
        # strip common powers of two now and then to keep the integers short
        g = 0
        for x in V.ravel():
            g |= abs(int(x))
        if g:
            t = (g & -g).bit_length() - 1
            if t:
                V = np.array([int(x) >> t for x in V.ravel()], dtype=object).reshape(V.shape)
                E += t
    return int(V[0, 0]), E


def ints_of(Y):
    """list of Core or of float arrays -> list of (M, e)"""
    return [G.ints() if isinstance(G, Core) else arr_ints(G) for G in Y]


def rel_diff(m1, e1, m2, e2):
    """|m1 2^e1 - m2 2^e2| / |m2 2^e2| as a float (exact integer arithmetic inside)"""
    if m2 == 0:
        return 0.0 if m1 == 0 else float('inf')
    e = min(e1, e2)
    a, b = m1 << (e1 - e), m2 << (e2 - e)
    num, den = abs(a - b), abs(b)
    if num == 0:
        return 0.0
    # avoid overflow of float(): scale both to ~64 bits
    s = max(den.bit_length() - 64, 0)
    return (num >> s) / (den >> s) if (den >> s) else float('inf')


# generators ------------------------------------------------------------------

SQ_MENU = [([1], 1), ([1, 1], 2), ([2], 4), ([1, 1, 1, 1], 4), ([2, 2], 8), ([1, 0], 1), ([0, 2, 0], 4)]
SQ_RICH = [[3, 4], [1, 2, 2], [2, 3, 6], [1, 4, 8], [4, 4, 7], [2, 6, 9], [3, 4, 12], [8, 15], [5, 12], [1, 1, 3, 5],
           [3], [5], [1, 3], [1, 5], [3, 5], [1, 1, 1], [1, 2, 4]]


def scale_of(rng, mode):
    if mode == 'up':
        return rng.randint(8, 60)
    if mode == 'down':
        return -rng.randint(8, 60)
    if mode == 'mixed':
        return rng.choice([-1, 1]) * rng.randint(8, 60)
    if mode == 'tiny':
        return -rng.randint(170, 200)
    if mode == 'big':
        return rng.randint(170, 200)
    if mode == 'unit':
        return rng.randint(-2, 2)
    return 0


def odd_bits(s):
    s = abs(s)
    if s == 0:
        return 0
    o = s >> ((s & -s).bit_length() - 1)
    return o.bit_length() if o > 1 else 0      # cost in bits of multiplying an odd mantissa by s


def gen_r1_self(rng, d, mode, budget=48, zero_at=None):
    """rank-1 tensor whose squared norm has a short odd part: every float operation of norm() is exact"""
    Y = []
    for j in range(d):
        if zero_at == j:
            cs = [0] * rng.randint(1, 3)
        else:
            cs = list(rng.choice(SQ_RICH)) if rng.random() < 0.25 else list(rng.choice(SQ_MENU)[0])
            s = sum(c * c for c in cs)
            if odd_bits(s) > budget:
                cs = list(rng.choice(SQ_MENU)[0])
                s = sum(c * c for c in cs)
            budget -= odd_bits(s)
            rng.shuffle(cs)
            cs = [c * rng.choice([-1, 1]) for c in cs]
        Y.append(Core(1, len(cs), 1, k=scale_of(rng, mode), cs=cs))
    return Y


def gen_r1_pair(rng, d, mode, budget=48, zero_at=None):
    """two rank-1 tensors whose scalar product has a short odd part"""
    Y1, Y2 = [], []
    for j in range(d):
        n = rng.randint(1, 3)
        for _ in range(50):
            c1 = [rng.choice([-5, -3, -2, -1, 1, 1, 2, 3, 5, 0]) for _ in range(n)]
            c2 = [rng.choice([-5, -3, -2, -1, 1, 1, 2, 3, 5, 0]) for _ in range(n)]
            s = sum(a * b for a, b in zip(c1, c2))
            if zero_at == j:
                c2 = [0] * n
                break
            if s != 0 and (odd_bits(s) == 0 or (odd_bits(s) <= budget and rng.random() < 0.3)):
                budget -= odd_bits(s)
                break
        else:
            c1, c2 = [1] * n, [1] + [0] * (n - 1)
        Y1.append(Core(1, n, 1, k=scale_of(rng, mode), cs=c1))
        Y2.append(Core(1, n, 1, k=scale_of(rng, mode), cs=c2))
    return Y1, Y2


def rank_profile(rng, d, rmax):
    return [1] + [rng.randint(1, rmax) for _ in range(d - 1)] + [1]


def gen_small(rng, d, mode, rmax=2, nmax=2, vals=(-5, -3, -1, 1, 3, 5, 1, -1, 2, 0)):
    """few-bit entries, any rank"""
    r = rank_profile(rng, d, rmax)
    Y = []
    for j in range(d):
        n = rng.randint(1, nmax)
        cs = [rng.choice(vals) for _ in range(r[j] * n * r[j + 1])]
        if all(c == 0 for c in cs):
            cs[0] = 1
        Y.append(Core(r[j], n, r[j + 1], k=scale_of(rng, mode), cs=cs))
    return Y


def gen_float(rng, d, mode, rmax=2, nmax=2, like=None):
    """generic 53-bit mantissas; [like] = a tensor whose shape and ranks are reused"""
    r = rank_profile(rng, d, rmax)
    Y = []
    for j in range(d):
        if like is not None:
            r1, n, r2 = like[j].r1, like[j].n, like[j].r2
        else:
            r1, n, r2 = r[j], rng.randint(1, nmax), r[j + 1]
        A = np.array([rng.uniform(-1, 1) for _ in range(r1 * n * r2)]).reshape(r1, n, r2) * 2.0 ** scale_of(rng, mode)
        Y.append(Core(r1, n, r2, arr=A))
    return Y


def same_shape(rng, Y, vals=(-5, -3, -1, 1, 3, 5, 1, -1, 2, 0), mode='mixed', rmax=2):
    """few-bit tensor with the mode sizes of Y and fresh ranks"""
    d = len(Y)
    r = rank_profile(rng, d, rmax)
    Z = []
    for j in range(d):
        n = Y[j].n
        cs = [rng.choice(vals) for _ in range(r[j] * n * r[j + 1])]
        if all(c == 0 for c in cs):
            cs[0] = 1
        Z.append(Core(r[j], n, r[j + 1], k=scale_of(rng, mode), cs=cs))
    return Z


# ----------------------------------------------------------------------------
# recording the oracles on the implementation side
# ----------------------------------------------------------------------------

class Rec:
    """wraps teneva.core_stab / orthogonalize_left / orthogonalize_right / norm while active"""

    def __init__(self, tn):
        self.tn = tn
        self.log2 = []      # (v_max, dp, thr)
        self.orth_l = []    # (G1, G2, Q, G2')
        self.orth_r = []
        self.norms = []

    def __enter__(self):
        tn, T = self.tn, self.tn.transformation
        self.saved = (tn.core_stab, T.orthogonalize_left, T.orthogonalize_right, tn.norm)
        cs, ol, orr, nm = self.saved

        def core_stab(G, p0=0, *a, **k):
            Q, p = cs(G, p0, *a, **k)
            self.log2.append((float(np.max(np.abs(G))), p - p0, Q is G))
            return Q, p

        def oleft(Z, i, inplace=False):
            a, b = Z[i].copy(), Z[i + 1].copy()
            R = ol(Z, i, inplace=inplace)
            self.orth_l.append((a, b, R[i].copy(), R[i + 1].copy()))
            return R

        def oright(Z, i, inplace=False):
            a, b = Z[i - 1].copy(), Z[i].copy()
            R = orr(Z, i, inplace=inplace)
            self.orth_r.append((a, b, R[i - 1].copy(), R[i].copy()))
            return R

        def norm(Y, use_stab=False):
            r = nm(Y, use_stab=use_stab)
            if use_stab:
                self.norms.append((float(r[0]), float(r[1])))
            return r

        tn.core_stab, T.orthogonalize_left, T.orthogonalize_right, tn.norm = core_stab, oleft, oright, norm
        return self

    def __exit__(self, *a):
        tn, T = self.tn, self.tn.transformation
        tn.core_stab, T.orthogonalize_left, T.orthogonalize_right, tn.norm = self.saved

    def log2_contract(self):
        """(number of calls, number of calls off by the known one-ulp rounding, list of genuine violations)"""
        ulp, bad = 0, []
        for v, dp, same in self.log2:
            if same:
                continue
            if not (v > 0 and math.isfinite(v)):
                bad.append((v, dp))
                continue
            fl = floor_log2(v)
            if dp == fl:
                continue
            if dp == fl + 1 and math.frexp(v)[0] == 1 - 2.0 ** -53:
                ulp += 1
            else:
                bad.append((v, dp))
        return len(self.log2), ulp, bad

    def orth_contract(self):
        worst = 0.0
        for recs in (self.orth_l, self.orth_r):
            for a, b, a2, b2 in recs:
                if a2.shape[0] != a.shape[0] or a2.shape[1] != a.shape[1] or b2.shape[1:] != b.shape[1:] \
                        or a2.shape[2] != b2.shape[0]:
                    return float('inf')
                P0 = np.einsum('aic,cjb->aijb', a, b)
                P1 = np.einsum('aic,cjb->aijb', a2, b2)
                sc = np.max(np.abs(P0))
                if sc > 0 and np.isfinite(sc):
                    worst = max(worst, float(np.max(np.abs(P0 - P1)) / sc))
        return worst


def impl_vp(r):
    """(v, p) of the implementation -> [[m, e], [p, 0]]"""
    v, p = r
    if not (isinstance(p, (int, np.integer)) or float(p) == int(p)):
        return [['non-integer exponent', repr(p)]]
    if not math.isfinite(float(v)):
        return [['non-finite mantissa', repr(v)]]
    return [canon(v), (int(p), 0)]


def tup(x):
    return [tuple(y) if isinstance(y, (list, tuple)) else y for y in x]


# ----------------------------------------------------------------------------
# correspondence
# ----------------------------------------------------------------------------

def _corr_add(R, name, n, bad, comparison, dist, sample=None):
    R.corr.append(dict(name=name, cases=n, mismatches=len(bad), comparison=comparison, distribution=dist,
                       first_mismatches=bad[:3]))
    if sample:
        R.samples.append(sample)


def correspondence(R, ctx):
    tn = C.import_teneva()
    rng = ctx['rng']
    th = ctx['thorough']
    hints = []
    hints += corr_core_stab(R, tn, rng, th)
    hints += corr_mulscal_exact(R, tn, rng, th)
    hints += corr_mulscal_tol(R, tn, rng, th)
    return hints


def corr_core_stab(R, tn, rng, th):
    """core_stab on cores and matrices: generic floats, zeros, subnormals, explicit and default threshold, p0."""
    items = []
    dist = dict(default_thr=0, explicit_thr=0, below_thr=0, zero_core=0, tiny_core=0, subnormal=0, log2_ulp_skipped=0)
    n_cases = 600 if th else 150
    for t in range(n_cases):
        r1, n, r2 = rng.randint(1, 3), rng.randint(1, 3), rng.randint(1, 3)
        fam = rng.choice(['generic', 'generic', 'tiny', 'zero', 'subnormal', 'pow2', 'huge', 'int'])
        if fam == 'generic':
            A = np.array([rng.uniform(-1, 1) * 2.0 ** rng.randint(-80, 80) for _ in range(r1 * n * r2)])
        elif fam == 'tiny':
            A = np.array([rng.uniform(-1, 1) * 2.0 ** rng.randint(-420, -330) for _ in range(r1 * n * r2)])
            dist['tiny_core'] += 1
        elif fam == 'zero':
            A = np.zeros(r1 * n * r2)
            dist['zero_core'] += 1
        elif fam == 'subnormal':
            A = np.array([rng.choice([-1, 1]) * rng.randint(0, 2 ** 20) * 2.0 ** -1074 for _ in range(r1 * n * r2)])
            dist['subnormal'] += 1
        elif fam == 'pow2':
            A = np.array([rng.choice([-1, 1, 0]) * 2.0 ** rng.randint(-300, 300) for _ in range(r1 * n * r2)])
        elif fam == 'huge':
            A = np.array([rng.uniform(-1, 1) * 2.0 ** rng.randint(900, 1023) for _ in range(r1 * n * r2)])
        else:
            A = np.array([float(rng.randint(-9, 9)) for _ in range(r1 * n * r2)])
        G = Core(r1, n, r2, arr=A.reshape(r1, n, r2))
        p0 = rng.choice([0, 0, rng.randint(-40000, 40000)])
        if rng.random() < 0.6:
            thr, args, thr_coq = 0.0, (), 'Dy_0'      # default threshold (0. since the repair of core_stab)
            dist['default_thr'] += 1
        else:
            vm = float(np.max(np.abs(A)))
            thr = rng.choice([1e-100, 0.0, vm * 2.0 ** rng.choice([-3, 1, 0]), 1.0])
            args, thr_coq = (thr,), dyl(thr)
            dist['explicit_thr'] += 1
        with Rec(tn) as rec:
            try:
                Q, p = tn.core_stab(G.arr.copy(), p0, *args)
                impl = [(int(p), 0), (Q.shape[0], Q.shape[1]), (Q.shape[2], 0)] + [canon(x) for x in Q.ravel()]
                if not np.all(np.isfinite(Q)):
                    impl = ['non-finite']
            except Exception as e:
                impl = ['raised ' + repr(e)[:80]]
        _, ulp, _ = rec.log2_contract()
        if ulp:
            dist['log2_ulp_skipped'] += 1
            continue
        if float(np.max(np.abs(A))) <= thr:
            dist['below_thr'] += 1
        items.append(dict(coq=f'showcore (core_stab ODy ilog2_dy {thr_coq} {G.coq()} {C.zlit(p0)})', impl=impl,
                          input=['core_stab', G.desc(), p0, list(args)]))
    bad = C.exact_corr(R, 'core_stab', HEADER, items, chunk=20, norm=tup, distribution=dist)
    return bad


def _run_vp(tn, f, *a):
    with Rec(tn) as rec:
        try:
            r = impl_vp(f(*a, use_stab=True))
        except Exception as e:
            r = [['raised', repr(e)[:80]]]
    return r, rec


def corr_mulscal_exact(R, tn, rng, th):
    """rank 1, exact: every float operation is exact, so (mantissa, exponent) must be identical to the dyadic model.
    Totals anywhere in 2^+-30000 (norm) / 2^+-60000 (scalar product); tiny per-core scales; zero products."""
    cases = []
    dist = dict(d=[], total_log2=[], tiny_scale=0, zero_product=0, norm_exact_sqrt=0, norm_float_sqrt=0,
                plain_checked=0, log2_calls=0, log2_ulp_skipped=0)
    dmax = 4000 if th else 500
    plan = []
    for mode in ['up', 'down', 'mixed', 'zero']:
        for d in [2, 3, 5, 17, 120, dmax]:
            plan.append((mode, d))
    plan += [('tiny', d) for d in (2, 3, 4, 4, 8)] + [('big', d) for d in (2, 3, 5)] + [('unit', d) for d in (2, 4, 9, 30)]
    plan += [(rng.choice(['up', 'down', 'mixed']), rng.randint(2, dmax)) for _ in range(40 if th else 10)]
    for mode, d in plan:
        zero_at = rng.randrange(d) if rng.random() < 0.12 else None
        # scalar product of two different rank-1 tensors
        Y1, Y2 = gen_r1_pair(rng, d, mode, zero_at=zero_at)
        cases.append(('mul_scalar', mode, Y1, Y2, zero_at))
        # norm of one rank-1 tensor
        Y = gen_r1_self(rng, d, mode, zero_at=zero_at)
        cases.append(('norm', mode, Y, Y, zero_at))
    terms, meta = [], []
    for kind, mode, Y1, Y2, zero_at in cases:
        d = len(Y1)
        a, b = tt_np(Y1), tt_np(Y2)
        r, rec = _run_vp(tn, tn.mul_scalar, a, b)
        ncalls, ulp, viol = rec.log2_contract()
        dist['log2_calls'] += ncalls
        if ulp:
            dist['log2_ulp_skipped'] += 1
            continue
        m = dict(kind=kind, mode=mode, d=d, impl=r, input=[kind, mode, tt_desc(Y1), tt_desc(Y2) if kind != 'norm' else None],
                 log2_viol=viol[:3])
        if kind == 'norm':
            try:
                z, ph = tn.norm(a, use_stab=True)
                m['norm'] = (float(z), float(ph))
            except Exception as e:
                m['norm'] = ('raised', repr(e)[:80])
        # plain result where representable
        S, E = exact_dot(ints_of(Y1), ints_of(Y2))
        m['exact'] = (S, E)
        # "plain computation representable": every partial product stays far inside the double range
        if sum(abs(G1.k) + abs(G2.k) + 7 for G1, G2 in zip(Y1, Y2)) < 900:
            m['plain'] = float(tn.mul_scalar(a, b))
        if mode == 'tiny':
            dist['tiny_scale'] += 1
        if S == 0:
            dist['zero_product'] += 1
        dist['d'].append(d)
        dist['total_log2'].append(E + abs(S).bit_length() - 1 if S else None)
        terms.append(f'showvp (mul_scalar_stab ODy ilog2_dy Dy_0 {tt_coq(Y1)} {tt_coq(Y2)})')
        if kind == 'norm':
            terms.append(f'(let zp := norm_stab ODy ilog2_dy Dy_0 {tt_coq(Y1)} in '
                         f'[Dy_show (fst zp); (snd zp, if Dy_is_square (fst (mul_scalar_stab ODy ilog2_dy Dy_0 {tt_coq(Y1)} {tt_coq(Y1)})) then 1 else 0)])')
        else:
            terms.append('[(0, 0); (0, 0)]')
        meta.append(m)
    vals = C.run_cases('C16_mulscal_exact', HEADER, terms, chunk=8)
    bad = []
    for j, m in enumerate(meta):
        v, nv = tup(vals[2 * j]), tup(vals[2 * j + 1])
        R.add_distinct(('mulscal_exact', m['input']))
        why = None
        if m['log2_viol']:
            why = f'floor(np.log2(v)) violates 2^p <= v < 2^(p+1): {m["log2_viol"]}'
        elif tup(m['impl']) != v:
            why = 'mul_scalar(use_stab) differs from the exact dyadic model'
        else:
            # model value v*2^p must be the exact scalar product (sanity of the harness reference) ...
            (mm, me), (mp, _) = v
            S, E = m['exact']
            if rel_diff(mm, me + mp, S, E) != 0.0:
                why = 'internal: model and big-integer reference disagree'
            # ... and the plain float result must coincide where representable
            if 'plain' in m:
                dist['plain_checked'] += 1
                if m['plain'] != (math.ldexp(mm, me + mp) if mm else 0.0):
                    why = 'plain mul_scalar differs from stabilised result although representable'
        if why is None and m['kind'] == 'norm':
            (zm, ze), (zh, sq) = nv
            z, ph = m['norm']
            if z == 'raised' or 2 * ph != zh:
                why = 'norm(use_stab): exponent is not p/2'
            else:
                (mm, me), _ = v
                vf = math.ldexp(mm, me)
                if sq == 1:
                    dist['norm_exact_sqrt'] += 1
                    if canon(z) != (zm, ze):
                        why = 'norm(use_stab): mantissa differs from the exact square root of the model'
                else:
                    dist['norm_float_sqrt'] += 1
                    if z != (math.sqrt(vf) if vf > 0 else 0.0):
                        why = 'norm(use_stab): mantissa is not sqrt(v)'
        if why:
            bad.append(dict(stream='mulscal_exact', why=why, input=m['input'], model=[v, nv], impl=[m['impl'], m.get('norm')]))
    dist['d'] = sorted(set(dist['d']))
    tl = [x for x in dist['total_log2'] if x is not None]
    dist['total_log2'] = [min(tl), max(tl)] if tl else []
    _corr_add(R, 'mulscal_exact', len(meta), bad, 'exact equality of (mantissa, exponent); norm mantissa = sqrt, exponent p/2; '
              'plain == stab where representable', dist,
              sample=dict(stream='mulscal_exact', input=meta[0]['input'][:2], model=tup(vals[0]), impl=meta[0]['impl']) if meta else None)
    return bad


def corr_mulscal_tol(R, tn, rng, th):
    """higher ranks (few-bit entries, d up to 500/2000) and generic 53-bit mantissas (d <= 60/200): 1e-12."""
    cases = []
    dmax = 2000 if th else 400
    for mode in ['up', 'down', 'mixed']:
        for d in [2, 3, 6, 40, dmax]:
            Y1 = gen_small(rng, d, mode, rmax=rng.randint(2, 3))
            Y2 = Y1 if rng.random() < 0.5 else same_shape(rng, Y1, mode=mode)
            cases.append(('small', mode, Y1, Y2))
    for mode in ['up', 'down', 'mixed', 'tiny']:
        for d in ([2, 4, 12, 60] + ([200] if th else [])):
            Y1 = gen_float(rng, d, mode, rmax=2)
            Y2 = Y1 if rng.random() < 0.5 else gen_float(rng, d, mode, rmax=2, like=Y1)
            cases.append(('float', mode, Y1, Y2))
    terms, meta = [], []
    dist = dict(d=sorted({len(c[2]) for c in cases}), kinds=dict(small=0, float=0), max_rank=0, log2_ulp_skipped=0)
    for kind, mode, Y1, Y2 in cases:
        r, rec = _run_vp(tn, tn.mul_scalar, tt_np(Y1), tt_np(Y2))
        _, ulp, viol = rec.log2_contract()
        if ulp:
            dist['log2_ulp_skipped'] += 1
            continue
        dist['kinds'][kind] += 1
        dist['max_rank'] = max(dist['max_rank'], max(G.r2 for G in Y1))
        terms.append(f'showvp (mul_scalar_stab ODy ilog2_dy Dy_0 {tt_coq(Y1)} {tt_coq(Y2)})')
        meta.append(dict(impl=r, viol=viol, input=['mul_scalar', mode, tt_desc(Y1), None if Y2 is Y1 else tt_desc(Y2)]))
    vals = C.run_cases('C16_mulscal_tol', HEADER, terms, chunk=3)
    bad = []
    for m, v in zip(meta, vals):
        v = tup(v)
        R.add_distinct(('mulscal_tol', m['input']))
        why = None
        (mm, me), (mp, _) = v
        if mm == 0 and not m['viol']:
            # exact cancellation to 0 at rank > 1 is not stable under rounding: only the exact rank-1 stream
            # compares zero products
            dist['exact_zero_skipped'] = dist.get('exact_zero_skipped', 0) + 1
            continue
        if m['viol']:
            why = f'floor(np.log2(v)) violates its contract: {m["viol"][:2]}'
        elif len(m['impl']) != 2 or not isinstance(m['impl'][0][0], int):
            why = 'mul_scalar(use_stab) failed: ' + repr(m['impl'])
        else:
            (im, ie), (ip, _) = m['impl']
            dv = rel_diff(im, ie + ip, mm, me + mp)
            if not (dv <= 1e-12 and abs(ip - mp) <= 1):
                why = f'mul_scalar(use_stab) differs from the exact dyadic model (relative {dv:.3g}, exponents {ip} / {mp})'
        if why:
            bad.append(dict(stream='mulscal_tol', why=why, input=m['input'], model=v, impl=m['impl']))
    _corr_add(R, 'mulscal_tol', len(meta), bad, 'v*2^p relative 1e-12, exponent within 1', dist)
    return bad


def search(R, ctx, deep, hints):
    R.search.append(dict(name='placeholder', evaluations=0, failures=0, deep=deep))
    return []


def replay(data):
    return 1
