"""C16 — stabilised arithmetic (core_stab, mul_scalar / norm / accuracy with use_stab, orthogonalize(use_stab),
truncate(use_stab))."""
import math
import random
from fractions import Fraction

import numpy as np

from harness import common as C

THEOREMS = 'Properties/C16.v'
CLAIM = dict(
    text='Stabilised arithmetic. Coq theorems about the model Model/Stab.v (core_stab, mul_scalar / norm with use_stab, '
         'accuracy, orthogonalize(use_stab), the final rescaling of truncate(use_stab)), for every d, every rank profile, '
         'every threshold. '
         '(A) For EVERY log2 oracle over every commutative ring with exact powers of two: core_stab returns G * 2^p0 = '
         'Q * 2^p entrywise (C16_core_stab_exact); mul_scalar(use_stab) returns (v, p) with 2^p v = the plain scalar product '
         'of C01, and the invariant holds after every prefix of the chain (C16_mul_scalar_stab, C16_mul_scalar_stab_invariant); '
         'stabilised = plain when no scaling happens and whenever the returned exponent is 0 (C16_stab_eq_plain, '
         'C16_stab_eq_plain_p0); orthogonalize(Y, k, use_stab) returns (Z, p) with 2^p Z = Y entrywise for every oracle pair '
         'that keeps the product of the two cores it touches, succeeds for k <= d-1 and raises ValueError otherwise '
         '(C16_orth_stab, C16_orth_stab_total); truncate(use_stab) returns 2^p * sweep(Z), so its entrywise error is 2^p times '
         'the error of the rounding sweep on the stabilised tensor, given root^d = 2^p (C16_truncate_stab, C16_rescale_all, '
         'C16_root_real). '
         '(B) At R, for every oracle with lo * 2^p <= v < 2^(p+1) (lo = 1: exact floor(log2)): the core_stab / mul_scalar mantissa '
         'is below the threshold (= 0 for the default threshold 0) or has modulus in [lo, 2), p = p0 + ilog2(max|G|) '
         '(C16_core_stab_spec, C16_mul_scalar_stab_mantissa); norm(use_stab) = (z, h/2) with z >= 0, z 2^(h/2) = ||Y||, z^2 2^h = <Y,Y>, '
         'z = 0 or lo <= z^2 < 2 (C16_norm_stab, C16_norm_stab_mantissa); accuracy: every branch of the current code (commit '
         '0f9009d): zero difference against a non-negligible reference gives 0 = the relative distance, otherwise 1e299 / 0 '
         'beyond exponent difference +-500, -1 for |z2| < 1e-100, and ||Y1 - Y2|| / ||Y2|| in between (C16_accuracy_stab, '
         'C16_accuracy_zero_difference); the shift law: scaling one core by 2^s moves the exponent by s (norm: by s) and leaves '
         'the mantissa identical, for the exact contract, threshold 0 and a non-vanishing product (C16_stab_shift, '
         'C16_stab_shift_norm). '
         'PARTIAL: C16_accuracy_saturation_sound (the saturation branches are taken only when the true relative distance is '
         'beyond 2^+-500) is proved for mantissas with z > 0, 1 <= z^2 < 2, which C16_norm_stab_mantissa delivers for a '
         'tensor meeting its structural hypotheses; that Y1 - Y2 (Model/ActOne.sub) meets them is not proved. "Within the '
         'requested accuracy" of truncate(use_stab) is reduced by C16_truncate_stab to the accuracy of the sweep (property C02), '
         'not re-proved here. All theorems are about exact arithmetic. '
         'VALIDATED NUMERICALLY ONLY (every run, on /repo): exact equality of model and implementation at the exact dyadic '
         'instance (unbounded exponents) for core_stab, mul_scalar(use_stab) and norm(use_stab) on rank-1 tensors with totals '
         'anywhere in 2^+-30000 and beyond (d up to 500 quick / 4000 thorough), 1e-10 agreement for ranks up to 3 and generic '
         '53-bit mantissas; orthogonalize(use_stab) and the orthogonalisation step of truncate(use_stab) replayed exactly on the '
         'dyadic model with the recorded QR / RQ calls as argument-checking oracles; bit-exact PrimFloat runs of accuracy '
         '(recorded norms of real tensor pairs steered over every branch and both +-500 boundaries, and prescribed norm results '
         'including inf / NaN / |z2| around 1e-100) and of the final rescaling of truncate(use_stab); a big-integer reference '
         'search of every clause on the implementation (mantissa ranges, value, accuracy vs the exact relative distance, '
         'stab = plain, shift law, exact distance of orthogonalize / truncate results).',
    note='Trusted: Coq kernel, vm_compute for case evaluation, the hand-written model (validated by the correspondence), '
         'floor(np.log2(v)) meets the contract lo * 2^p <= v < 2^(p+1) with lo = 1 - 2^-40 (validated on every recorded call: '
         'np.log2 is correctly rounded, so for v within about |k| * 2^-53 below 2^k it returns k and the mantissa comes out in '
         '[1 - 2^-40, 1); such calls are recognised and the case is skipped, the product mantissa * 2^p stays exact), '
         'orthogonalize_left/right preserve the product of the two cores they touch (oracle contract, validated on every '
         'recorded call; proved from the QR contract under C04), (2**(p/d))**d = 2**p (validated on every recorded value), '
         'float rounding / underflow (theorems are about exact arithmetic). KNOWN FINDING (known_findings.json, key '
         'C16/stab-mantissa-underflow-across-blocks): the float implementation keeps one exponent for the whole partial-product '
         'vector, so a rank component more than 2^1074 below the largest one on some bond underflows and is lost (d = 21 '
         'regression input in the search); generators keep the other families clear of it. FIXED during this round: 0f9009d '
         '(accuracy(Y, Y) = 1e299 for a tiny last core), found by the C16 search, model and theorems updated, reverting it is '
         'detected. Relative distances below about 1e-8 are not resolved by accuracy (cancellation in <Y1-Y2, Y1-Y2>): the '
         'search allows the absolute error 1e-12 * (|Y1|^2 + 2|<Y1,Y2>| + |Y2|^2) / |Y2|^2 on the squared result. '
         'CROSS-CUTTING FAMILIES (search, and core_stab / norm correspondence): argument forms (F-ordered, non-contiguous, int64 and '
         'float32 cores, tuple of cores, p0 / thr / k / e / r as Python and NumPy scalars and 0-d arrays, use_stab as True / 1 / '
         'np.bool_ and False / 0 / np.bool_), call histories (every routine three times on the same argument objects, interleaved; '
         'results identical to a fresh call, arguments bit-identical afterwards), scales (whole input times 2^+-1000 spread over the '
         'cores, one core times 2^+-480, d = 1, subnormal maxima and the edges 2^-1022 / 2^-1074 in core_stab, thresholds hit exactly, '
         'few-bit entries around 2^-531 whose pairwise products are subnormal; exact-threshold family of accuracy: tensor pairs '
         'whose exact exponent gap floor(log2|Y1-Y2|^2) - floor(log2|Y2|^2) is 998..1003, i.e. exactly at and one half-step around '
         'the documented +-500, where the search demands the saturation value iff the gap exceeds 1000 and the true distance '
         'otherwise - sharp whenever neither squared norm is within 2^-30 of a power of two); truncate over all four combinations '
         'use_stab x is_eigh on graded tensors (singular values 1, c1 just above e, c2 just below the per-step threshold), on flat '
         'clusters (k equal singular values just below the per-step threshold whose joint weight exceeds it) and on sums T + T whose '
         'sweep unfoldings are square and genuinely reduced, at per-core '
         'scales 2^0 / 2^+-300 / 2^+-400: error <= e by exact distance, ranks equal to the unstabilised call at scale 1 (the sweep '
         'itself is the object of C02 and is not modelled here; the truncate_stab stream adds these tensors and the rank comparison). '
         'KEPT OUT (not covered by the property text, which '
         'starts at d = 2 and speaks of float tensors): accuracy for d = 1 (act_two.sub of one-core tensors is not a TT-tensor and '
         'accuracy raises ValueError); int64 cores with entries above 2^5 (numpy integer products wrap around silently beyond 2^31, '
         'also in the plain mul_scalar). KNOWN FINDING (key C16/entries-beyond-sqrt-range), generators of the other families stay clear of it: cores whose '
         'entries are below 2^-511 or above 2^+511, or two cores multiplied before any rescaling whose entries multiply outside the '
         'normal double range (their squares / products leave the range before the first stabilisation): generic mantissas around '
         '1e-160 give norm / mul_scalar(use_stab) with relative error 1e-4, orthogonalize(use_stab) feeds the raw first core to '
         'LAPACK QR and returns 2^p Z off by 6.6e-5 (entries 2^-531) up to 0.29 (entries 2^-537), entries 2^+600 give NaN and a '
         'ValueError from core_stab; seven fixed regression inputs are in the search, and a failure is tagged with the key only on '
         'inputs of exactly this family (sqrt_range_family). For orthogonalize this family contains the one of '
         'C04/stab-adjacent-scale-overflow (adjacent cores whose scales multiply beyond the double range: its inputs, 2^512 and '
         '2^-540 per core, are inside |log2 entry| > 511): the same root cause - the rescaling comes after the product - seen from '
         'C04; the C16 family is wider (QR of a tiny first core, norm / mul_scalar / accuracy / truncate). Two known-finding keys '
         'may be printed for C16: this one and C16/stab-mantissa-underflow-across-blocks (the accuracy(Y, Y) defect was repaired, '
         '0f9009d, and is in the verdict); C04 prints its own.',
    technique='Coq proof (induction over the chain, ring-generic + Reals) + exact dyadic correspondence + bit-exact PrimFloat '
              'correspondence + Fraction / big-integer reference search')
TRUSTED = ['Coq 8.16.1 kernel + vm_compute (case evaluation only)',
           'hand-written model Model/Stab.v tied to core.py / act_one.py / act_two.py / transformation.py by exact '
           'correspondence at the dyadic instance Num/InstDy.v and bit-exact correspondence at the PrimFloat instance Num/InstF.v',
           'oracle contract ilog2: floor(np.log2(v)) = p with lo * 2^p <= v < 2^(p+1), lo = 1 - 2^-40 (validated on every '
           'recorded call; calls with v within 2^-40 below a power of two are skipped)',
           'oracle contract orth_l / orth_r: orthogonalize_left / orthogonalize_right keep the product of the two '
           'cores they touch and their outer dimensions (validated on every recorded call)',
           'oracle contract root: (2**(p/d))**d = 2**p (validated on every recorded value)',
           '2.**(k + 0.5) = ldexp(sqrt(2), k) in the C library (the model writes the half-integer power this way; every '
           'accuracy case compares the result bit for bit)',
           'IEEE-754 rounding and underflow are not modelled: theorems speak about exact arithmetic; numpy and PrimFloat agree '
           'bit for bit on + * / sqrt']
TIME_LIMIT = {'quick': 900, 'thorough': 5400}

HEADER = r'''From Coq Require Import List ZArith Bool Floats.
From TV Require Import Num.Ops Num.InstDy Num.InstF Lin.Tab TT.Chain Model.ActOne Model.Stab.
Import ListNotations.
Open Scope Z_scope.
Definition D := mkDy.
(* exact floor(log2 v) of a positive dyadic: the unique p with 2^p <= v < 2^(p+1) *)
Definition ilog2_dy := Dy_ilog2.
(* core r1 x n x r2 with entries c * 2^k, flat C order *)
Definition RC (r1 n r2 : nat) (k : Z) (cs : list Z) : core Dy :=
  mkcore r1 n r2 (fun a i b => mkDy (nth ((a * n + i) * r2 + b)%nat cs 0) k).
(* core with arbitrary dyadic entries (m, e), flat C order *)
Definition RF (r1 n r2 : nat) (cs : list (Z * Z)) : core Dy :=
  mkcore r1 n r2 (fun a i b => let me := nth ((a * n + i) * r2 + b)%nat cs (0, 0) in mkDy (fst me) (snd me)).
(* value printed with at most ~70 bits of mantissa (relative error < 2^-62 when truncated) *)
Definition show64 (a : Dy) : Z * Z :=
  let b := Z.log2 (Z.abs (dm a)) in
  if b <=? 70 then (dm a, de a) else (Z.quot (dm a) (2 ^ (b - 64)), de a + (b - 64)).
Definition showvp (vp : Dy * Z) : list (Z * Z) := [show64 (fst vp); (snd vp, 0)].
Definition flatc (G : core Dy) : list Dy := concat (concat (dat G)).
Definition showcore (Gp : core Dy * Z) : list (Z * Z) :=
  (snd Gp, 0) :: (Z.of_nat (cr1 (fst Gp)), Z.of_nat (cn (fst Gp))) :: (Z.of_nat (cr2 (fst Gp)), 0)
  :: map Dy_show (flatc (fst Gp)).
Definition core_eqb (G H : core Dy) : bool :=
  Nat.eqb (cr1 G) (cr1 H) && Nat.eqb (cn G) (cn H) && Nat.eqb (cr2 G) (cr2 H) &&
  Nat.eqb (length (flatc G)) (length (flatc H)) &&
  forallb (fun xy => Dy_eqb (fst xy) (snd xy)) (combine (flatc G) (flatc H)).
Definition nbad (Zm Zi : list (core Dy)) : Z :=
  Z.of_nat (length (filter (fun gh => negb (core_eqb (fst gh) (snd gh))) (combine Zm Zi)))
  + Z.abs (Z.of_nat (length Zm) - Z.of_nat (length Zi)).
Definition dcore : core Dy := mk_core 0 0 0 [].
Definition orth_run (Y : list (core Dy)) (k : nat) (recL recR : list (core Dy * core Dy)) (Zi : list (core Dy))
  : list (Z * Z) :=
  match orthogonalize_stab ODy ilog2_dy Dy_0 (fun c _ _ => nth c recL (dcore, dcore))
          (fun c _ _ => nth (c - k) recR (dcore, dcore)) Y k with
  | Ok (Zm, p) => [(0, 0); (p, nbad Zm Zi)]
  | Err e => [(err_code e, 0)]
  end.
(* replayed oracle that also CHECKS its arguments: the c-th recorded call is ((G1, G2), (H1, H2)); the recorded
   outputs are returned only if the model hands the oracle exactly the cores the implementation handed to
   orthogonalize_left / orthogonalize_right (otherwise an empty core, which shows up as a mismatch) *)
Definition orec := ((core Dy * core Dy) * (core Dy * core Dy))%type.
Definition orth_chk (rec : list orec) (off c : nat) (G1 G2 : core Dy) : core Dy * core Dy :=
  let r := nth (c - off) rec ((dcore, dcore), (dcore, dcore)) in
  if core_eqb G1 (fst (fst r)) && core_eqb G2 (snd (fst r)) then snd r else (dcore, dcore).
Definition orth_run2 (Y : list (core Dy)) (k : nat) (recL recR : list orec) (Zi : list (core Dy)) : list (Z * Z) :=
  match orthogonalize_stab ODy ilog2_dy Dy_0 (orth_chk recL 0) (orth_chk recR k) Y k with
  | Ok (Zm, p) => [(0, 0); (p, nbad Zm Zi)]
  | Err e => [(err_code e, 0)]
  end.
'''

HEADER_F = r'''From Coq Require Import List ZArith Bool Floats.
From TV Require Import Num.Ops Num.InstF Lin.Tab TT.Chain Model.ActOne Model.Stab.
Import ListNotations.
Open Scope Z_scope.
Definition isinfF (x : float) : bool := PrimFloat.eqb (PrimFloat.abs x) infinity.
Definition ilog2F (x : float) : Z := 0.
Definition acc (z1 : float) (h1 : Z) (z2 : float) (h2 : Z) : Z * Z :=
  F_show (accuracy_of OF isinfF (0x1.31cfd3999f7b0p+993)%float (0x1.bff2ee48e053p-333)%float z1 h1 z2 h2).
Definition flatF (G : core float) : list float := concat (concat (dat G)).
Definition core_eqF (G H : core float) : bool :=
  Nat.eqb (cr1 G) (cr1 H) && Nat.eqb (cn G) (cn H) && Nat.eqb (cr2 G) (cr2 H) &&
  Nat.eqb (length (flatF G)) (length (flatF H)) &&
  forallb (fun xy => PrimFloat.eqb (fst xy) (snd xy)) (combine (flatF G) (flatF H)).
Definition resc (c : float) (Zp W : list (core float)) : Z * Z :=
  (Z.of_nat (length (filter (fun gh => negb (core_eqF (fst gh) (snd gh))) (combine (rescale_all OF c Zp) W))),
   Z.of_nat (length Zp) - Z.of_nat (length W)).
(* float core from its flat C-order list of entries *)
Definition FC (r1 n r2 : nat) (cs : list float) : core float :=
  mkcore r1 n r2 (fun a i b => nth ((a * n + i) * r2 + b)%nat cs 0%float).
Definition accl (z1 : float) (h1 : Z) (z2 : float) (h2 : Z) : list (Z * Z) := [acc z1 h1 z2 h2].
Definition rescl (c : float) (Zp W : list (core float)) : list (Z * Z) := [resc c Zp W].
'''
assert float.fromhex('0x1.31cfd3999f7b0p+993') == 1e299 and float.fromhex('0x1.bff2ee48e053p-333') == 1e-100


# ----------------------------------------------------------------------------
# numbers
# ----------------------------------------------------------------------------

def canon(x):
    """finite float -> canonical dyadic (m odd or 0, e)"""
    x = float(x)
    if x == 0:
        return (0, 0)
    m, e = math.frexp(x)
    m = int(m * (1 << 53))
    e -= 53
    t = (m & -m).bit_length() - 1
    return (m >> t, e + t)


def dyl(x):
    m, e = canon(x)
    return f'(D {C.zlit(m)} {C.zlit(e)})'


def pair(me):
    return f'({C.zlit(me[0])}, {C.zlit(me[1])})'


# np.log2 is correctly rounded, so for v just below a power of two, v >= 2^k * (1 - |k| * 2^-53) roughly, log2(v) rounds
# to k and floor(log2(v)) = k = exact + 1: the mantissa returned is then in [1 - 2^-40, 1) instead of [1, 2) (the product
# mantissa * 2^p is still exact).  Such calls are recognised (mantissa of v above NEAR_POW2) and the case is skipped.
NEAR_POW2 = 1 - 2.0 ** -40


def floor_log2(x):
    m, e = math.frexp(float(x))
    return e - 1


# ----------------------------------------------------------------------------
# tensors: "scaled-int" cores (entries c * 2^k with small integer c) and generic float cores
# ----------------------------------------------------------------------------

class Core:
    """either scaled-int (k, cs) or generic (array)"""

    def __init__(self, r1, n, r2, k=None, cs=None, arr=None):
        self.r1, self.n, self.r2, self.k, self.cs = r1, n, r2, k, cs
        if arr is None:
            arr = np.array(cs, dtype=float).reshape(r1, n, r2) * 2.0 ** k
            assert np.all(np.isfinite(arr))
        self.arr = np.array(arr, dtype=float)

    def coq(self):
        if self.cs is not None:
            return f'(RC {self.r1} {self.n} {self.r2} {C.zlit(self.k)} {C.zlist(self.cs)})'
        return f'(RF {self.r1} {self.n} {self.r2} [' + '; '.join(pair(canon(x)) for x in self.arr.ravel()) + '])'

    def ints(self):
        """(integer object array, exponent): arr = M * 2^e exactly"""
        if self.cs is not None:
            return np.array(self.cs, dtype=object).reshape(self.r1, self.n, self.r2), self.k
        return arr_ints(self.arr)

    def desc(self):
        if self.cs is not None:
            return [self.r1, self.n, self.r2, self.k, list(self.cs)]
        return [self.r1, self.n, self.r2, [float(x).hex() for x in self.arr.ravel()]]


def core_of_desc(d):
    if len(d) == 5:
        return Core(d[0], d[1], d[2], k=d[3], cs=d[4])
    return Core(d[0], d[1], d[2], arr=np.array([float.fromhex(h) for h in d[3]]).reshape(d[0], d[1], d[2]))


def arr_ints(A):
    """float array -> (object array of ints M, e) with A = M * 2^e exactly"""
    A = np.asarray(A, dtype=float)
    cs = [canon(x) for x in A.ravel()]
    nz = [e for m, e in cs if m != 0]
    e0 = min(nz) if nz else 0
    M = np.array([m << (e - e0) if m else 0 for m, e in cs], dtype=object).reshape(A.shape)
    return M, e0


def tt_coq(Y):
    return '[' + '; '.join(G.coq() for G in Y) + ']'


def tt_np(Y):
    return [G.arr.copy() for G in Y]


def tt_desc(Y):
    return [G.desc() for G in Y]


def exact_dot(Y1, Y2, track=None):
    """exact scalar product of two TT-tensors given as lists of (int object array, exponent): (S, E), value S*2^E.
    [track]: list that receives floor(log2(max |entry|)) of every partial product (None where it vanishes)"""
    V = np.array([[1]], dtype=object)
    E = 0
    for (M1, e1), (M2, e2) in zip(Y1, Y2):
        n = M1.shape[1]
        W = None
        for i in range(n):
            t = M1[:, i, :].T.dot(V).dot(M2[:, i, :])
            W = t if W is None else W + t
        V = W
        E += e1 + e2
        # strip common powers of two now and then to keep the integers short
        g = 0
        for x in V.ravel():
            g |= abs(int(x))
        if track is not None:
            track.append(E + g.bit_length() - 1 if g else None)
        if g:
            t = (g & -g).bit_length() - 1
            if t:
                V = np.array([int(x) >> t for x in V.ravel()], dtype=object).reshape(V.shape)
                E += t
    return int(V[0, 0]), E


def ints_of(Y):
    """list of Core or of float arrays -> list of (M, e)"""
    return [G.ints() if isinstance(G, Core) else arr_ints(G) for G in Y]


def rel_diff(m1, e1, m2, e2):
    """|m1 2^e1 - m2 2^e2| / |m2 2^e2| as a float (exact integer arithmetic inside)"""
    if m2 == 0:
        return 0.0 if m1 == 0 else float('inf')
    e = min(e1, e2)
    a, b = m1 << (e1 - e), m2 << (e2 - e)
    num, den = abs(a - b), abs(b)
    if num == 0:
        return 0.0
    # avoid overflow of float(): scale both to ~64 bits
    s = max(den.bit_length() - 64, 0)
    return (num >> s) / (den >> s) if (den >> s) else float('inf')


# generators ------------------------------------------------------------------

SQ_MENU = [([1], 1), ([1, 1], 2), ([2], 4), ([1, 1, 1, 1], 4), ([2, 2], 8), ([1, 0], 1), ([0, 2, 0], 4)]
SQ_RICH = [[3, 4], [1, 2, 2], [2, 3, 6], [1, 4, 8], [4, 4, 7], [2, 6, 9], [3, 4, 12], [8, 15], [5, 12], [1, 1, 3, 5],
           [3], [5], [1, 3], [1, 5], [3, 5], [1, 1, 1], [1, 2, 4]]


def scale_of(rng, mode):
    if mode == 'up':
        return rng.randint(8, 60)
    if mode == 'down':
        return -rng.randint(8, 60)
    if mode == 'mixed':
        return rng.choice([-1, 1]) * rng.randint(8, 60)
    if mode == 'tiny':
        return -rng.randint(170, 200)
    if mode == 'big':
        return rng.randint(170, 200)
    if mode == 'unit':
        return rng.randint(-2, 2)
    if mode == 'sqsub':
        return -rng.randint(526, 537)
    return 0


def odd_bits(s):
    s = abs(s)
    if s == 0:
        return 0
    o = s >> ((s & -s).bit_length() - 1)
    return o.bit_length() if o > 1 else 0      # cost in bits of multiplying an odd mantissa by s


def gen_r1_self(rng, d, mode, budget=48, zero_at=None):
    """rank-1 tensor whose squared norm has a short odd part: every float operation of norm() is exact"""
    Y = []
    for j in range(d):
        if zero_at == j:
            cs = [0] * rng.randint(1, 3)
        elif mode == 'sqsub':
            cs = list(rng.choice(SQ_MENU)[0])       # squared norm a power of two: the mantissa stays 1, products stay exact
        else:
            cs = list(rng.choice(SQ_RICH)) if rng.random() < 0.25 else list(rng.choice(SQ_MENU)[0])
            s = sum(c * c for c in cs)
            if odd_bits(s) > budget:
                cs = list(rng.choice(SQ_MENU)[0])
                s = sum(c * c for c in cs)
            budget -= odd_bits(s)
            rng.shuffle(cs)
            cs = [c * rng.choice([-1, 1]) for c in cs]
        Y.append(Core(1, len(cs), 1, k=scale_of(rng, mode), cs=cs))
    return Y


def gen_r1_pair(rng, d, mode, budget=48, zero_at=None):
    """two rank-1 tensors whose scalar product has a short odd part"""
    Y1, Y2 = [], []
    for j in range(d):
        n = rng.randint(1, 3)
        for _ in range(50):
            c1 = [rng.choice([-5, -3, -2, -1, 1, 1, 2, 3, 5, 0]) for _ in range(n)]
            c2 = [rng.choice([-5, -3, -2, -1, 1, 1, 2, 3, 5, 0]) for _ in range(n)]
            s = sum(a * b for a, b in zip(c1, c2))
            if zero_at == j:
                c2 = [0] * n
                break
            if s != 0 and (odd_bits(s) == 0 or (odd_bits(s) <= budget and rng.random() < 0.3)):
                budget -= odd_bits(s)
                break
        else:
            c1, c2 = [1] * n, [1] + [0] * (n - 1)
        Y1.append(Core(1, n, 1, k=scale_of(rng, mode), cs=c1))
        Y2.append(Core(1, n, 1, k=scale_of(rng, mode), cs=c2))
    return Y1, Y2


def rank_profile(rng, d, rmax):
    return [1] + [rng.randint(1, rmax) for _ in range(d - 1)] + [1]


def gen_small(rng, d, mode, rmax=2, nmax=2, vals=(-5, -3, -1, 1, 3, 5, 1, -1, 2, 0)):
    """few-bit entries, any rank"""
    r = rank_profile(rng, d, rmax)
    Y = []
    for j in range(d):
        n = rng.randint(1, nmax)
        cs = [rng.choice(vals) for _ in range(r[j] * n * r[j + 1])]
        if all(c == 0 for c in cs):
            cs[0] = 1
        Y.append(Core(r[j], n, r[j + 1], k=scale_of(rng, mode), cs=cs))
    return Y


def gen_float(rng, d, mode, rmax=2, nmax=2, like=None, n0=None, lo=-1.0, same_scales=False):
    """generic 53-bit mantissas; [like] = a tensor whose shape and ranks are reused; [n0] = size of the first mode;
    lo = 0.1 gives positive entries (no cancellation anywhere); same_scales: the per-core scales of [like] are reused
    (up to 2^+-2), so that the two tensors stay comparable along the whole chain"""
    r = rank_profile(rng, d, rmax)
    Y = []
    for j in range(d):
        if like is not None:
            r1, n, r2 = like[j].r1, like[j].n, like[j].r2
        else:
            r1, n, r2 = r[j], (n0 if (j == 0 and n0) else rng.randint(1, nmax)), r[j + 1]
        sc = scale_of(rng, mode)
        if same_scales and like is not None:
            sc = getattr(like[j], 'sc', sc) + rng.randint(-2, 2)
        A = np.array([rng.uniform(lo, 1) for _ in range(r1 * n * r2)]).reshape(r1, n, r2) * 2.0 ** sc
        G = Core(r1, n, r2, arr=A)
        G.sc = sc
        Y.append(G)
    return Y


def gen_graded(rng, d, n, e, c1f, c2f):
    """Y = T0 + c1 T1 + c2 T2 with mutually orthogonal unit-norm rank-1 tensors T_i (every unfolding has the singular values
    1, c1, c2): c1 = c1f * e lies above the requested accuracy (dropping it costs more than e), c2 = c2f * e / sqrt(d-1) lies
    below the per-step threshold (it must go).  TT-ranks 3, to be rounded to 2.  Per-core scale 1."""
    c = [1.0, c1f * e, c2f * e / math.sqrt(max(d - 1, 1))]
    Y = []
    for j in range(d):
        Q, _ = np.linalg.qr(np.array([[rng.gauss(0, 1) for _ in range(3)] for _ in range(n)]))
        if j == 0:
            A = np.zeros((1, n, 3))
            for i in range(3):
                A[0, :, i] = c[i] * Q[:, i]
        elif j == d - 1:
            A = np.zeros((3, n, 1))
            for i in range(3):
                A[i, :, 0] = Q[:, i]
        else:
            A = np.zeros((3, n, 3))
            for i in range(3):
                A[i, :, i] = Q[:, i]
        Y.append(Core(A.shape[0], n, A.shape[2], arr=A))
    return Y


def gen_flat(rng, d, e, k, cf, nmid=2):
    """Y = T0 + c (T1 + ... + Tk): mutually orthogonal unit-norm rank-1 tensors (orthonormal factors in the first and the last
    mode, sizes k+1; unit vectors elsewhere), so every unfolding has the singular values 1, c x k: a FLAT cluster with
    c = cf * e / sqrt(d-1) just below the per-step threshold whose joint weight sqrt(k) c is above it (the tail criterion is
    cumulative: only floor(1/cf^2) of them may go per bond).  TT-ranks k+1."""
    c = cf * e / math.sqrt(max(d - 1, 1))
    coef = [1.0] + [c] * k
    K = k + 1
    Y = []
    for j in range(d):
        if j in (0, d - 1):
            n = K
            Q, _ = np.linalg.qr(np.array([[rng.gauss(0, 1) for _ in range(K)] for _ in range(n)]))
        else:
            n = nmid
            Q = np.array([[rng.gauss(0, 1) for _ in range(K)] for _ in range(n)])
            Q = Q / np.sqrt(np.sum(Q * Q, axis=0))
        if j == 0:
            A = np.zeros((1, n, K))
            for i in range(K):
                A[0, :, i] = coef[i] * Q[:, i]
        elif j == d - 1:
            A = np.zeros((K, n, 1))
            for i in range(K):
                A[i, :, 0] = Q[:, i]
        else:
            A = np.zeros((K, n, K))
            for i in range(K):
                A[i, :, i] = Q[:, i]
        Y.append(Core(A.shape[0], n, A.shape[2], arr=A))
    return Y


def gen_square(rng, d, r, mode='unit'):
    """Y = T + T in block form (ranks 2r) for a generic rank-r tensor T with mode size 2 inside and 2r at both ends: during
    the rounding sweep every unfolding r1 x (n r2) is SQUARE (2r x 2r) and genuinely reduced (rank r)."""
    T = []
    for j in range(d):
        r1, r2 = (1 if j == 0 else r), (1 if j == d - 1 else r)
        n = 2 * r if j in (0, d - 1) else 2
        sc = scale_of(rng, mode)
        T.append(np.array([rng.uniform(-1, 1) for _ in range(r1 * n * r2)]).reshape(r1, n, r2) * 2.0 ** sc)
    Y = []
    for j, G in enumerate(T):
        r1, n, r2 = G.shape
        if d == 1:
            M = 2 * G
        elif j == 0:
            M = np.concatenate([G, G], axis=2)
        elif j == d - 1:
            M = np.concatenate([G, G], axis=0)
        else:
            M = np.zeros((2 * r1, n, 2 * r2))
            M[:r1, :, :r2], M[r1:, :, r2:] = G, G
        Y.append(Core(M.shape[0], n, M.shape[2], arr=M))
    return Y


def scaled(Y, shifts):
    """the tensor with core j multiplied by 2^shifts[j] (exact)"""
    out = []
    for G, s in zip(Y, shifts):
        if G.cs is not None:
            out.append(Core(G.r1, G.n, G.r2, k=G.k + s, cs=list(G.cs)))
        else:
            A = np.ldexp(G.arr, int(s))
            assert np.all(np.isfinite(A))
            out.append(Core(G.r1, G.n, G.r2, arr=A))
    return out


def spread_shift(Y, t):
    """the tensor 2^t * Y with the factor spread evenly over the cores (keeps every core far inside the double range)"""
    d = len(Y)
    q, r = divmod(abs(int(t)), d)
    sg = 1 if t >= 0 else -1
    return scaled(Y, [sg * (q + (1 if j < r else 0)) for j in range(d)])


def with_zero_core(Y, j):
    Z = list(Y)
    G = Y[j]
    Z[j] = Core(G.r1, G.n, G.r2, arr=np.zeros((G.r1, G.n, G.r2)))
    return Z


def same_shape(rng, Y, vals=(-5, -3, -1, 1, 3, 5, 1, -1, 2, 0), mode='mixed', rmax=2):
    """few-bit tensor with the mode sizes of Y and fresh ranks"""
    d = len(Y)
    r = rank_profile(rng, d, rmax)
    Z = []
    for j in range(d):
        n = Y[j].n
        cs = [rng.choice(vals) for _ in range(r[j] * n * r[j + 1])]
        if all(c == 0 for c in cs):
            cs[0] = 1
        Z.append(Core(r[j], n, r[j + 1], k=scale_of(rng, mode), cs=cs))
    return Z


# ----------------------------------------------------------------------------
# recording the oracles on the implementation side
# ----------------------------------------------------------------------------

class Rec:
    """wraps teneva.core_stab / orthogonalize_left / orthogonalize_right / norm while active"""

    def __init__(self, tn):
        self.tn = tn
        self.log2 = []      # (v_max, dp, thr)
        self.orth_l = []    # (G1, G2, Q, G2')
        self.orth_r = []
        self.norms = []
        self.orth_out = []  # (Z, p) returned by transformation.orthogonalize(use_stab=True) (as called by truncate)

    def __enter__(self):
        tn, T = self.tn, self.tn.transformation
        self.saved = (tn.core_stab, T.orthogonalize_left, T.orthogonalize_right, tn.norm)
        self.saved_orth = (T.orthogonalize, tn.orthogonalize)
        cs, ol, orr, nm = self.saved
        og = T.orthogonalize

        def orthogonalize(Y, k=None, use_stab=False):
            r = og(Y, k, use_stab)
            if use_stab:
                self.orth_out.append(([G.copy() for G in r[0]], r[1]))
            return r
        T.orthogonalize = orthogonalize
        if tn.orthogonalize is og:
            tn.orthogonalize = orthogonalize

        def core_stab(G, p0=0, *a, **k):
            Q, p = cs(G, p0, *a, **k)
            self.log2.append((float(np.max(np.abs(G))), p - p0, Q is G))
            return Q, p

        def oleft(Z, i, inplace=False):
            a, b = Z[i].copy(), Z[i + 1].copy()
            R = ol(Z, i, inplace=inplace)
            self.orth_l.append((a, b, R[i].copy(), R[i + 1].copy()))
            return R

        def oright(Z, i, inplace=False):
            a, b = Z[i - 1].copy(), Z[i].copy()
            R = orr(Z, i, inplace=inplace)
            self.orth_r.append((a, b, R[i - 1].copy(), R[i].copy()))
            return R

        def norm(Y, use_stab=False):
            r = nm(Y, use_stab=use_stab)
            if use_stab:
                self.norms.append((float(r[0]), float(r[1])))
            return r

        tn.core_stab, T.orthogonalize_left, T.orthogonalize_right, tn.norm = core_stab, oleft, oright, norm
        return self

    def __exit__(self, *a):
        tn, T = self.tn, self.tn.transformation
        tn.core_stab, T.orthogonalize_left, T.orthogonalize_right, tn.norm = self.saved
        T.orthogonalize, tn.orthogonalize = self.saved_orth

    def log2_contract(self):
        """(number of calls, number of calls where log2 rounds up to the next integer (v within 2^-40 below a power of two, see NEAR_POW2), list of genuine violations)"""
        ulp, bad = 0, []
        for v, dp, same in self.log2:
            if same:
                continue
            if not (v > 0 and math.isfinite(v)):
                bad.append((v, dp))
                continue
            fl = floor_log2(v)
            if dp == fl:
                continue
            if dp == fl + 1 and math.frexp(v)[0] >= NEAR_POW2:
                ulp += 1
            else:
                bad.append((v, dp))
        return len(self.log2), ulp, bad

    def orth_contract(self):
        worst = 0.0
        for recs in (self.orth_l, self.orth_r):
            for a, b, a2, b2 in recs:
                if a2.shape[0] != a.shape[0] or a2.shape[1] != a.shape[1] or b2.shape[1:] != b.shape[1:] \
                        or a2.shape[2] != b2.shape[0]:
                    return float('inf')
                P0 = np.einsum('aic,cjb->aijb', a, b)
                P1 = np.einsum('aic,cjb->aijb', a2, b2)
                sc = np.max(np.abs(P0))
                if sc > 0 and np.isfinite(sc):
                    worst = max(worst, float(np.max(np.abs(P0 - P1)) / sc))
        return worst


def impl_vp(r):
    """(v, p) of the implementation -> [[m, e], [p, 0]]"""
    v, p = r
    if not (isinstance(p, (int, np.integer)) or float(p) == int(p)):
        return [['non-integer exponent', repr(p)]]
    if not math.isfinite(float(v)):
        return [['non-finite mantissa', repr(v)]]
    return [canon(v), (int(p), 0)]


def tup(x):
    return [tuple(y) if isinstance(y, (list, tuple)) else y for y in x]


# ----------------------------------------------------------------------------
# correspondence
# ----------------------------------------------------------------------------

def _corr_add(R, name, n, bad, comparison, dist, sample=None):
    R.corr.append(dict(name=name, cases=n, mismatches=len(bad), comparison=comparison, distribution=dist,
                       first_mismatches=bad[:3]))
    if sample:
        R.samples.append(sample)


def correspondence(R, ctx):
    tn = C.import_teneva()
    rng = ctx['rng']
    th = ctx['thorough']
    hints = []
    hints += corr_core_stab(R, tn, rng, th)
    hints += corr_mulscal_exact(R, tn, rng, th)
    hints += corr_mulscal_tol(R, tn, rng, th)
    hints += corr_accuracy(R, tn, rng, th)
    hints += corr_accuracy_branches(R, tn, rng, th)
    hints += corr_orth(R, tn, rng, th)
    hints += corr_truncate(R, tn, rng, th)
    return hints


def corr_core_stab(R, tn, rng, th):
    """core_stab on cores and matrices: generic floats, zeros, subnormals, explicit and default threshold, p0."""
    items = []
    dist = dict(default_thr=0, explicit_thr=0, below_thr=0, zero_core=0, tiny_core=0, subnormal=0, log2_ulp_skipped=0)
    n_cases = 600 if th else 150
    for t in range(n_cases):
        r1, n, r2 = rng.randint(1, 3), rng.randint(1, 3), rng.randint(1, 3)
        fam = rng.choice(['generic', 'generic', 'tiny', 'zero', 'subnormal', 'pow2', 'huge', 'int'])
        if fam == 'generic':
            A = np.array([rng.uniform(-1, 1) * 2.0 ** rng.randint(-80, 80) for _ in range(r1 * n * r2)])
        elif fam == 'tiny':
            A = np.array([rng.uniform(-1, 1) * 2.0 ** rng.randint(-420, -330) for _ in range(r1 * n * r2)])
            dist['tiny_core'] += 1
        elif fam == 'zero':
            A = np.zeros(r1 * n * r2)
            dist['zero_core'] += 1
        elif fam == 'subnormal':
            A = np.array([rng.choice([-1, 1]) * rng.randint(0, 2 ** 20) * 2.0 ** -1074 for _ in range(r1 * n * r2)])
            dist['subnormal'] += 1
        elif fam == 'pow2':
            A = np.array([rng.choice([-1, 1, 0]) * 2.0 ** rng.randint(-300, 300) for _ in range(r1 * n * r2)])
        elif fam == 'huge':
            A = np.array([rng.uniform(-1, 1) * 2.0 ** rng.randint(900, 1023) for _ in range(r1 * n * r2)])
        else:
            A = np.array([float(rng.randint(-9, 9)) for _ in range(r1 * n * r2)])
        if t % 15 == 7:
            # edges of the normal range: largest entry exactly 2^-1022, just below it, the smallest subnormal
            A = np.array([rng.choice([2.0 ** -1022, math.nextafter(2.0 ** -1022, 0.0), 2.0 ** -1074, 3 * 2.0 ** -1074])] +
                         [rng.choice([0.0, 2.0 ** -1074, -2.0 ** -1060]) for _ in range(r1 * n * r2 - 1)])
            dist['subnormal'] += 1
        G = Core(r1, n, r2, arr=A.reshape(r1, n, r2))
        p0 = rng.choice([0, 0, rng.randint(-40000, 40000)])
        if rng.random() < 0.6:
            thr, args, thr_coq = 0.0, (), 'Dy_0'      # default threshold (0. since the repair of core_stab)
            dist['default_thr'] += 1
        else:
            vm = float(np.max(np.abs(A)))
            thr = rng.choice([1e-100, 0.0, vm * 2.0 ** rng.choice([-3, 1, 0]), 1.0])
            args, thr_coq = (thr,), dyl(thr)
            dist['explicit_thr'] += 1
        # argument forms (same values): memory layout / dtype of the core, scalar types of p0 and thr
        Ain, p0in, argsin, form = G.arr.copy(), p0, args, 'canonical'
        if t % 3 == 1:
            form = rng.choice(['F', 'noncontig', 'int64', 'float32', 'p0_np', 'thr_np'])
            if form == 'F':
                Ain = np.asfortranarray(Ain)
            elif form == 'noncontig':
                big = np.zeros((r1, 2 * n, r2 + 1))
                big[:, ::2, :r2] = Ain
                Ain = big[:, ::2, :r2]
            elif form in ('int64', 'float32'):
                cast = Ain.astype(np.int64 if form == 'int64' else np.float32) if np.all(np.abs(Ain) < 2.0 ** 60) else Ain
                if np.array_equal(cast.astype(float), Ain):     # only where the other dtype carries the same values
                    Ain = cast
            elif form == 'p0_np':
                p0in = rng.choice([np.int64(p0), np.int32(p0), np.array(p0)])
            elif form == 'thr_np' and args:
                argsin = (rng.choice([np.float64(thr), np.array(thr)]),)
            dist['forms'] = dist.get('forms', 0) + 1
        with Rec(tn) as rec:
            try:
                Q, p = tn.core_stab(Ain, p0in, *argsin)
                impl = [(int(p), 0), (Q.shape[0], Q.shape[1]), (Q.shape[2], 0)] + [canon(x) for x in Q.ravel()]
                if not np.all(np.isfinite(Q)):
                    impl = ['non-finite']
            except Exception as e:
                impl = ['raised ' + repr(e)[:80]]
        _, ulp, _ = rec.log2_contract()
        if ulp:
            dist['log2_ulp_skipped'] += 1
            continue
        if float(np.max(np.abs(A))) <= thr:
            dist['below_thr'] += 1
        items.append(dict(coq=f'showcore (core_stab ODy ilog2_dy {thr_coq} {G.coq()} {C.zlit(p0)})', impl=impl,
                          input=['core_stab', G.desc(), p0, list(args)]))
    bad = C.exact_corr(R, 'core_stab', HEADER, items, chunk=20, norm=tup, distribution=dist)
    return bad


def _run_vp(tn, f, *a):
    with Rec(tn) as rec:
        try:
            r = impl_vp(f(*a, use_stab=True))
        except Exception as e:
            r = [['raised', repr(e)[:80]]]
    return r, rec


def corr_mulscal_exact(R, tn, rng, th):
    """rank 1, exact: every float operation is exact, so (mantissa, exponent) must be identical to the dyadic model.
    Totals anywhere in 2^+-30000 (norm) / 2^+-60000 (scalar product); tiny per-core scales; zero products."""
    cases = []
    dist = dict(d=[], total_log2=[], tiny_scale=0, zero_product=0, plain_checked=0, log2_calls=0, log2_ulp_skipped=0)
    ndist = dict(cases=0, d=[], norm_exact_sqrt=0, norm_float_sqrt=0, odd_h=0, even_h=0)
    nbad, nsample = [], None
    dmax = 4000 if th else 500
    plan = []
    for mode in ['up', 'down', 'mixed', 'zero']:
        for d in [2, 3, 5, 17, 120, dmax]:
            if th or not (mode == 'zero' and d == dmax):
                plan.append((mode, d))
    plan += [('tiny', d) for d in (2, 3, 4, 4, 8)] + [('big', d) for d in (2, 3, 5)] + [('unit', d) for d in (2, 4, 9, 30)]
    plan += [(rng.choice(['up', 'down', 'mixed']), rng.randint(2, dmax)) for _ in range(40 if th else 6)]
    plan += [('sqsub', d) for d in (1, 2, 3, 4)]      # entries c * 2^k, k in -537..-526: every product of two cores is subnormal
    for mode, d in plan:
        zero_at = rng.randrange(d) if rng.random() < 0.12 else None
        if mode == 'sqsub':
            Y = gen_r1_self(rng, d, mode)
            cases.append(('norm', mode, Y, Y, None))
            continue
        # scalar product of two different rank-1 tensors
        Y1, Y2 = gen_r1_pair(rng, d, mode, zero_at=zero_at)
        cases.append(('mul_scalar', mode, Y1, Y2, zero_at))
        # norm of one rank-1 tensor
        Y = gen_r1_self(rng, d, mode, zero_at=zero_at)
        cases.append(('norm', mode, Y, Y, zero_at))
    terms, meta = [], []
    for kind, mode, Y1, Y2, zero_at in cases:
        d = len(Y1)
        a, b = tt_np(Y1), tt_np(Y2)
        r, rec = _run_vp(tn, tn.mul_scalar, a, b)
        ncalls, ulp, viol = rec.log2_contract()
        dist['log2_calls'] += ncalls
        if ulp:
            dist['log2_ulp_skipped'] += 1
            continue
        m = dict(kind=kind, mode=mode, d=d, impl=r, input=[kind, mode, tt_desc(Y1), tt_desc(Y2) if kind != 'norm' else None],
                 log2_viol=viol[:3])
        if kind == 'norm':
            try:
                z, ph = tn.norm(a, use_stab=True)
                m['norm'] = (float(z), float(ph))
            except Exception as e:
                m['norm'] = ('raised', repr(e)[:80])
        # plain result where representable
        S, E = exact_dot(ints_of(Y1), ints_of(Y2))
        m['exact'] = (S, E)
        # "plain computation representable": every partial product stays far inside the double range
        if sum(abs(G1.k) + abs(G2.k) + 7 for G1, G2 in zip(Y1, Y2)) < 900:
            m['plain'] = float(tn.mul_scalar(a, b))
        if mode == 'tiny':
            dist['tiny_scale'] += 1
        if S == 0:
            dist['zero_product'] += 1
        dist['d'].append(d)
        dist['total_log2'].append(E + abs(S).bit_length() - 1 if S else None)
        terms.append(f'showvp (mul_scalar_stab ODy ilog2_dy Dy_0 {tt_coq(Y1)} {tt_coq(Y2)})')
        if kind == 'norm':
            terms.append(f'(let zp := norm_stab ODy ilog2_dy Dy_0 {tt_coq(Y1)} in '
                         f'[Dy_show (fst zp); (snd zp, if Dy_is_square (fst (mul_scalar_stab ODy ilog2_dy Dy_0 {tt_coq(Y1)} {tt_coq(Y1)})) then 1 else 0)])')
        else:
            terms.append('[(0, 0); (0, 0)]')
        meta.append(m)
    vals = C.run_cases('C16_mulscal_exact', HEADER, terms, chunk=8)
    bad = []
    for j, m in enumerate(meta):
        v, nv = tup(vals[2 * j]), tup(vals[2 * j + 1])
        R.add_distinct(('mulscal_exact', m['input']))
        why = None
        if m['log2_viol']:
            why = f'floor(np.log2(v)) violates 2^p <= v < 2^(p+1): {m["log2_viol"]}'
        elif tup(m['impl']) != v:
            why = 'mul_scalar(use_stab) differs from the exact dyadic model'
        else:
            # model value v*2^p must be the exact scalar product (sanity of the harness reference) ...
            (mm, me), (mp, _) = v
            S, E = m['exact']
            if rel_diff(mm, me + mp, S, E) != 0.0:
                why = 'internal: model and big-integer reference disagree'
            # ... and the plain float result must coincide where representable
            if 'plain' in m:
                dist['plain_checked'] += 1
                if m['plain'] != (math.ldexp(mm, me + mp) if mm else 0.0):
                    why = 'plain mul_scalar differs from stabilised result although representable'
        if m['kind'] == 'norm':
            # norm(use_stab) = (z, h/2): the model prints the numerator h of the half-integer exponent
            ndist['cases'] += 1
            ndist['d'].append(m['d'])
            nwhy = None
            (zm, ze), (zh, sq) = nv
            z, ph = m['norm']
            if z == 'raised':
                nwhy = 'norm(use_stab) raised ' + str(ph)
            elif 2 * ph != zh:
                nwhy = 'norm(use_stab): exponent is not p/2 of the model'
            else:
                ndist['odd_h' if zh % 2 else 'even_h'] += 1
                (mm, me), _ = v
                vf = math.ldexp(mm, me)
                if sq == 1:
                    ndist['norm_exact_sqrt'] += 1
                    if canon(z) != (zm, ze):
                        nwhy = 'norm(use_stab): mantissa differs from the exact square root of the model'
                else:
                    ndist['norm_float_sqrt'] += 1
                    if z != (math.sqrt(vf) if vf > 0 else 0.0):
                        nwhy = 'norm(use_stab): mantissa is not sqrt(v)'
            if nwhy:
                nbad.append(dict(stream='norm_stab', why=nwhy, input=['norm', m['mode'], m['input'][2]], model=[v, nv],
                                 impl=[m['impl'], m.get('norm')]))
            elif nsample is None:
                nsample = dict(stream='norm_stab', d=m['d'], model=nv, impl=m['norm'])
        if why:
            bad.append(dict(stream='mulscal_exact', why=why, input=m['input'], model=[v, nv], impl=[m['impl'], m.get('norm')]))
    dist['d'] = sorted(set(dist['d']))
    ndist['d'] = sorted(set(ndist['d']))
    tl = [x for x in dist['total_log2'] if x is not None]
    dist['total_log2'] = [min(tl), max(tl)] if tl else []
    _corr_add(R, 'mulscal_exact', len(meta), bad, 'exact equality of (mantissa, exponent); plain == stab where representable', dist,
              sample=dict(stream='mulscal_exact', input=meta[0]['input'][:2], model=tup(vals[0]), impl=meta[0]['impl']) if meta else None)
    _corr_add(R, 'norm_stab', ndist.pop('cases'), nbad, 'exponent numerator h exact; mantissa = exact dyadic square root of the '
              'model where the model value is a square, = IEEE sqrt of the (exactly equal) mantissa otherwise', ndist, sample=nsample)
    return bad + nbad


def corr_mulscal_tol(R, tn, rng, th):
    """higher ranks (few-bit entries, d up to 500/2000) and generic 53-bit mantissas (d <= 60/200): 1e-12."""
    cases = []
    dmax = 2000 if th else 400
    for mode in ['up', 'down', 'mixed']:
        for d in [2, 3, 6, 40, dmax]:
            Y1 = gen_small(rng, d, mode, rmax=rng.randint(2, 3))
            Y2 = Y1 if rng.random() < 0.5 else same_shape(rng, Y1, mode=mode)
            cases.append(('small', mode, Y1, Y2))
    for mode in ['up', 'down', 'mixed', 'tiny']:
        for d in ([2, 4, 12, 60] + ([200] if th else [])):
            Y1 = gen_float(rng, d, mode, rmax=2)
            Y2 = Y1 if rng.random() < 0.5 else gen_float(rng, d, mode, rmax=2, like=Y1)
            cases.append(('float', mode, Y1, Y2))
    terms, meta = [], []
    dist = dict(d=sorted({len(c[2]) for c in cases}), kinds=dict(small=0, float=0), max_rank=0, log2_ulp_skipped=0)
    for kind, mode, Y1, Y2 in cases:
        r, rec = _run_vp(tn, tn.mul_scalar, tt_np(Y1), tt_np(Y2))
        _, ulp, viol = rec.log2_contract()
        if ulp:
            dist['log2_ulp_skipped'] += 1
            continue
        dist['kinds'][kind] += 1
        dist['max_rank'] = max(dist['max_rank'], max(G.r2 for G in Y1))
        terms.append(f'showvp (mul_scalar_stab ODy ilog2_dy Dy_0 {tt_coq(Y1)} {tt_coq(Y2)})')
        meta.append(dict(impl=r, viol=viol, input=['mul_scalar', mode, tt_desc(Y1), None if Y2 is Y1 else tt_desc(Y2)]))
    vals = C.run_cases('C16_mulscal_tol', HEADER, terms, chunk=3)
    bad = []
    for m, v in zip(meta, vals):
        v = tup(v)
        R.add_distinct(('mulscal_tol', m['input']))
        why = None
        (mm, me), (mp, _) = v
        if mm == 0 and not m['viol']:
            # exact cancellation to 0 at rank > 1 is not stable under rounding: only the exact rank-1 stream
            # compares zero products
            dist['exact_zero_skipped'] = dist.get('exact_zero_skipped', 0) + 1
            continue
        if m['viol']:
            why = f'floor(np.log2(v)) violates its contract: {m["viol"][:2]}'
        elif len(m['impl']) != 2 or not isinstance(m['impl'][0][0], int):
            why = 'mul_scalar(use_stab) failed: ' + repr(m['impl'])
        else:
            (im, ie), (ip, _) = m['impl']
            dv = rel_diff(im, ie + ip, mm, me + mp)
            if not (dv <= 1e-10 and abs(ip - mp) <= 1):
                why = f'mul_scalar(use_stab) differs from the exact dyadic model (relative {dv:.3g}, exponents {ip} / {mp})'
        if why:
            bad.append(dict(stream='mulscal_tol', why=why, input=m['input'], model=v, impl=m['impl']))
    _corr_add(R, 'mulscal_tol', len(meta), bad, 'v*2^p relative 1e-10 (mixed signs: sums with cancellation), exponent within 1', dist)
    return bad


# ----------------------------------------------------------------------------
# accuracy: bit-exact PrimFloat runs of the decision / saturation logic
# ----------------------------------------------------------------------------

def fl(x):
    """float -> PrimFloat literal usable under Z_scope"""
    return f'({C.flit(float(x))})%float'


def same_float(a, b):
    a, b = float(a), float(b)
    return (math.isnan(a) and math.isnan(b)) or a == b


def acc_call(tn, a, b):
    """teneva.accuracy with teneva.norm recorded: (result | 'raised ...', [(z1, p1), (z2, p2)])"""
    with Rec(tn) as rec:
        try:
            with np.errstate(all='ignore'):
                r = tn.accuracy(a, b)
            r = float(r)
        except Exception as e:
            r = 'raised ' + repr(e)[:80]
    return r, rec.norms


def acc_term(norms):
    (z1, p1), (z2, p2) = norms
    if not (float(2 * p1).is_integer() and float(2 * p2).is_integer()):
        return None
    return f'accl {fl(z1)} {C.zlit(int(2 * p1))} {fl(z2)} {C.zlit(int(2 * p2))}'


def steer(tn, rng, make_base, target, tries=14):
    """pairs (Y1, Y2) with 2*(p1 - p2) = target: scale Y1 by a power of two spread over its cores (closed loop on the
    exponents the implementation itself returns; the parity of the difference is fixed by the mantissas, so several
    bases are tried).  Returns the last pair if the target is missed: the achieved value is what gets recorded."""
    Y1 = Y2 = None
    for _ in range(tries):
        Y1, Y2 = make_base()
        r, norms = acc_call(tn, tt_np(Y1), tt_np(Y2))
        if len(norms) != 2 or not float(2 * (norms[0][1] - norms[1][1])).is_integer():
            return Y1, Y2
        D0 = int(2 * (norms[0][1] - norms[1][1]))
        if (target - D0) % 2:
            continue
        t = (target - D0) // 2
        if abs(t) > 400 * len(Y1):
            continue
        return spread_shift(Y1, t), Y2
    return Y1, Y2


def corr_accuracy(R, tn, rng, th):
    """accuracy(Y1, Y2) on real tensors: teneva.norm is recorded during the call, the model's accuracy_of runs on the
    recorded (z1, p1), (z2, p2) at the PrimFloat instance, results are compared bit for bit.  Families steer
    D = 2*(p1 - p2) over: < -1000, the -1000/-1001 boundary, moderate, the +1000/+1001 boundary, > 1000
    (the code compares p1 - p2 = D/2 with +-500); zero Y2 (exponent frozen where the product vanished), identical
    tensors (zero difference), zero / zero.  |z2| < 1e-100 with z2 != 0 cannot come out of norm(use_stab) (the
    mantissa is 0 or in [1, sqrt 2)): that branch is only reached by z2 = 0 here and by the synthetic stream."""
    BND = [998, 999, 1000, 1001, 1002, 1003]
    cases = []
    ds = [2, 3, 4, 6, 9, 14]

    def base_disjoint():
        d = rng.choice(ds)
        Y1 = gen_float(rng, d, 'unit', rmax=2, nmax=2, n0=2)
        Y2 = gen_float(rng, d, 'unit', rmax=2, nmax=2, like=Y1)
        Y1[0].arr[:, 1, :] = 0.0
        Y2[0].arr[:, 0, :] = 0.0
        return spread_shift(Y1, 12 * d), Y2      # Y1 dominates: the difference norm scales exactly with Y1

    def base_zero_y2():
        d = rng.choice(ds)
        Y1 = gen_float(rng, d, 'unit', rmax=2, nmax=2)
        Y2 = gen_float(rng, d, rng.choice(['unit', 'mixed']), rmax=2, nmax=2, like=Y1)
        return Y1, with_zero_core(Y2, rng.randrange(d) if rng.random() < 0.5 else 0)

    for rep in range(3 if th else 1):
        for tgt in BND + [40, 300, 700, 950, 1100, 1400]:
            cases.append(('disjoint', tgt) + steer(tn, rng, base_disjoint, tgt))
        for tgt in [-x for x in BND] + BND + [-1400, -1100, -700, -300, 0, 1, 300, 700, 1100]:
            cases.append(('zero_y2', tgt) + steer(tn, rng, base_zero_y2, tgt))
        # identical tensors: the difference vanishes at the last core, its exponent misses that core's scale k
        for k in (-505, -501, -500, -499, -30, 0, 30, 499, 505):
            d = rng.choice(ds)
            Y = gen_float(rng, d, 'unit', rmax=2, nmax=2)
            Y = scaled(Y, [0] * (d - 1) + [k])
            cases.append(('identical', -2 * k, Y, Y))
        # nearby tensors (one core perturbed), unrelated tensors, zero / zero, long chains
        for _ in range(6):
            d = rng.choice(ds)
            Y2 = gen_float(rng, d, 'mixed', rmax=2, nmax=2)
            Y1 = [Core(G.r1, G.n, G.r2, arr=G.arr.copy()) for G in Y2]
            j = rng.randrange(d)
            Y1[j].arr *= (1 + rng.choice([0.5, 0.25, 2.0 ** -8, -0.5]))
            cases.append(('near', None, Y1, Y2))
        for d, mode in [(3, 'mixed'), (7, 'up'), (40, 'down'), (300 if not th else 1500, 'mixed'), (150, 'up')]:
            Y1 = gen_float(rng, d, mode, rmax=2, nmax=2)
            Y2 = gen_float(rng, d, mode, rmax=2, nmax=2, like=Y1)
            cases.append(('generic', None, Y1, Y2))
        Y = gen_float(rng, 3, 'unit')
        cases.append(('zero_zero', None, with_zero_core(Y, 1), with_zero_core(Y, 0)))
    terms, meta = [], []
    dist = dict(families={}, D_hit=[], results=dict(big=0, zero=0, minus1=0, value=0), d=[])
    for fam, tgt, Y1, Y2 in cases:
        r, norms = acc_call(tn, tt_np(Y1), tt_np(Y2))
        m = dict(fam=fam, target=tgt, impl=r, norms=norms, input=['accuracy', fam, tt_desc(Y1), None if Y2 is Y1 else tt_desc(Y2)])
        dist['families'][fam] = dist['families'].get(fam, 0) + 1
        dist['d'].append(len(Y1))
        t = acc_term(norms) if len(norms) == 2 else None
        m['term_ok'] = t is not None
        terms.append(t or 'accl 0%float 0 0%float 0')
        meta.append(m)
    vals = C.run_cases('C16_accuracy', HEADER_F, terms, chunk=40)
    bad = []
    for m, v in zip(meta, vals):
        R.add_distinct(('accuracy', m['input']))
        why = None
        if isinstance(m['impl'], str):
            why = 'accuracy ' + m['impl']
        elif not m['term_ok']:
            why = f'accuracy did not call norm(use_stab=True) twice with half-integer exponents: {m["norms"]}'
        else:
            mv = C.float_of_show(tuple(v[0]))
            D = int(2 * (m['norms'][0][1] - m['norms'][1][1]))
            dist['D_hit'].append(D)
            key = 'big' if m['impl'] == 1e299 else 'minus1' if m['impl'] == -1 else 'zero' if m['impl'] == 0 else 'value'
            dist['results'][key] += 1
            if not same_float(mv, m['impl']):
                why = f'accuracy = {m["impl"]!r} but the model accuracy_of on the recorded norms gives {mv!r} (D = {D})'
        if why:
            bad.append(dict(stream='accuracy', why=why, input=m['input'], model=v, impl=[m['impl'], m['norms']]))
    Ds = sorted(set(dist['D_hit']))
    dist['D_hit'] = dict(min=Ds[0] if Ds else None, max=Ds[-1] if Ds else None,
                         boundary=[x for x in Ds if 996 <= abs(x) <= 1004], distinct=len(Ds))
    dist['d'] = sorted(set(dist['d']))
    _corr_add(R, 'accuracy', len(meta), bad, 'bit-exact PrimFloat (model accuracy_of on the recorded norms)', dist,
              sample=dict(stream='accuracy', family=meta[0]['fam'], norms=meta[0]['norms'], impl=meta[0]['impl'],
                          model=vals[0]) if meta else None)
    return bad


class FakeNorm:
    """teneva.norm replaced by a feeder of prescribed (z, p) pairs: drives the branch logic of accuracy directly"""

    def __init__(self, tn, vals):
        self.tn, self.vals = tn, list(vals)

    def __enter__(self):
        self.saved = self.tn.norm
        self.tn.norm = lambda Y, use_stab=False: self.vals.pop(0)
        return self

    def __exit__(self, *a):
        self.tn.norm = self.saved


def acc_synth(tn, z1, p1, z2, p2):
    one = [np.ones((1, 1, 1))]
    with FakeNorm(tn, [(z1, p1), (z2, p2)]) as f:
        try:
            with np.errstate(all='ignore'):
                r = float(tn.accuracy(one, [np.ones((1, 1, 1))]))
        except Exception as e:
            r = 'raised ' + repr(e)[:80]
        left = len(f.vals)
    return r, left


def corr_accuracy_branches(R, tn, rng, th):
    """every branch of accuracy with prescribed norm results (teneva.norm is replaced by a feeder while accuracy runs):
    exponent differences at and around +-500 (half-integers included), infinite and NaN mantissas, |z2| at and below
    1e-100, negative z2.  Bit-exact against accuracy_of at the PrimFloat instance."""
    tiny = 1e-100
    Z1 = [0.0, 1.0, math.sqrt(2.0), 1.2345678901234567, 1.9999999999999998, float('inf'), 1e-101, float('nan'), 3.5e200]
    Z2 = [0.0, tiny, math.nextafter(tiny, 0.0), math.nextafter(tiny, 1.0), 1e-101, 1.0, 1.3141592653589793,
          float('inf'), -1.5, -1e-101, float('nan'), 2.5e-200]
    DS = [-2001, -1003, -1002, -1001, -1000, -999, -998, -501, -500, -101, -100, -3, -1, 0, 1, 2, 77, 100, 101, 500, 501,
          998, 999, 1000, 1001, 1002, 1003, 2001]
    items = []
    dist = dict(z1=len(Z1), z2=len(Z2), D=len(DS), results=dict(big=0, zero=0, minus1=0, value=0, nan=0, inf=0))
    for z1 in Z1:
        for z2 in Z2:
            for D in DS:
                if not th and rng.random() < 0.7 and abs(abs(D) - 1000) > 3:
                    continue
                h2 = rng.choice([0, -58001, 24690, 7, -60000])
                h1 = h2 + D
                r, left = acc_synth(tn, np.float64(z1), h1 / 2, np.float64(z2), h2 / 2)
                items.append(dict(term=f'accl {fl(z1)} {C.zlit(h1)} {fl(z2)} {C.zlit(h2)}', impl=r, left=left,
                                  input=['accuracy_of', float(z1).hex() if math.isfinite(z1) else repr(z1), h1,
                                         float(z2).hex() if math.isfinite(z2) else repr(z2), h2]))
    vals = C.run_cases('C16_accbr', HEADER_F, [it['term'] for it in items], chunk=700)
    bad = []
    for it, v in zip(items, vals):
        R.add_distinct(('accuracy_of', it['input']))
        why = None
        if isinstance(it['impl'], str):
            why = 'accuracy ' + it['impl']
        elif it['left'] != 0:
            why = 'accuracy did not call teneva.norm exactly twice'
        else:
            mv = C.float_of_show(tuple(v[0]))
            r = it['impl']
            key = 'nan' if math.isnan(r) else 'inf' if math.isinf(r) else 'big' if r == 1e299 else 'minus1' if r == -1 \
                else 'zero' if r == 0 else 'value'
            dist['results'][key] += 1
            if not same_float(mv, r):
                why = f'accuracy = {r!r}, model accuracy_of = {mv!r}'
        if why:
            bad.append(dict(stream='accuracy_branches', why=why, input=it['input'], model=v, impl=it['impl']))
    _corr_add(R, 'accuracy_branches', len(items), bad, 'bit-exact PrimFloat (prescribed norm results)', dist,
              sample=dict(stream='accuracy_branches', input=items[0]['input'], model=vals[0], impl=items[0]['impl']))
    return bad


# ----------------------------------------------------------------------------
# orthogonalize(use_stab=True) and truncate(use_stab=True)
# ----------------------------------------------------------------------------

def arr_coq(A):
    A = np.asarray(A, dtype=float)
    return Core(A.shape[0], A.shape[1], A.shape[2], arr=A).coq()


def arrs_coq(Z):
    return '[' + '; '.join(arr_coq(G) for G in Z) + ']'


def recs_coq(recs):
    return '[' + '; '.join(f'(({arr_coq(a)}, {arr_coq(b)}), ({arr_coq(a2)}, {arr_coq(b2)}))' for a, b, a2, b2 in recs) + ']'


def fcore_coq(A):
    A = np.asarray(A, dtype=float)
    return f'(FC {A.shape[0]} {A.shape[1]} {A.shape[2]} [' + '; '.join(fl(x) for x in A.ravel()) + '])'


def all_finite(Z):
    return all(np.all(np.isfinite(G)) for G in Z)


def gen_any(rng, d, mode, rmax):
    return gen_float(rng, d, mode, rmax=rmax, nmax=2) if rng.random() < 0.6 else gen_small(rng, d, mode, rmax=rmax, nmax=2)


def corr_orth(R, tn, rng, th):
    """orthogonalize(Y, k, use_stab=True): every orthogonalize_left / orthogonalize_right call is recorded (inputs and
    outputs) and replayed as the oracle of the model at the exact dyadic instance; the oracle checks that the model
    hands it the very cores the implementation handed over.  Resulting cores and exponent must be identical."""
    plan = []
    for d in ([2, 3, 5, 12, 40] + ([150, 500] if th else [100])):
        for mode in (['up', 'down', 'mixed'] if (d <= 5 or th) else [rng.choice(['up', 'down', 'mixed'])]):
            ks = {0, d - 1, rng.randrange(d)} if (d <= 12 or th) else {rng.choice([0, d - 1, rng.randrange(d)])}
            for k in sorted(ks):
                plan.append((d, mode, k))
    if not th:
        plan.append((40, 'mixed', 17))
    plan += [(3, 'tiny', 1), (3, 'big', 2), (4, 'zero', 0), (2, 'unit', 2), (3, 'mixed', 6), (5, 'zerocore', 4), (5, 'zerocore', 1)]
    items, dist = [], dict(d=[], k_first=0, k_last=0, k_mid=0, rejected_k=0, zero_core=0, calls_left=0, calls_right=0,
                           log2_ulp_skipped=0, worst_pair_residual=0.0)
    cbad = []
    for d, mode, k in plan:
        zc = mode == 'zerocore'
        Y = gen_any(rng, d, 'mixed' if zc else mode, rmax=3 if d <= 12 else 2)
        if zc:
            Y = with_zero_core(Y, rng.randrange(d))
            dist['zero_core'] += 1
        with Rec(tn) as rec:
            try:
                with np.errstate(all='ignore'):
                    Zi, p = tn.orthogonalize(tt_np(Y), k, use_stab=True)
                impl = [(0, 0), (int(p), 0)] if isinstance(p, (int, np.integer)) and all_finite(Zi) else \
                    [('bad result', repr(p)[:40])]
            except Exception as e:
                Zi, impl = [], [(C.errclass(e), 0)]
        _, ulp, viol = rec.log2_contract()
        if ulp:
            dist['log2_ulp_skipped'] += 1
            continue
        inp = ['orthogonalize', tt_desc(Y), k]
        res = rec.orth_contract()
        dist['worst_pair_residual'] = max(dist['worst_pair_residual'], res)
        if viol or not res <= 1e-11:
            cbad.append(dict(stream='orth_stab', why=f'oracle contract violated: log2 {viol[:2]}, pair residual {res:.3g}', input=inp))
        dist['d'].append(d)
        dist['calls_left'] += len(rec.orth_l)
        dist['calls_right'] += len(rec.orth_r)
        dist['rejected_k' if k > d - 1 else 'k_first' if k == 0 else 'k_last' if k == d - 1 else 'k_mid'] += 1
        items.append(dict(coq=f'orth_run2 {tt_coq(Y)} {k}%nat {recs_coq(rec.orth_l)} {recs_coq(rec.orth_r)} {arrs_coq(Zi)}',
                          impl=impl, input=inp))
    dist['d'] = sorted(set(dist['d']))
    bad = C.exact_corr(R, 'orth_stab', HEADER, items, chunk=3, norm=tup, distribution=dist)
    if cbad:
        R.corr[-1]['mismatches'] += len(cbad)
        R.corr[-1]['first_mismatches'] = (R.corr[-1]['first_mismatches'] + cbad)[:3]
    return bad + cbad


class TruncSpy:
    """while truncate runs (inside a Rec): snapshots of the cores produced by the rounding sweep, taken when they are
    created (the 3-dimensional results of teneva._reshape after orthogonalize has returned: cores d-1 .. 1, and the
    last np.einsum result: core 0), i.e. the tensor BEFORE the final in-place rescaling"""

    def __init__(self, tn, rec):
        self.tn, self.rec, self.cores, self.first = tn, rec, [], None

    def armed(self):
        return len(self.rec.orth_out) >= 1

    def __enter__(self):
        tn, T, spy = self.tn, self.tn.transformation, self
        self.o_resh, self.o_np = tn._reshape, T.np

        def resh(A, n, *a, **k):
            r = spy.o_resh(A, n, *a, **k)
            if spy.armed() and getattr(r, 'ndim', 0) == 3:
                spy.cores.append(np.array(r, copy=True))
            return r

        class NP:
            def __getattr__(self_, name):
                return getattr(spy.o_np, name)

            def einsum(self_, *a, **k):
                r = spy.o_np.einsum(*a, **k)
                if spy.armed():
                    spy.first = np.array(r, copy=True)
                return r
        tn._reshape, T.np = resh, NP()
        return self

    def __exit__(self, *a):
        self.tn._reshape, self.tn.transformation.np = self.o_resh, self.o_np

    def pre(self):
        return ([self.first] if self.first is not None else []) + list(reversed(self.cores))


def corr_truncate(R, tn, rng, th):
    """truncate(Y, e, use_stab=True): (1) its orthogonalize(Y, d-1, True) call is replayed on the dyadic model as in the
    orth_stab stream; (2) the cores of the rounding sweep are snapshotted when they are created (TruncSpy), and the
    model's rescale_all at the PrimFloat instance with c = 2**(p/d) applied to them must reproduce the returned cores
    bit for bit.  The root contract c^d = 2^p is validated."""
    plan = []
    for d in ([2, 3, 5, 9, 30] + ([120] if th else [])):
        for mode in ['up', 'down', 'mixed']:
            plan.append((d, mode, rng.choice([1e-2, 1e-5, 1e-8]), rng.random() < 0.7))
    plan += [(3, 'tiny', 1e-6, True), (3, 'big', 1e-6, True), (4, 'zero', 1e-6, False), (6, 'unit', 0.3, True)]
    # graded tensors (gen_graded) at per-core scales 2^0 / 2^+-300 / 2^+-400, both SVD modes: besides the replay, the ranks
    # must be those of the unstabilised default call at scale 1 (the sweep sees the same mantissas: C16_truncate_stab)
    plan += [(d, ('graded', k), rng.choice([1e-2, 1e-3]), ie) for d, k in [(2, 0), (2, 400), (3, -400), (4, 300), (6, -300)]
             for ie in (True, False)]
    # flat clusters below the per-step threshold and square, genuinely reduced unfoldings (gen_flat / gen_square)
    plan += [(d, (fam, k), 1e-3, ie) for d, fam, k in [(2, 'flat', 0), (3, 'flat', 400), (3, 'square', 0), (5, 'square', -300)]
             for ie in (True, False)]
    ditems, fterms, meta = [], [], []
    dist = dict(d=[], eigh=0, skeleton=0, p_range=[0, 0], rank_reduced=0, log2_ulp_skipped=0, root_worst=0.0)
    bad = []
    for d, mode, e, is_eigh in plan:
        want_ranks = None
        if isinstance(mode, tuple):
            if mode[0] == 'flat':
                Y0 = gen_flat(rng, d, e, rng.choice([3, 5, 8]), rng.choice([0.75, 0.9]))
            elif mode[0] == 'square':
                Y0 = gen_square(rng, d, rng.choice([1, 2]))
            else:
                Y0 = gen_graded(rng, d, rng.choice([3, 5, 8]), e, rng.choice([1.2, 1.5, 2.0]), rng.choice([0.3, 0.6]))
            Y = scaled(Y0, [mode[1]] * d)
            with np.errstate(all='ignore'):
                want_ranks = [G.shape[2] for G in tn.truncate(tt_np(Y0), e)]
            dist['graded'] = dist.get('graded', 0) + 1
        else:
            Y = gen_any(rng, d, mode, rmax=3 if d <= 9 else 2)
        inp = ['truncate', tt_desc(Y), e, is_eigh]
        with Rec(tn) as rec, TruncSpy(tn, rec) as spy:
            try:
                with np.errstate(all='ignore'):
                    W = tn.truncate(tt_np(Y), e, use_stab=True, is_eigh=is_eigh)
                err = None
            except Exception as ex:
                err = 'raised ' + repr(ex)[:80]
        _, ulp, viol = rec.log2_contract()
        if ulp:
            dist['log2_ulp_skipped'] += 1
            continue
        R.add_distinct(('truncate', inp))
        if err or len(rec.orth_out) != 1 or not all_finite(W):
            bad.append(dict(stream='truncate_stab', input=inp,
                            why=err or ('non-finite cores' if len(rec.orth_out) == 1 else
                                        f'truncate(use_stab=True) called orthogonalize(.., True) {len(rec.orth_out)} times')))
            continue
        if want_ranks is not None and mode[0] != 'flat' and [G.shape[2] for G in W] != want_ranks:
            bad.append(dict(stream='truncate_stab', input=inp, why=f'ranks {[G.shape[2] for G in W]} of truncate(use_stab=True, '
                            f'is_eigh={is_eigh}) differ from the ranks {want_ranks} of the unstabilised call at scale 1'))
        Zs, p = rec.orth_out[0]
        W0 = spy.pre()
        if len(W0) != d:
            bad.append(dict(stream='truncate_stab', input=inp, why=f'the rounding sweep produced {len(W0)} cores for d = {d}'))
            continue
        c = 2 ** (p / d)
        root_err = abs(d * math.log2(c) - p)
        dist['root_worst'] = max(dist['root_worst'], root_err)
        dist['d'].append(d)
        dist['eigh' if is_eigh else 'skeleton'] += 1
        dist['p_range'] = [min(dist['p_range'][0], int(p)), max(dist['p_range'][1], int(p))]
        if any(G.shape[2] < H.r2 for G, H in zip(W, Y)):
            dist['rank_reduced'] += 1
        if viol or root_err > 1e-9 or not rec.orth_contract() <= 1e-11:
            bad.append(dict(stream='truncate_stab', input=inp, why=f'oracle contract violated: log2 {viol[:2]}, root {root_err:.3g}, '
                                                                    f'pair residual {rec.orth_contract():.3g}'))
        ditems.append(f'orth_run2 {tt_coq(Y)} {d - 1}%nat {recs_coq(rec.orth_l)} [] {arrs_coq(Zs)}')
        fterms.append(f'rescl {fl(c)} [' + '; '.join(fcore_coq(G) for G in W0) + '] [' + '; '.join(fcore_coq(G) for G in W) + ']')
        meta.append(dict(input=inp, p=int(p), c=float(c).hex()))
    dv = C.run_cases('C16_trunc_orth', HEADER, ditems, chunk=3)
    fv = C.run_cases('C16_trunc_resc', HEADER_F, fterms, chunk=6)
    for m, a, b in zip(meta, dv, fv):
        why = None
        if tup(a) != [(0, 0), (m['p'], 0)]:
            why = f'the orthogonalize(Y, d-1, True) step differs from the dyadic model: model {a}, exponent returned {m["p"]}'
        elif tup(b) != [(0, 0)]:
            why = f'returned cores are not rescale_all(2**(p/d)) of the rounded stabilised tensor: (cores differing, length difference) = {b}'
        if why:
            bad.append(dict(stream='truncate_stab', why=why, input=m['input'], model=[a, b], impl=[m['p'], m['c']]))
    dist['d'] = sorted(set(dist['d']))
    _corr_add(R, 'truncate_stab', len(meta), bad, 'orthogonalisation step: exact dyadic; final rescaling: bit-exact PrimFloat', dist,
              sample=dict(stream='truncate_stab', d=len(meta[0]['input'][1]), p=meta[0]['p'], c=meta[0]['c'], model=[dv[0], fv[0]]) if meta else None)
    return bad


# ----------------------------------------------------------------------------
# property-level oracles ON THE IMPLEMENTATION (independent of the Coq model): big-integer references
# ----------------------------------------------------------------------------

TOL = 1e-9
# known finding (known_findings.json): the stabilised Gram recursion keeps ONE exponent for the whole partial-product vector,
# so a rank component more than 2^1074 below the largest one on some bond underflows inside the mantissa vector and is lost
# even if it dominates at the end.  Failures of exactly this family (see bond_spread) carry this key.
KEY_UNDERFLOW = 'C16/stab-mantissa-underflow-across-blocks'
# known finding: the stabilised routines square / multiply cores (and hand the first core to LAPACK) before the first
# rescaling, so a core with |log2 entry| > 511, or two cores (adjacent in one tensor, or at the same position of the two
# arguments) whose entries multiply outside the normal double range, lose the value although every entry, the total and the
# exact result are representable.  Failures on exactly such inputs (sqrt_range_family) carry this key.
KEY_SQRT = 'C16/entries-beyond-sqrt-range'
SQRT2_UP = 1.4142135623730952


def call(f, *a, **k):
    try:
        with np.errstate(all='ignore'):
            return True, f(*a, **k)
    except Exception as e:      # noqa
        return False, e


def top64(S):
    b = S.bit_length()
    s = max(b - 64, 0)
    return float(S >> s), s


def dy_ratio(a, b):
    """a / b = m * 2^e with m in [0.5, 1) for positive dyadics a = (S, E), b"""
    fa, sa = top64(a[0])
    fb, sb = top64(b[0])
    m, e = math.frexp(fa / fb)
    return m, e + sa + a[1] - sb - b[1]


def dy_sum(terms):
    e0 = min(e for _, e in terms)
    return sum(s << (e - e0) for s, e in terms), e0


def me_sqrt(m, e):
    if e % 2:
        m, e = m * 2, e - 1
    return math.sqrt(m), e // 2


def me_float(m, e):
    try:
        return math.ldexp(m, e)
    except OverflowError:
        return float('inf')


def tts(inp_part):
    return None if inp_part is None else [core_of_desc(x) for x in inp_part]


def abs_ints(I):
    return [(np.array([abs(int(x)) for x in M.ravel()], dtype=object).reshape(M.shape), e) for M, e in I]


def max_scale(Y):
    m = 0
    for G in Y:
        nz = np.abs(G.arr[G.arr != 0])
        if nz.size:
            m = max(m, abs(floor_log2(nz.max())), abs(floor_log2(nz.min())))
    return m


def representable(track, *Ys):
    """the plain float computation stays far inside the double range: every partial product and every core"""
    return all(t is not None and abs(t) <= 900 for t in track) and all(max_scale(Y) <= 300 for Y in Ys)


def short(S, E):
    if S == 0:
        return '0'
    f, s = top64(abs(S))
    m, e = math.frexp(f)
    return f'{"-" if S < 0 else ""}{m * 2!r} * 2^{e - 1 + s + E}'


def F(what, got=None, expected=None, **kw):
    d = dict(what=what, got=got, expected=expected)
    d.update(kw)
    return d


def chk_core_stab(tn, inp):
    G, p0, args = core_of_desc(inp[0]), int(inp[1]), [float.fromhex(x) if isinstance(x, str) else float(x) for x in inp[2]]
    A = G.arr
    thr = args[0] if args else 0.0
    ok, r = call(tn.core_stab, A.copy(), p0, *args)
    if not ok:
        return F('core_stab raised ' + repr(r)[:80])
    Q, p = r
    vm = float(np.max(np.abs(A)))
    if not isinstance(p, (int, np.integer)):
        return F('core_stab: the exponent is not an integer', repr(p))
    if vm <= thr:
        if p != p0 or Q.shape != A.shape or not np.array_equal(Q, A):
            return F('core_stab changed a core whose maximum modulus is not above the threshold', [int(p)], [p0])
        return None
    lg, dp = floor_log2(vm), int(p) - p0
    ulp = dp == lg + 1 and math.frexp(vm)[0] >= NEAR_POW2
    if dp != lg and not ulp:
        return F('core_stab: exponent is not p0 + floor(log2(max|G|))', dp, lg)
    if Q.shape != A.shape or not np.all(np.isfinite(Q)):
        return F('core_stab: non-finite or reshaped mantissa core')
    qm = float(np.max(np.abs(Q)))
    if not (1 <= qm < 2 or (ulp and NEAR_POW2 <= qm < 1)):
        return F('core_stab: maximum modulus of the mantissa core is outside [1, 2)', qm)
    for q, a in zip(Q.ravel(), A.ravel()):
        (m1, e1), (m2, e2) = canon(q), canon(a)
        if (m1, e1 + dp if m1 else 0) != (m2, e2):
            if a != 0 and abs(floor_log2(a) - dp) > 1000:
                continue        # the quotient is subnormal: rounding is expected
            return F('core_stab: Q * 2^p differs from G', [float(q).hex(), dp], float(a).hex())
    return None


def _stab_call(tn, f, *a):
    with Rec(tn) as rec:
        ok, r = call(f, *a, use_stab=True)
    _, ulp, viol = rec.log2_contract()
    return ok, r, ulp, viol


def chk_mul_scalar(tn, inp):
    Y1 = tts(inp[0])
    Y2 = Y1 if inp[1] is None else tts(inp[1])
    exact = bool(inp[2])
    a, b = tt_np(Y1), tt_np(Y2)
    ok, r, ulp, viol = _stab_call(tn, tn.mul_scalar, a, b)
    if not ok:
        return F('mul_scalar(use_stab=True) raised ' + repr(r)[:80])
    if viol:
        return F('floor(np.log2(v)) does not satisfy 2^p <= v < 2^(p+1) inside mul_scalar(use_stab=True)', viol[:2])
    if ulp:
        return None
    if not (isinstance(r, tuple) and len(r) == 2):
        return F('mul_scalar(use_stab=True) did not return (mantissa, exponent)', repr(r)[:80])
    v, p = r
    if not isinstance(p, (int, np.integer)):
        return F('mul_scalar(use_stab=True): the exponent is not an integer', repr(p))
    v, p = float(v), int(p)
    if not math.isfinite(v) or not (v == 0 or 1 <= abs(v) < 2):
        return F('mul_scalar(use_stab=True): mantissa outside {0} u [1, 2)', [v, p])
    I1, I2 = ints_of(Y1), ints_of(Y2)
    track = []
    S, E = exact_dot(I1, I2, track)
    if S == 0:
        if v != 0 and exact:
            return F('mul_scalar(use_stab=True): non-zero mantissa for an exactly vanishing product', [v, p], 0)
        return None
    tol = 0.0
    if not exact:
        Sa, Ea = exact_dot(abs_ints(I1), abs_ints(I2))
        cm, ce = dy_ratio((Sa, Ea), (abs(S), E))
        tol = TOL * max(1.0, me_float(cm, ce))
        if not tol <= 1e-3:
            return None         # ill-conditioned sum (cancellation): rounding decides, nothing to check
    m, e = canon(v)
    rd = rel_diff(m, e + p, S, E)
    if not rd <= tol:
        return F('mul_scalar(use_stab=True): mantissa * 2^exponent differs from the exact scalar product',
                 f'{v!r} * 2^{p}', short(S, E), relative=rd, tolerance=tol)
    if representable(track, Y1, Y2):
        ok, plain = call(tn.mul_scalar, a, b)
        sv = math.ldexp(v, p)
        if not ok or not (float(plain) == sv if exact else abs(float(plain) - sv) <= 1e-12 * abs(sv)):
            return F('plain mul_scalar differs from the stabilised result although the plain computation is representable',
                     repr(plain)[:60], sv)
    return None


def chk_norm(tn, inp):
    Y = tts(inp[0])
    exact = bool(inp[1])
    a = tt_np(Y)
    ok, r, ulp, viol = _stab_call(tn, tn.norm, a)
    if not ok:
        return F('norm(use_stab=True) raised ' + repr(r)[:80])
    if viol:
        return F('floor(np.log2(v)) does not satisfy 2^p <= v < 2^(p+1) inside norm(use_stab=True)', viol[:2])
    if ulp:
        return None
    if not (isinstance(r, tuple) and len(r) == 2):
        return F('norm(use_stab=True) did not return (mantissa, exponent)', repr(r)[:80])
    z, ph = float(r[0]), r[1]
    if not float(2 * ph).is_integer():
        return F('norm(use_stab=True): the exponent is not an integer or a half-integer', repr(ph))
    H = int(2 * ph)
    if not math.isfinite(z) or not (z == 0 or 1 <= z < SQRT2_UP):
        return F('norm(use_stab=True): mantissa outside {0} u [1, sqrt 2)', [z, H / 2])
    I = ints_of(Y)
    track = []
    S, E = exact_dot(I, I, track)
    if S == 0:
        # beyond 53 bits the float computation of an exactly vanishing sum leaves rounding noise: only the exact family
        return F('norm(use_stab=True): non-zero mantissa for the zero tensor', [z, H / 2], 0) if (z != 0 and exact) else None
    if z == 0:
        return F('norm(use_stab=True): zero mantissa for a non-zero tensor', [z, H / 2], short(S, E) + ' (squared)')
    m, e = canon(z)
    rd = rel_diff(m * m, 2 * e + H, S, E)
    tol = 1e-12
    if not exact:
        Sa, Ea = exact_dot(abs_ints(I), abs_ints(I))
        cm, ce = dy_ratio((Sa, Ea), (S, E))
        tol = TOL * max(1.0, me_float(cm, ce))
        if not tol <= 1e-3:
            return None         # ill-conditioned (cancellation): rounding decides, nothing to check
    if not rd <= tol:
        return F('norm(use_stab=True): (mantissa * 2^exponent)^2 differs from the exact <Y, Y>', f'{z!r} * 2^({H}/2)',
                 short(S, E) + ' (squared)', relative=rd)
    if exact and H != E + S.bit_length() - 1:
        return F('norm(use_stab=True): exponent is not floor(log2 <Y,Y>) / 2', H, E + S.bit_length() - 1)
    if representable(track, Y):
        ok, plain = call(tn.norm, a)
        sv = math.ldexp(z, H // 2) * (math.sqrt(2.0) if H % 2 else 1.0)
        if not ok or not abs(float(plain) - sv) <= 1e-12 * sv:
            return F('plain norm differs from the stabilised result although the plain computation is representable',
                     repr(plain)[:60], sv)
    return None


def near_pow2(S):
    """S > 0 lies within a relative 2^-30 of a power of two"""
    b = S.bit_length()
    x = S >> (b - 64) if b > 64 else S << (64 - b)
    return x < (1 << 63) + (1 << 33) or x > (1 << 64) - (1 << 34)


def chk_accuracy(tn, inp):
    Y1 = tts(inp[0])
    same = inp[1] is None
    Y2 = Y1 if same else tts(inp[1])
    ok, r = call(tn.accuracy, tt_np(Y1), tt_np(Y2))
    if not ok:
        return F('accuracy raised ' + repr(r)[:80])
    r = float(r)
    I1, I2 = ints_of(Y1), ints_of(Y2)
    S11, S22 = exact_dot(I1, I1), exact_dot(I2, I2)
    S12 = S11 if same else exact_dot(I1, I2)
    N1 = dy_sum([S11, (-2 * S12[0], S12[1]), S22])
    assert N1[0] >= 0 and S22[0] >= 0
    if S22[0] == 0:
        # ||Y2|| = 0: no relative distance exists; the documented sentinels are -1, 0. and 1e299
        return None if r in (-1.0, 0.0, 1e299) else F('accuracy with Y2 = 0 is not one of the sentinels -1, 0, 1e299', r)
    # the implementation forms ||Y1 - Y2||^2 = <Y1,Y1> - 2<Y1,Y2> + <Y2,Y2> in floating point: its absolute error is
    # bounded by a modest multiple of eps * (<|Y1|,|Y1|> + 2<|Y1|,|Y2|> + <|Y2|,|Y2|>); delta is that bound relative to ||Y2||^2
    # (the scalar products themselves are sums with cancellation between rank components: entries in absolute value)
    A1, A2 = abs_ints(I1), abs_ints(I2)
    A11, A22 = exact_dot(A1, A1), exact_dot(A2, A2)
    A12 = A11 if same else exact_dot(A1, A2)
    am, ae = dy_ratio(dy_sum([A11, (2 * A12[0], A12[1]), A22]), S22)
    delta = 1e-12 * me_float(am, ae)
    if N1[0] == 0:
        lg, rho2, exp_txt = None, 0.0, '0'
    else:
        m, e = dy_ratio(N1, S22)
        rm, re = me_sqrt(m, e)
        lg = re + math.log2(rm)
        exp_txt = f'{rm!r} * 2^{re}'
        # the documented thresholds, stated on exact quantities: with P = floor(log2 ||.||^2) (what norm(use_stab) returns,
        # twice its exponent), accuracy saturates to 1e299 iff P1 - P2 > 1000 (exponent gap > 500) and to 0 iff
        # P1 - P2 < -1000.  Sharp whenever neither squared norm is within 2^-30 of a power of two and the float
        # evaluation of ||Y1 - Y2||^2 is well conditioned (then the floors computed in floating point are the exact ones).
        gap = (N1[1] + N1[0].bit_length()) - (S22[1] + S22[0].bit_length())
        if not near_pow2(N1[0]) and not near_pow2(S22[0]) and delta <= 1e-10 * me_float(m, e) and abs(gap) <= 1010:
            exp_txt += f', exponent gap {gap}/2'
            if gap > 1000:
                return None if r == 1e299 else F('accuracy: an exponent gap above 500 must saturate to 1e299', r, exp_txt)
            if gap < -1000:
                return None if r == 0.0 else F('accuracy: an exponent gap below -500 must give 0', r, exp_txt)
            if r == 1e299 or (r == 0.0):
                return F('accuracy returns a saturation value although the exponent gap of the two norms is within [-500, 500]',
                         r, exp_txt)
        if lg > 501:
            return None if r == 1e299 else F('accuracy: relative distance above 2^501 must saturate to 1e299', r, exp_txt)
        if lg < -501:
            return None if r == 0.0 else F('accuracy: relative distance below 2^-501 must give 0', r, exp_txt)
        if (r == 1e299 and lg > 499.4) or (r == 0.0 and lg < -499.4):
            return None
        rho2 = me_float(m, e)
    if N1[0] == 0:
        good = 0 <= r and (r * r if r < 1e150 else float('inf')) <= delta
    else:
        q = r / me_float(rm, re)
        slack = 2 * TOL + (delta / rho2 if rho2 > 0 else float('inf'))
        good = r >= 0 and 1 - slack <= q * q <= 1 + slack
    if not good:
        f = F('accuracy differs from the exact relative distance ||Y1 - Y2|| / ||Y2||', r, exp_txt,
              allowed_abs_error_of_square=delta)
        if N1[0] == 0 and r == 1e299:
            f['what'] = 'accuracy of two equal tensors is 1e299 instead of 0'
        return f
    return None


def chk_shift(tn, inp):
    Y1 = tts(inp[0])
    both = inp[1] is None
    Y2 = Y1 if both else tts(inp[1])
    j, s = int(inp[2]), int(inp[3])
    Y1s = scaled(Y1, [s if i == j else 0 for i in range(len(Y1))])
    Y2s = Y1s if both else Y2
    ok, r, ulp, viol = _stab_call(tn, tn.mul_scalar, tt_np(Y1), tt_np(Y2))
    ok2, r2, ulp2, viol2 = _stab_call(tn, tn.mul_scalar, tt_np(Y1s), tt_np(Y2s))
    if not (ok and ok2):
        return F('mul_scalar(use_stab=True) raised ' + repr(r if not ok else r2)[:80])
    if ulp or ulp2 or viol or viol2:
        return None
    (v, p), (v2, p2) = r, r2
    if float(v) == 0:
        return None             # the exponent of a vanishing product is frozen where it vanished
    want = p + (2 * s if both else s)
    if not (float(v2) == float(v) and p2 == want):
        return F(f'scaling core {j} by 2^{s} must shift the exponent of mul_scalar(use_stab=True) by '
                 f'{2 * s if both else s} and leave the mantissa unchanged', [float(v2), int(p2)], [float(v), int(want)])
    if both:
        okn, n1 = call(tn.norm, tt_np(Y1), use_stab=True)
        okm, n2 = call(tn.norm, tt_np(Y1s), use_stab=True)
        if not (okn and okm):
            return F('norm(use_stab=True) raised')
        if not (float(n2[0]) == float(n1[0]) and n2[1] == n1[1] + s):
            return F(f'scaling core {j} by 2^{s} must shift the exponent of norm(use_stab=True) by {s} and leave the '
                     f'mantissa unchanged', [float(n2[0]), float(n2[1])], [float(n1[0]), float(n1[1]) + s])
    return None


def exact_rel_dist(Z, p, I):
    """||2^p Z - Y|| / ||Y|| for float cores Z and Y given by its integer form I: exact big-integer arithmetic up to
    the final square root.  Returns (value | None when Y = 0, ||Z||^2 == 0)"""
    IZ = ints_of(Z)
    NZ, ZY, NY = exact_dot(IZ, IZ), exact_dot(IZ, I), exact_dot(I, I)
    if NY[0] == 0:
        return None, NZ[0] == 0
    D2 = dy_sum([(NZ[0], NZ[1] + 2 * p), (-2 * ZY[0], ZY[1] + p), NY])
    assert D2[0] >= 0
    if D2[0] == 0:
        return 0.0, NZ[0] == 0
    m, e = dy_ratio(D2, NY)
    rm, re = me_sqrt(m, e)
    return me_float(rm, re), NZ[0] == 0


def has_zero_core(Y):
    return any(not np.any(G.arr) for G in Y)


def shapes_ok(Z, Y):
    return len(Z) == len(Y) and all(isinstance(G, np.ndarray) and G.ndim == 3 and G.shape[1] == H.n for G, H in zip(Z, Y)) and \
        Z[0].shape[0] == 1 and Z[-1].shape[2] == 1 and all(Z[i].shape[2] == Z[i + 1].shape[0] for i in range(len(Z) - 1))


def chk_orth(tn, inp):
    Y, k = tts(inp[0]), int(inp[1])
    d = len(Y)
    with Rec(tn) as rec:
        ok, r = call(tn.orthogonalize, tt_np(Y), k, use_stab=True)
    if k < 0 or k > d - 1:
        return None if (not ok and isinstance(r, ValueError)) else F('orthogonalize accepts an invalid mode number', repr(r)[:60], 'ValueError')
    if not ok:
        return F('orthogonalize(use_stab=True) raised ' + repr(r)[:80])
    _, ulp, viol = rec.log2_contract()
    if viol:
        return F('floor(np.log2(v)) does not satisfy 2^p <= v < 2^(p+1) inside orthogonalize(use_stab=True)', viol[:2])
    if ulp:
        return None
    if not (isinstance(r, tuple) and len(r) == 2 and isinstance(r[1], (int, np.integer))):
        return F('orthogonalize(use_stab=True) did not return (tensor, integer exponent)', repr(r)[:80])
    Z, p = r[0], int(r[1])
    if not shapes_ok(Z, Y) or not all_finite(Z):
        return F('orthogonalize(use_stab=True): malformed or non-finite cores')
    rel, zzero = exact_rel_dist(Z, p, ints_of(Y))
    if rel is None:
        # a tensor that vanishes only by cancellation between non-zero cores leaves rounding noise: not checked
        return F('orthogonalize(use_stab=True) of a tensor with a zero core is not zero') if (has_zero_core(Y) and not zzero) else None
    if not rel <= TOL:
        return F('orthogonalize(use_stab=True): 2^p * Z differs from Y', f'relative distance {rel!r}, p = {p}', '<= 1e-9')
    if d >= 2:
        mk = float(np.max(np.abs(Z[k])))
        if not 1 <= mk < 2:
            return F(f'orthogonalize(use_stab=True): the maximum modulus of core k = {k} is outside [1, 2)', mk)
        for i, G in enumerate(Z):
            if i != k and float(np.max(np.abs(G))) > 1 + 1e-9:
                return F(f'orthogonalize(use_stab=True): orthogonal core {i} has an entry above 1', float(np.max(np.abs(G))))
    return None


def chk_truncate(tn, inp):
    Y, e, rcap, is_eigh = tts(inp[0]), float(inp[1]), inp[2], bool(inp[3])
    ok, W = call(tn.truncate, tt_np(Y), e, 1e12 if rcap is None else rcap, use_stab=True, is_eigh=is_eigh)
    if not ok:
        return F('truncate(use_stab=True) raised ' + repr(W)[:80])
    if not (isinstance(W, list) and shapes_ok(W, Y)) or not all_finite(W):
        return F('truncate(use_stab=True): malformed or non-finite cores')
    if rcap is not None:
        if max(G.shape[2] for G in W) > rcap:
            return F('truncate(use_stab=True): rank cap exceeded', [G.shape[2] for G in W], rcap)
        return None
    if len(inp) > 4 and inp[4]:
        return None             # long chain: finiteness and shapes only
    rel, wzero = exact_rel_dist(W, 0, ints_of(Y))
    if rel is None:
        return F('truncate(use_stab=True) of a tensor with a zero core is not zero') if (has_zero_core(Y) and not wzero) else None
    if not rel <= e * (1 + 1e-6) + 2e-7:
        return F('truncate(use_stab=True): the result is farther from Y than the requested accuracy', rel, e)
    return None


def ints_sub(I1, I2):
    """integer form of sub(Y1, Y2) = [Y1, -Y2] (block cores), per core with a common exponent"""
    out, d = [], len(I1)
    for j, ((M1, e1), (M2, e2)) in enumerate(zip(I1, I2)):
        e = min(e1, e2)
        A = np.array([int(x) << (e1 - e) for x in M1.ravel()], dtype=object).reshape(M1.shape)
        B = np.array([int(x) << (e2 - e) for x in M2.ravel()], dtype=object).reshape(M2.shape)
        if j == 0:
            B = -B
        r1a, n, r2a = A.shape
        r1b, _, r2b = B.shape
        if d == 1:
            M = A + B
        elif j == 0:
            M = np.concatenate([A, B], axis=2)
        elif j == d - 1:
            M = np.concatenate([A, B], axis=0)
        else:
            M = np.zeros((r1a + r1b, n, r2a + r2b), dtype=object)
            M[:r1a, :, :r2a] = A
            M[r1a:, :, r2a:] = B
        out.append((M, e))
    return out


def bond_spread(I1, I2):
    """largest log2(max |entry| / min non-zero |entry|) over the exact partial products of <Y1, Y2>"""
    V, worst = np.array([[1]], dtype=object), 0
    for (M1, _), (M2, _) in zip(I1, I2):
        W = None
        for i in range(M1.shape[1]):
            t = M1[:, i, :].T.dot(V).dot(M2[:, i, :])
            W = t if W is None else W + t
        V = W
        nz = [abs(int(x)).bit_length() for x in V.ravel() if x != 0]
        if not nz:
            break
        worst = max(worst, max(nz) - min(nz))
        g = 0
        for x in V.ravel():
            g |= abs(int(x))
        t = (g & -g).bit_length() - 1
        if t:
            V = np.array([int(x) >> t for x in V.ravel()], dtype=object).reshape(V.shape)
    return worst


def flushed_dot(I1, I2):
    """exact scalar product, except that after every core the entries more than 2^1075 below the largest one are set
    to 0: what the float mantissa vector (largest entry normalised to [1, 2)) does to them.  Returns (S, E)."""
    V, E = np.array([[1]], dtype=object), 0
    for (M1, e1), (M2, e2) in zip(I1, I2):
        W = None
        for i in range(M1.shape[1]):
            t = M1[:, i, :].T.dot(V).dot(M2[:, i, :])
            W = t if W is None else W + t
        V = W
        E += e1 + e2
        mb = max(abs(int(x)).bit_length() for x in V.ravel())
        V = np.array([0 if abs(int(x)).bit_length() < mb - 1075 else int(x) for x in V.ravel()], dtype=object).reshape(V.shape)
        g = 0
        for x in V.ravel():
            g |= abs(int(x))
        if g:
            t = (g & -g).bit_length() - 1
            if t:
                V = np.array([int(x) >> t for x in V.ravel()], dtype=object).reshape(V.shape)
                E += t
    return int(V[0, 0]), E


def underflow_family(tn, kind, inp):
    """the known finding, and nothing else: some rank component of a partial product lies more than 2^1060 below the
    largest one AND the implementation's result is the one obtained by flushing such components to 0 (rel. 1e-6)"""
    try:
        if kind not in ('accuracy', 'mul_scalar', 'norm'):
            return False
        I1 = ints_of(tts(inp[0]))
        I2 = I1 if (kind == 'norm' or inp[1] is None) else ints_of(tts(inp[1]))
        a = tt_np(tts(inp[0]))
        b = a if (kind == 'norm' or inp[1] is None) else tt_np(tts(inp[1]))
        if kind == 'accuracy':
            S = ints_sub(I1, I2)
            if bond_spread(S, S) <= 1060:
                return False
            ok, r = call(tn.accuracy, a, b)
            N1, N2 = flushed_dot(S, S), exact_dot(I2, I2)
            if not ok or N2[0] <= 0:
                return False
            if N1[0] <= 0:
                return float(r) == 0.0
            m, e = dy_ratio(N1, N2)
            rm, re = me_sqrt(m, e)
            want = me_float(rm, re)
            return math.isfinite(want) and abs(float(r) - want) <= 1e-6 * want
        if bond_spread(I1, I2) <= 1060:
            return False
        ok, r = call(tn.mul_scalar, a, b, use_stab=True)
        if not ok:
            return False
        S, E = flushed_dot(I1, I2)
        m, e = canon(float(r[0]))
        if S == 0 or m == 0:
            return S == 0 and m == 0
        return rel_diff(m, e + int(r[1]), S, E) <= 1e-6
    except Exception:       # noqa
        return False


def _variants(rng_seed, A):
    """the same core in other documented forms (values unchanged): F order, non-contiguous view, and - when the values
    allow it - int64 / float32 dtype"""
    out = [('F', np.asfortranarray(A))]
    big = np.zeros((A.shape[0], 2 * A.shape[1], A.shape[2] + 1))
    big[:, ::2, :A.shape[2]] = A
    out.append(('noncontig', big[:, ::2, :A.shape[2]]))
    if np.all(A == np.round(A)) and np.all(np.abs(A) < 2 ** 40):
        out.append(('int64', A.astype(np.int64)))
    if np.all(A.astype(np.float32).astype(float) == A):
        out.append(('float32', A.astype(np.float32)))
    return out


def _same_vp(a, b, tol=0.0):
    if tol == 0.0:
        return same_float(a[0], b[0]) and float(a[1]) == float(b[1])
    x, y = float(a[0]), float(b[0])
    if x == 0 or y == 0 or not (math.isfinite(x) and math.isfinite(y)):
        return x == y
    return (x > 0) == (y > 0) and abs((math.log2(abs(x)) + float(a[1])) - (math.log2(abs(y)) + float(b[1]))) <= tol


def chk_forms(tn, inp):
    """argument forms: every documented form of the arguments gives the answer of the canonical form (float64 C-ordered
    cores in a list, Python scalars); exact equality wherever the arithmetic is the same, exact distance otherwise"""
    Y1, Y2 = tts(inp[0]), tts(inp[1])
    k, e = int(inp[2]), float(inp[3])
    a, b = tt_np(Y1), tt_np(Y2)
    d = len(a)
    ok, ref = call(tn.mul_scalar, a, b, use_stab=True)
    okn, refn = call(tn.norm, a, use_stab=True)
    oka, refa = call(tn.accuracy, a, b)
    okp, refp = call(tn.mul_scalar, a, b)
    if not (ok and okn and oka and okp):
        return F('canonical call raised', repr([ref, refn, refa, refp])[:200])
    fewbit = all(G.cs is not None for G in Y1 + Y2)
    forms = dict(canonical=a)
    for name in ('F', 'noncontig', 'int64', 'float32'):
        vs = [dict(_variants(0, G)).get(name) for G in a]
        if all(v is not None for v in vs):
            forms[name] = vs
    forms['tuple'] = tuple(a)
    forms['mixed'] = [dict(_variants(0, G)).get('int64', G) if j % 2 else np.asfortranarray(G) for j, G in enumerate(a)]
    for name, av in forms.items():
        # few-bit entries: every sum is exact, so another memory layout / dtype gives the identical result; generic 53-bit
        # entries: np.sum over another layout may round differently (1e-12 in log2); float32 cores are contracted in float32
        tol = 1e-4 if name == 'float32' else (0.0 if fewbit or name in ('canonical', 'tuple') else 1e-12)
        for flag in (True, 1, np.bool_(True)):
            ok1, r = call(tn.mul_scalar, av, b, use_stab=flag)
            if not ok1 or not _same_vp(r, ref, tol):
                return F(f'mul_scalar(use_stab={flag!r}) on cores in form {name} differs from the canonical form', repr(r)[:80], repr(ref)[:80])
            ok1, r = call(tn.norm, av, use_stab=flag)
            if not ok1 or not _same_vp(r, refn, tol):
                return F(f'norm(use_stab={flag!r}) on cores in form {name} differs from the canonical form', repr(r)[:80], repr(refn)[:80])
        for flag in (False, 0, np.bool_(False)):
            ok1, r = call(tn.mul_scalar, av, b, use_stab=flag)
            if not ok1 or isinstance(r, tuple):
                return F(f'mul_scalar(use_stab={flag!r}) does not return the plain scalar', repr(r)[:80])
            if not math.isfinite(float(refp)):
                continue        # the plain computation is out of range: nothing to compare
            if not (same_float(r, refp) if not tol else abs(float(r) - float(refp)) <= max(tol, 1e-9) * abs(float(refp))):
                return F(f'mul_scalar(use_stab={flag!r}) on cores in form {name} differs from the plain result', repr(r)[:80], repr(refp)[:80])
        ok1, r = call(tn.accuracy, av, b)
        if not ok1 or not (same_float(r, refa) if not tol else abs(float(r) - float(refa)) <= (1e-3 if name == 'float32' else 1e-6) * max(abs(float(refa)), 1e-3)):
            return F(f'accuracy on cores in form {name} differs from the canonical form', repr(r)[:80], refa)
        # orthogonalize / truncate: the LAPACK calls may round differently for another memory layout: exact distance
        if d >= 2:
            I = ints_of(Y1)
            for kk in (k, np.int64(k), np.int32(k)):
                ok1, r = call(tn.orthogonalize, av, kk, use_stab=np.bool_(True) if name == 'tuple' else True)
                if not ok1 or not (isinstance(r, tuple) and isinstance(r[1], (int, np.integer)) and shapes_ok(r[0], Y1) and all_finite(r[0])):
                    return F(f'orthogonalize(k={kk!r}, use_stab=True) on cores in form {name} fails', repr(r)[:80])
                rel, _ = exact_rel_dist([np.asarray(G, dtype=float) for G in r[0]], int(r[1]), I)
                if rel is not None and not rel <= (TOL if name != 'float32' else 1e-5):
                    return F(f'orthogonalize(k={kk!r}, use_stab=True) on cores in form {name}: 2^p Z differs from Y', rel)
            for ee, rr in ((e, 1e12), (np.float64(e), np.int64(10 ** 6)), (e, 10 ** 6)):
                ok1, W = call(tn.truncate, av, ee, rr, use_stab=1 if name == 'tuple' else True)
                if not ok1 or not (shapes_ok(W, Y1) and all_finite(W)):
                    return F(f'truncate(e={ee!r}, r={rr!r}, use_stab=True) on cores in form {name} fails', repr(W)[:80])
                rel, _ = exact_rel_dist([np.asarray(G, dtype=float) for G in W], 0, I)
                if rel is not None and not rel <= e * (1 + 1e-6) + (2e-7 if name != 'float32' else 1e-5):
                    return F(f'truncate(use_stab=True) on cores in form {name}: result farther from Y than e', rel, e)
    # core_stab: scalar types of p0 and thr, explicit default
    G = a[0]
    ok0, r0 = call(tn.core_stab, G.copy(), 7)
    for p0 in (np.int64(7), np.int32(7), np.array(7)):
        for extra in ((), (0.,), (np.float64(0.),), (np.float32(0.),)):
            ok1, r = call(tn.core_stab, G.copy(), p0, *extra)
            if not (ok0 and ok1) or not (np.array_equal(r[0], r0[0]) and int(r[1]) == int(r0[1])):
                return F(f'core_stab(G, {p0!r}, *{extra!r}) differs from core_stab(G, 7)', repr(r)[:80], repr(r0)[:80])
    return None


def chk_history(tn, inp):
    """the same argument objects through several calls of every routine, interleaved: every call returns what the first
    call on a fresh copy returns, and the arguments are bit-identical afterwards"""
    Y1, Y2 = tts(inp[0]), tts(inp[1])
    k, e = int(inp[2]), float(inp[3])
    a, b = tt_np(Y1), tt_np(Y2)
    saved = [G.tobytes() for G in a] + [G.tobytes() for G in b]
    fresh = lambda Y: [G.copy() for G in Y]     # noqa
    calls = [('mul_scalar', lambda x, y: tn.mul_scalar(x, y, use_stab=True)), ('norm', lambda x, y: tn.norm(x, use_stab=True)),
             ('accuracy', lambda x, y: tn.accuracy(x, y)), ('orthogonalize', lambda x, y: tn.orthogonalize(x, k, use_stab=True)),
             ('truncate', lambda x, y: tn.truncate(x, e, use_stab=True)), ('core_stab', lambda x, y: tn.core_stab(x[0], 3)),
             ('norm2', lambda x, y: tn.norm(y, use_stab=True)), ('accuracy_rev', lambda x, y: tn.accuracy(y, x))]
    if len(a) < 2:
        calls = [c for c in calls if c[0] not in ('orthogonalize', 'truncate')]

    def flat(r):
        if isinstance(r, tuple):
            return [flat(x) for x in r]
        if isinstance(r, list):
            return [np.asarray(G).tobytes() for G in r]
        if isinstance(r, np.ndarray):
            return r.tobytes()
        return float(r).hex() if isinstance(r, (float, np.floating)) else r
    refs = {}
    for name, f in calls:
        ok, r = call(f, fresh(a), fresh(b))
        if not ok:
            return F(f'{name} raised on a fresh copy', repr(r)[:80])
        refs[name] = flat(r)
    for rnd in range(3):
        order = calls if rnd != 1 else list(reversed(calls))
        for name, f in order:
            ok, r = call(f, a, b)
            if not ok or flat(r) != refs[name]:
                return F(f'{name}: call number {rnd + 1} on the same argument objects differs from the call on a fresh copy',
                         repr(r)[:80])
            if [G.tobytes() for G in a] + [G.tobytes() for G in b] != saved:
                return F(f'{name} modified its arguments (call number {rnd + 1})')
    return None


def _lg_range(G):
    nz = np.abs(G.arr[G.arr != 0])
    return (floor_log2(nz.max()), floor_log2(nz.min())) if nz.size else None


def sqrt_range_family(kind, inp):
    """the known finding C16/entries-beyond-sqrt-range, and nothing else: all entries finite and (a) some core has a non-zero
    entry with |floor(log2)| > 511, or (b) two cores that get multiplied before any rescaling - adjacent cores of one tensor
    (orthogonalize / truncate: R-factor times next core, sizes included) or the cores at the same position of the two arguments
    (mul_scalar / accuracy; the same tensor twice for norm) - have entries whose product leaves [2^-1022, 2^1021]"""
    slots = dict(mul_scalar=[0, 1], norm=[0], accuracy=[0, 1], orth=[0], truncate=[0], truncate4=[0], shift=[0, 1], forms=[0, 1], history=[0, 1]).get(kind)
    if not slots:
        return False
    try:
        Ys = [tts(inp[i]) for i in slots if inp[i] is not None]
        if not all(np.all(np.isfinite(G.arr)) for Y in Ys for G in Y):
            return False
        R = [[_lg_range(G) for G in Y] for Y in Ys]
        if any(r is not None and (abs(r[0]) > 511 or abs(r[1]) > 511) for Rs in R for r in Rs):
            return True

        def out(a, b):
            return a is not None and b is not None and (a[0] + b[0] > 1018 or a[1] + b[1] < -1022)
        for Rs in R:
            if any(out(Rs[j], Rs[j + 1]) for j in range(len(Rs) - 1)):
                return True
        if len(R) == 2 and any(out(x, y) for x, y in zip(R[0], R[1])):
            return True
    except Exception:       # noqa
        pass
    return False


def chk_truncate4(tn, inp):
    """truncate over all four combinations use_stab x is_eigh on a tensor with a component just above the requested accuracy
    and one just below the per-step threshold: at scale 1 all four, and the two stabilised ones on exact power-of-two
    rescalings of the cores (shift lists).  Every result: finite, within e of the (rescaled) tensor by exact big-integer
    distance, ranks equal to those of the unstabilised default call at scale 1."""
    Y, e, shifts = tts(inp[0]), float(inp[1]), inp[2]
    # options: compare the ranks (not for flat clusters: which of several equal singular values goes is a tie, +-1 per bond);
    # run the unstabilised calls (only where the plain computation is representable: the tensor is at scale 1)
    chk_ranks, plain = (bool(inp[3][0]), bool(inp[3][1])) if len(inp) > 3 else (True, True)
    ok, W0 = call(tn.truncate, tt_np(Y), e, use_stab=not plain)
    if not ok or not shapes_ok(W0, Y):
        return F('truncate(Y, e) raised or returned malformed cores', repr(W0)[:80])
    ranks = [G.shape[2] for G in W0]
    runs = [(None, us, ie) for us in ((False, True) if plain else (True,)) for ie in (True, False)]
    runs += [(sh, True, ie) for sh in shifts for ie in (True, False)]
    for sh, us, ie in runs:
        Ys = Y if sh is None else scaled(Y, sh)
        tag = f'truncate(use_stab={us}, is_eigh={ie}) at per-core scales 2^{sorted(set(sh)) if sh else [0]}'
        ok, W = call(tn.truncate, tt_np(Ys), e, use_stab=us, is_eigh=ie)
        if not ok:
            return F(tag + ' raised ' + repr(W)[:80])
        if not (isinstance(W, list) and shapes_ok(W, Ys)) or not all_finite(W):
            return F(tag + ': malformed or non-finite cores')
        rel, _ = exact_rel_dist(W, 0, ints_of(Ys))
        if rel is None or not rel <= e * (1 + 1e-6) + 2e-7:
            return F(tag + ': the result is farther from Y than the requested accuracy', rel, e,
                     ranks=[G.shape[2] for G in W], ranks_expected=ranks)
        if chk_ranks and [G.shape[2] for G in W] != ranks:
            return F(tag + ': ranks differ from those of the unstabilised default call at scale 1', [G.shape[2] for G in W], ranks)
    return None


CHECKS = dict(truncate4=chk_truncate4, core_stab=chk_core_stab, mul_scalar=chk_mul_scalar, norm=chk_norm, accuracy=chk_accuracy, shift=chk_shift,
              orth=chk_orth, truncate=chk_truncate, forms=chk_forms, history=chk_history)
TENSOR_SLOTS = dict(mul_scalar=[0, 1], norm=[0], accuracy=[0, 1], truncate=[0])     # truncate4: not shrunk (needs its grading)


def _run(tn, kind, inp, key=None):
    f = CHECKS[kind](tn, inp)
    if f:
        f.update(kind=kind, input=inp)
        if key:
            f['finding_key'] = key
    return f


def shrink(tn, kind, inp, budget=60):
    """drop blocks of consecutive cores (where the ranks allow it) while the failure persists"""
    slots = TENSOR_SLOTS.get(kind)
    if not slots:
        return inp
    cur = inp
    if len(cur[slots[0]]) > 400:
        budget = min(budget, 10)
    L = len(cur[slots[0]]) // 2
    while L >= 1 and budget > 0:
        i, changed = 0, False
        while i + L <= len(cur[slots[0]]) and len(cur[slots[0]]) - L >= 2 and budget > 0:
            okc = all(cur[s] is None or cur[s][i][0] == cur[s][i + L - 1][2] for s in slots)
            if okc:
                cand = list(cur)
                for s in slots:
                    if cand[s] is not None:
                        cand[s] = cand[s][:i] + cand[s][i + L:]
                budget -= 1
                try:
                    f = CHECKS[kind](tn, cand)
                except Exception:   # noqa
                    f = None
                if f:
                    cur, changed = cand, True
                    continue
            i += 1
        if not changed:
            L //= 2
    return cur


def hint_jobs(h):
    x = h.get('input') or []
    if not x:
        return []
    if x[0] == 'core_stab':
        return [('core_stab', [x[1], x[2], x[3]])]
    if x[0] == 'mul_scalar':
        return [('mul_scalar', [x[2], x[3], h.get('stream') == 'mulscal_exact'])]
    if x[0] == 'norm':
        return [('norm', [x[2], True]), ('mul_scalar', [x[2], None, True])]
    if x[0] == 'accuracy':
        return [('accuracy', [x[2], x[3]])]
    if x[0] == 'orthogonalize':
        return [('orth', [x[1], x[2]])]
    if x[0] == 'truncate':
        return [('truncate', [x[1], x[2], None, x[3]])]
    return []


def search_jobs(rng, th, deep):
    J = []
    mult = 4 if deep else 1
    dbig = 4000 if th else 300
    # --- core_stab: degenerate families first
    for fam in ['zero', 'one', 'pow2', 'below2', 'subnormal', 'huge', 'tiny'] + ['generic'] * (4 * mult):
        r1, n, r2 = rng.randint(1, 3), rng.randint(1, 3), rng.randint(1, 3)
        k = r1 * n * r2
        A = dict(zero=lambda: [0.0] * k, one=lambda: [1.0] + [0.5] * (k - 1),
                 pow2=lambda: [rng.choice([-1, 1]) * 2.0 ** rng.randint(-300, 300) for _ in range(k)],
                 below2=lambda: [math.nextafter(2.0, 0.0)] + [1.0] * (k - 1),
                 subnormal=lambda: [rng.randint(1, 2 ** 20) * 2.0 ** -1074 for _ in range(k)],
                 huge=lambda: [rng.uniform(-1, 1) * 2.0 ** rng.randint(960, 1023) for _ in range(k)],
                 tiny=lambda: [rng.uniform(-1, 1) * 2.0 ** rng.randint(-420, -330) for _ in range(k)],
                 generic=lambda: [rng.uniform(-1, 1) * 2.0 ** rng.randint(-80, 80) for _ in range(k)])[fam]()
        G = Core(r1, n, r2, arr=np.array(A).reshape(r1, n, r2))
        args = [] if rng.random() < 0.7 else [float(rng.choice([0.0, 1e-100, 1.0])).hex()]
        J.append(('core_stab', [G.desc(), rng.choice([0, 0, rng.randint(-40000, 40000)]), args]))
    # --- mul_scalar / norm: exact rank-1 families (zero product, d = 2, mode size 1, tiny / huge scales, long chains)
    for mode, d in [('up', 2), ('down', 2), ('tiny', 3), ('big', 3), ('zero', 4), ('unit', 9), ('mixed', 17), ('up', dbig),
                    ('down', dbig), ('mixed', dbig)] + [(rng.choice(['up', 'down', 'mixed']), rng.randint(2, dbig)) for _ in range(3 * mult)]:
        za = rng.randrange(d) if rng.random() < 0.15 else None
        Y1, Y2 = gen_r1_pair(rng, d, mode, zero_at=za)
        J.append(('mul_scalar', [tt_desc(Y1), tt_desc(Y2), True]))
        Y = gen_r1_self(rng, d, mode, zero_at=za)
        J.append(('norm', [tt_desc(Y), True]))
        J.append(('mul_scalar', [tt_desc(Y), None, True]))
    # --- higher ranks, generic 53-bit mantissas (positive entries: no cancellation), and few-bit entries with signs
    for mode, d in [('up', 2), ('down', 3), ('mixed', 6), ('up', 40), ('down', 120), ('mixed', dbig // 2)] + \
            [(rng.choice(['up', 'down', 'mixed', 'tiny']), rng.randint(2, 60)) for _ in range(2 * mult)]:
        Y1 = gen_float(rng, d, mode, rmax=3, nmax=2, lo=0.1)
        Y2 = gen_float(rng, d, mode, rmax=3, nmax=2, like=Y1, lo=0.1)
        J.append(('mul_scalar', [tt_desc(Y1), tt_desc(Y2), False]))
        J.append(('norm', [tt_desc(Y1), False]))
        Y3 = gen_small(rng, min(d, 200), mode, rmax=3)
        J.append(('norm', [tt_desc(Y3), False]))
    # --- rank 2 with components on different scale schedules (A + B against -(A + C)): every partial product of every
    #     pair of components is non-positive; the spread between components stays below 2^900 (clear of the known finding)
    for d, step in [(30, -12), (60, 7), (72, -6)] + ([(70, -6), (36, 12)] if deep or th else []):
        A = gen_float(rng, d, 'unit', rmax=1, nmax=2, lo=0.5)
        B = gen_float(rng, d, 'unit', rmax=1, nmax=2, like=A, lo=0.5)
        Cc = gen_float(rng, d, 'unit', rmax=1, nmax=2, like=A, lo=0.5)
        Bs, Cs = scaled(B, [step] * d), scaled(Cc, [step] * d)

        def plus(P, Q, sign):
            out = []
            for j, (G, H) in enumerate(zip(P, Q)):
                g, h = G.arr, H.arr
                if d == 1:
                    M = g + h
                elif j == 0:
                    M = np.concatenate([g, h], axis=2)
                elif j == d - 1:
                    M = np.concatenate([g, h], axis=0)
                else:
                    M = np.zeros((2, g.shape[1], 2))
                    M[:1, :, :1], M[1:, :, 1:] = g, h
                out.append(Core(M.shape[0], M.shape[1], M.shape[2], arr=(sign * M if j == 0 else M)))
            return out
        J.append(('mul_scalar', [tt_desc(plus(A, Bs, 1)), tt_desc(plus(A, Cs, -1)), False]))
        J.append(('mul_scalar', [tt_desc(plus(A, Bs, -1)), tt_desc(plus(A, Bs, 1)), False]))
    # --- accuracy: disjoint supports (ratio steered from 1 to beyond 2^501), unrelated, equal, zero Y2
    for lgt in [0, 3, 60, 250, 450, 498, 503, 640] + [rng.randint(0, 700) for _ in range(2 * mult)]:
        d = rng.choice([2, 3, 5, 9, 30])
        Y1 = gen_float(rng, d, 'unit', rmax=2, nmax=2, n0=2)
        Y2 = gen_float(rng, d, 'unit', rmax=2, nmax=2, like=Y1)
        Y1[0].arr[:, 1, :] = 0.0
        Y2[0].arr[:, 0, :] = 0.0
        J.append(('accuracy', [tt_desc(spread_shift(Y1, lgt)), tt_desc(Y2)]))
    for d, mode in [(2, 'mixed'), (3, 'up'), (7, 'down'), (40, 'mixed'), (dbig, 'up'), (dbig, 'down')][:6 if deep or th else 5]:
        # same scale schedule for both tensors: the rank components of Y1 - Y2 stay within 2^900 of each other at every bond
        Y1 = gen_float(rng, d, mode, rmax=2, nmax=2)
        Y2 = gen_float(rng, d, mode, rmax=2, nmax=2, like=Y1, same_scales=True)
        J.append(('accuracy', [tt_desc(Y1), tt_desc(Y2)]))
        J.append(('accuracy', [tt_desc(Y2), None]))
    # exact-threshold family: exponent gap of the two norms exactly at, one half-step below and above +-500 (P1 - P2 in
    # 998..1003), steered with exact big-integer norms (no call of the implementation): disjoint supports, and Y1 = 2^g * Y2
    for tgt in [998, 999, 1000, 1001, 1002, 1003] + ([1000, 1001, 1000] if deep or th else []):
        for _ in range(30):
            d = rng.choice([2, 3, 5, 9, 30] + ([dbig] if th else []))
            Y1 = gen_float(rng, d, 'unit', rmax=2, nmax=2, n0=2)
            Y2 = gen_float(rng, d, 'unit', rmax=2, nmax=2, like=Y1)
            Y1[0].arr[:, 1, :] = 0.0
            Y2[0].arr[:, 0, :] = 0.0
            Y1 = spread_shift(Y1, 40)
            I1, I2 = ints_of(Y1), ints_of(Y2)
            n1, n2 = exact_dot(I1, I1), exact_dot(I2, I2)
            if n1[0] == 0 or n2[0] == 0:
                continue
            nn = dy_sum([n1, n2])
            g0 = (nn[1] + nn[0].bit_length()) - (n2[1] + n2[0].bit_length())
            if (tgt - g0) % 2 == 0:
                J.append(('accuracy', [tt_desc(spread_shift(Y1, (tgt - g0) // 2)), tt_desc(Y2)]))
                break
    for g in (499, 500, 501):
        d = rng.choice([2, 4, 12, 60] + ([dbig] if th else []))
        Y2 = gen_float(rng, d, rng.choice(['up', 'down', 'mixed']), rmax=rng.choice([1, 2, 3]), nmax=2, lo=0.1)
        J.append(('accuracy', [tt_desc(spread_shift(Y2, g)), tt_desc(Y2)]))
    Y = gen_float(rng, 4, 'unit', rmax=2)
    J.append(('accuracy', [tt_desc(Y), tt_desc(with_zero_core(Y, 2))]))
    J.append(('accuracy', [tt_desc(spread_shift(Y, 1200)), tt_desc(with_zero_core(Y, 0))]))
    J.append(('accuracy', [tt_desc(spread_shift(Y, -1200)), tt_desc(with_zero_core(Y, 0))]))
    # equal tensors whose last core is tiny (the exponent of the vanishing difference misses that core)
    for k in (-505, -700 // 2):
        Y = gen_r1_self(rng, rng.choice([2, 3, 5]), 'unit')     # few-bit entries: the difference vanishes exactly
        J.append(('accuracy', [tt_desc(scaled(Y, [0] * (len(Y) - 1) + [k])), None]))
    J.append(('accuracy', [[[1, 2, 1, 0, [1, 1]], [1, 2, 1, -505, [1, 1]]], None]))     # the input of the repair 0f9009d
    # regression input of the known finding: a rank component that is 2^-1200 of the other one at an inner bond and
    # dominates at the end (d = 21, entries 2^+-60)
    A = [Core(1, 1, 1, k=-60, cs=[1]) for _ in range(10)] + [Core(1, 1, 1, k=60, cs=[1]) for _ in range(11)]
    B = [Core(1, 1, 1, k=0, cs=[1]) for _ in range(21)]
    J.append(('accuracy', [tt_desc(A), tt_desc(B)]))
    # regression inputs of the known finding C16/entries-beyond-sqrt-range (entries beyond 2^+-511)
    def full(v, k):
        return [Core(1, 2, 1, arr=np.full((1, 2, 1), v)).desc() for _ in range(k)]
    J.append(('orth', [full(2.0 ** -537, 3), 2], KEY_SQRT))
    J.append(('norm', [full(1e-160, 4), False], KEY_SQRT))
    J.append(('mul_scalar', [full(1e-160, 4), None, False], KEY_SQRT))
    J.append(('norm', [full(1.0, 1) + full(2.0 ** 600, 1), True], KEY_SQRT))
    J.append(('norm', [full(2.0 ** -1060, 1) + full(2.0 ** 100, 1), True], KEY_SQRT))
    J.append(('orth', [full(2.0 ** -1060, 1) + full(2.0 ** 100, 1), 1], KEY_SQRT))
    J.append(('truncate', [full(2.0 ** -531, 4), 1e-6, None, True], KEY_SQRT))
    # --- shift law
    for _ in range(6 * mult):
        d = rng.choice([2, 3, 6, 25, 120])
        j, s = rng.randrange(d), rng.choice([-300, -100, -7, -1, 1, 7, 100, 300])
        if rng.random() < 0.5:
            Y1 = gen_float(rng, d, rng.choice(['up', 'down', 'mixed']), rmax=3, nmax=2)
            Y2 = None if rng.random() < 0.5 else tt_desc(gen_float(rng, d, 'mixed', rmax=3, nmax=2, like=Y1))
        else:
            Y1, Y2 = gen_r1_pair(rng, d, rng.choice(['up', 'down', 'mixed']))
            Y2 = tt_desc(Y2)
        J.append(('shift', [tt_desc(Y1), Y2, j, s]))
    # --- argument forms and call histories (few-bit entries: int64 / float32 cores carry the same values)
    #     int64 cores: entries below 2^5, so that numpy's integer products cannot wrap around (they do, silently, beyond
    #     2^31: integer-dtype cores are not a documented form and are only exercised where integer arithmetic is exact)
    for d, mode in [(2, 'small'), (3, 'small'), (5, 'small'), (4, 'big')] + ([(7, 'small'), (3, 'tiny'), (6, 'mixed')] if deep or th else []):
        if mode == 'small':
            Y1 = gen_small(rng, d, 'unit', rmax=2, nmax=2)
            Y1 = [Core(G.r1, G.n, G.r2, k=abs(G.k), cs=list(G.cs)) for G in Y1]
            Y2 = same_shape(rng, Y1, mode='unit')
        else:
            Y1 = gen_float(rng, d, mode, rmax=2, nmax=2)
            Y2 = gen_float(rng, d, mode, rmax=2, nmax=2, like=Y1, same_scales=True)
        J.append(('forms', [tt_desc(Y1), tt_desc(Y2), rng.randrange(d), 0.25]))
        J.append(('history', [tt_desc(Y1), tt_desc(Y2), rng.randrange(d), 1e-3]))
    # --- scales: the whole input times 2^+-1000 (spread over the cores), one core times 2^+-480, d = 1, entries around
    #     2^-531 (every product of two entries is subnormal; few-bit mantissas, so everything stays exact), thresholds
    for t in (-1000, 1000, -640, 777):
        d = rng.choice([2, 3, 6, 20])
        Y1, Y2 = gen_r1_pair(rng, d, 'unit')
        J.append(('mul_scalar', [tt_desc(spread_shift(Y1, t)), tt_desc(Y2), True]))
        Y = gen_r1_self(rng, d, 'unit')
        J.append(('norm', [tt_desc(spread_shift(Y, t // 2)), True]))
        Yg = gen_float(rng, d, 'unit', rmax=2, nmax=2, lo=0.1)
        J.append(('norm', [tt_desc(spread_shift(Yg, t // 2)), False]))
        J.append(('orth', [tt_desc(spread_shift(Yg, t)), rng.randrange(d)]))
        J.append(('truncate', [tt_desc(spread_shift(Yg, t)), 1e-4, None, True]))
        J.append(('shift', [tt_desc(Yg), None, rng.randrange(d), rng.choice([-480, 480])]))
    for d in (1, 2, 3, 4):
        # exact although inside the sqrt-range family (power-of-two squared norms): must hold, never tagged as known (key False)
        Y = gen_r1_self(rng, d, 'sqsub')
        J.append(('norm', [tt_desc(Y), True], False))
        J.append(('mul_scalar', [tt_desc(Y), None, True], False))
    for d in (1, 1, 2):
        Y = gen_float(rng, d, rng.choice(['up', 'down', 'tiny', 'big']), rmax=1, nmax=3)
        J.append(('norm', [tt_desc(Y), False]))
        J.append(('mul_scalar', [tt_desc(Y), tt_desc(gen_float(rng, d, 'unit', rmax=1, like=Y, lo=0.1)), False]))
        if d >= 2:      # accuracy needs d >= 2 (act_two.sub of one-core tensors is not a TT-tensor; the property starts at d = 2)
            J.append(('accuracy', [tt_desc(Y), tt_desc(gen_float(rng, d, 'unit', rmax=1, like=Y))]))
    for A in ([2.0 ** -1022, 0.0], [math.nextafter(2.0 ** -1022, 0.0), -2.0 ** -1074], [2.0 ** -1074, 0.0], [-3 * 2.0 ** -1074, 2.0 ** -1074],
              [1e-160, -3e-161], [2.0 ** 1023, -2.0 ** 1000]):
        G = Core(1, 2, 1, arr=np.array(A).reshape(1, 2, 1))
        J.append(('core_stab', [G.desc(), rng.choice([0, -31000]), []]))
        J.append(('core_stab', [G.desc(), 0, [float(abs(A[0])).hex()]]))      # threshold hit exactly: unchanged
        J.append(('core_stab', [G.desc(), 0, [float(math.nextafter(abs(A[0]), 0.0)).hex()]]))   # just below the maximum
    # --- orthogonalize / truncate with use_stab
    for d, mode in [(2, 'up'), (2, 'tiny'), (3, 'down'), (6, 'mixed'), (40, 'up'), (120, 'down'), (dbig, 'mixed')] + \
            [(rng.randint(2, 30), rng.choice(['up', 'down', 'mixed'])) for _ in range(2 * mult)]:
        Y = gen_any(rng, d, mode, rmax=3 if d <= 40 else 2)
        J.append(('orth', [tt_desc(Y), rng.choice([0, d - 1, rng.randrange(d)])]))
    J.append(('orth', [tt_desc(gen_small(rng, 3, 'unit')), 3]))
    J.append(('orth', [tt_desc(with_zero_core(gen_float(rng, 4, 'mixed'), 1)), 3]))
    for d, mode, e in [(2, 'up', 1e-2), (3, 'down', 1e-5), (4, 'tiny', 1e-3), (10, 'mixed', 1e-2), (40, 'up', 1e-4), (dbig // 2, 'down', 1e-2)] + \
            [(rng.randint(2, 20), rng.choice(['up', 'down', 'mixed']), rng.choice([1e-1, 1e-3, 1e-5])) for _ in range(2 * mult)]:
        Y = gen_any(rng, d, mode, rmax=3 if d <= 40 else 2)
        J.append(('truncate', [tt_desc(Y), e, None, rng.random() < 0.7]))
    # long chains: the exponent p collected by the orthogonalisation is spread over d > 1024 cores; the total exponent
    # is moved around by an extra factor 2 on the first m cores (p mod d takes values all over 0..d-1)
    for d in ([1500, 2400] if not (deep or th) else [1100, 1500, 2000, 3000]):
        Y = gen_float(rng, d, rng.choice(['up', 'down', 'unit']), rmax=2, nmax=2)
        for m in ([rng.randrange(d // 3), d // 3 + rng.randrange(d // 3), (2 * d) // 3 + rng.randrange(d // 3)]
                  if not (deep or th) else [0, d // 5, (3 * d) // 5, (4 * d) // 5]):
            Ym = scaled(Y, [1 if j < m else 0 for j in range(d)])
            J.append(('truncate', [tt_desc(Ym), 1e-6, None, True, not (th and m == 0)]))
    # all four flag combinations on graded tensors (a component at 1.2e .. 2e, one at 0.3 .. 0.6 of the per-step threshold),
    # d = 2 .. 10, mode sizes 3 .. 9, per-core scales 2^0, 2^+-300, 2^+-400 and mixed
    for d in ([2, 3, 4, 6] if not (deep or th) else [2, 2, 3, 4, 5, 7, 10]):
        e = rng.choice([1e-2, 1e-3, 1e-4])
        Y = gen_graded(rng, d, rng.choice([3, 5, 8, 9]), e, rng.choice([1.2, 1.5, 2.0]), rng.choice([0.3, 0.6]))
        shifts = [[k] * d for k in rng.sample([300, -300, 400, -400], 2)] + [[rng.choice([-400, -300, 0, 300, 400]) for _ in range(d)]]
        J.append(('truncate4', [tt_desc(Y), e, shifts]))
    # flat clusters just below the per-step threshold (cumulative tail criterion), d = 2, 3 and a longer chain with large end modes
    for d, k in ([(2, 2), (2, 5), (3, 3), (3, 8), (6, 12)] if not (deep or th) else
                 [(2, 2), (2, 3), (2, 5), (2, 12), (3, 3), (3, 4), (3, 8), (4, 6), (6, 12), (8, 12)]):
        e = rng.choice([1e-2, 1e-3, 1e-4])
        Y = gen_flat(rng, d, e, k, rng.choice([0.6, 0.75, 0.9, 0.95]))
        shifts = [[kk] * d for kk in rng.sample([300, -300, 400, -400], 1)] + [[rng.choice([-400, -300, 0, 300, 400]) for _ in range(d)]]
        J.append(('truncate4', [tt_desc(Y), e, shifts, [False, True]]))
    # square unfoldings that are genuinely reduced (Y = T + T, every sweep step sees a 2r x 2r matrix of rank r)
    for d, r in ([(2, 1), (2, 2), (3, 2), (5, 3), (30, 2)] if not (deep or th) else
                 [(2, 1), (2, 2), (2, 3), (3, 1), (3, 2), (4, 3), (7, 2), (30, 2), (dbig // 2, 2)]):
        if d <= 30:
            Y = gen_square(rng, d, r, 'unit')       # scale 1: the unstabilised calls are representable
            shifts = [[kk] * d for kk in rng.sample([300, -300, 400, -400], 1)]
            J.append(('truncate4', [tt_desc(Y), rng.choice([1e-6, 1e-3]), shifts, [True, True]]))
        else:
            Y = gen_square(rng, d, r, rng.choice(['up', 'down']))      # norm far outside the double range: stabilised calls only
            J.append(('truncate4', [tt_desc(Y), 1e-6, [], [True, False]]))
    J.append(('truncate', [tt_desc(gen_float(rng, 5, 'mixed', rmax=3)), 1e-8, 1, True]))
    J.append(('truncate', [tt_desc(with_zero_core(gen_float(rng, 4, 'mixed'), 2)), 1e-3, None, True]))
    return J


def search(R, ctx, deep, hints):
    tn = C.import_teneva()
    rng, th = ctx['rng'], ctx['thorough']
    jobs = []
    for h in hints[:40]:
        jobs += hint_jobs(h)
    nh = len(jobs)
    jobs += search_jobs(rng, th, deep)
    fails, by_kind, nknown = [], {}, 0
    for n, job in enumerate(jobs):
        kind, inp, key = job if len(job) == 3 else job + (None,)
        by_kind[kind] = by_kind.get(kind, 0) + 1
        f = _run(tn, kind, inp, key or None)
        if not f:
            continue
        if key is False:
            pass
        elif not f.get('finding_key') and underflow_family(tn, kind, inp):
            f['finding_key'] = KEY_UNDERFLOW
        if key is not False and not f.get('finding_key') and sqrt_range_family(kind, inp):
            f['finding_key'] = KEY_SQRT
        if f.get('finding_key'):
            nknown += 1
        else:
            small = shrink(tn, kind, inp)
            if small is not inp:
                f = _run(tn, kind, small) or f
        f['from_hint'] = n < nh
        fails.append(f)
        if len([x for x in fails if not x.get('finding_key')]) >= 5:
            break
    R.search.append(dict(name='big-integer reference of every clause on the implementation', evaluations=sum(by_kind.values()),
                         failures=len(fails) - nknown, deep=deep, by_kind=by_kind, from_hints=nh, known_finding_hits=nknown))
    return fails


def json_short(x, n=600):
    import json
    s = json.dumps(x, default=str)
    return s if len(s) <= n else s[:n] + '...'


def replay(data):
    tn = C.import_teneva()
    p = data.get('payload')
    print(data.get('what'))
    if isinstance(p, dict) and p.get('kind') in CHECKS:
        f = _run(tn, p['kind'], p['input'], p.get('finding_key'))
        print('input:', json_short(p['input'], 2000))
        print('replayed:', {k: v for k, v in (f or {}).items() if k not in ('input',)} or 'no failure')
        return 1 if f else 0
    # a broken proof / correspondence without a failing input: re-run the hinted inputs through the oracles
    still = 0
    for h in (p or {}).get('hints', []) if isinstance(p, dict) else []:
        for kind, inp in hint_jobs(h):
            f = _run(tn, kind, inp)
            if f:
                still += 1
                print('hint fails:', kind, f['what'])
    print('broken:', (p or {}).get('broken') if isinstance(p, dict) else p)
    print('no replayable input in this file: re-run ./check C16 to re-evaluate the proof obligations and the correspondence'
          if not still else f'{still} hinted inputs still fail')
    return 1
