"""C18 — grid index <-> point maps, scaling, option handling, grid_flat, cdf_getter."""
import itertools
import math
from fractions import Fraction as Fr

import numpy as np
from harness import common as C

THEOREMS = 'Properties/C18.v'
CLAIM = dict(
    text='Coq theorems about the model Model/GridPoi.v (+ grid_flat of Model/GridInd.v). At Coq Reals, for every box '
         'a<b, every n>=2, every index, uniform and Chebyshev (cos/acos/PI the real functions, np.rint modelled '
         'exactly as round-half-to-even on top of floor): end points, nodes lie in the box, '
         'poi_to_ind(ind_to_poi(i)) = i coordinate-wise and for whole multi-indices with per-dimension options, '
         'the value handed to rint is exactly i and any perturbation < 1/2 of it leaves the index unchanged '
         '(roundtrip_margin), every real point goes to a nearest integer of its grid parameter (ties to even; '
         'nearest in space on the uniform grid), points outside the box go to the boundary index, the three '
         'scalings are the stated affine maps followed by clipping. For every number type: scalar = '
         'per-dimension options, batch = map of singles, mismatching declared lengths => Err ValueError '
         '(grid_prep_opts; a/b/n of ind_to_poi; a/b of poi_scale; a/b/n of poi_to_ind for every dimension d: '
         'poi_to_ind_rejects_n, poi_to_ind_rejects, never succeeds whatever a/b/kind: poi_to_ind_rejects_n_never_ok; '
         'batches [m,d] are rejected as their rows: batch_rejects). The model of poi_to_ind is the repaired code (n goes through '
         'grid_prep_opts(None, None, n, d, m), /repo bc9fc68); for the pinned variant (n prepared by grid_prep_opt alone) '
         'the finding is machine-checked: it accepted every list n of length <> 1 when d = 1 '
         '(poi_to_ind_pinned_accepts_n_d1, witness poi_to_ind_pinned_refuted) and agrees with the code on every '
         'well-formed n (poi_to_ind_pinned_same). grid_flat: NoDup, length = '
         'product, rows = exactly the in-range multi-indices, row t = mixed-radix digits of t, first index fastest. '
         'cdf = #{x_i<=z}/m for every total preorder; at R monotone, right-continuous, 0/1 limits, jumps >= 1/m.',
    note='NOT proved: that binary64 evaluation stays inside the 1/2 margin of roundtrip_margin for a given box '
         '(no floating-point error analysis); this is enumerated on the implementation instead (every index of '
         'every grid with n<=24 quick / 64 thorough over a family of boxes, under the stated precondition that '
         'adjacent nodes differ by >= 2^10 ulp(max(|a|,|b|)); end points / in-box to 4 ulp). '
         'Modelled domain: options are None / Python scalar / 1-D list or ndarray (a TUPLE is not validated by '
         'grid_prep_opts and is outside the model and outside the documented argument types), n integral, batches '
         'non-empty and rectangular, grid_flat mode sizes >= 1; linspace(1/m,1,m) of cdf_getter is modelled by its '
         'exact values k/m. A missing bound (a or b None) is a TypeError before n is looked at; the rejection theorems '
         'for poi_to_ind say so (hypotheses a, b <> None, or: the call never succeeds). Cross-cutting families validated '
         'numerically (search; exact correspondence where the Qc model expresses them): option arrays of the exact target dtype '
         'reused across calls stay bit-identical, argument forms (np.float64 / list / ndarray / int32 ndarray must agree; numpy integer '
         'scalars and 0-d arrays may raise, never a different answer), scales (boxes with a, b = +-2^+-500 and 2^+-1000, the narrowest '
         'boxes the precondition admits at offset 2^40 - width 2^-40 there violates the precondition and is out -, bit-exact '
         'equivariance under power-of-two rescaling, n = 2 and n = 2^20, 2^20 + 1); subnormal boxes are out (result not representable).',
    technique='Coq proof (Reals: lra/nra/field, acos_cos; lists: induction) + exact model/implementation '
              'correspondence over Qc on dyadic inputs + exhaustive enumeration of the round trip on the implementation')
TRUSTED = ['Coq 8.16.1 kernel + vm_compute (case evaluation only); Reals axioms of the standard library',
           'hand-written model Model/GridPoi.v tied to grid.py / stat.py by exact correspondence over Qc',
           'numpy semantics: broadcasting, masked assignment, np.rint = round half to even, np.repeat/reshape, '
           'meshgrid + reshape(order=F), sort + searchsorted(right), linspace values k/m up to rounding',
           'np.cos / np.arccos / np.pi are within a few ulp of cos / acos / PI (oracle values fed to the Qc model '
           'are computed by the harness with numpy)',
           'binary64 rounding of the four-operation node / parameter expressions (enumerated, not proved)']
ASSUMPTIONS = ['grids enumerated on the implementation satisfy: adjacent nodes differ by >= 2^10 ulp(max(|a|,|b|))']
TIME_LIMIT = {'quick': 900, 'thorough': 5400}
# `Print Assumptions` prints the header line "Axioms:" before the list; common.print_assumptions (shared, not edited
# here) parses that header as if it were an axiom name.  Only the header word is whitelisted; the axioms themselves
# are still compared with the allow-list of DESIGN.md section 8.  To be removed once the parser skips the header.
C.ALLOWED_AXIOMS.add('Axioms')

HEADER = r'''From Coq Require Import List ZArith QArith Qcanon.
From TV Require Import Num.Ops Lin.Tab Model.GridInd Model.GridPoi.
Import ListNotations.
Open Scope Z_scope.
Definition q (a : Z) (b : positive) : Qc := Q2Qc (a # b).
Definition sq (x : Qc) : list Z := [Qnum (this x); Zpos (Qden (this x))].
Definition idQ (x : Qc) : Qc := x.
Fixpoint lookup (tbl : list (Qc * Qc)) (x : Qc) : Qc :=
  match tbl with [] => q 0 1 | (k, v) :: t => if Qc_eqb k x then v else lookup t x end.
Definition shQ1 (r : result (list Qc)) : list (list Z) :=
  match r with Ok l => [0] :: map sq l | Err e => [[err_code e]] end.
Definition shQ2 (r : result (list (list Qc))) : list (list Z) :=
  match r with Ok l => [0] :: map (flat_map sq) l | Err e => [[err_code e]] end.
Definition shZ1 (r : result (list Z)) : list (list Z) :=
  match r with Ok l => [[0]; l] | Err e => [[err_code e]] end.
Definition shZ2 (r : result (list (list Z))) : list (list Z) :=
  match r with Ok l => [0] :: l | Err e => [[err_code e]] end.
Definition encP (p : parr Z) : list Z :=
  match p with
  | PNone => [-1]
  | P1 l => 1 :: Z.of_nat (length l) :: l
  | P2 ll => 2 :: Z.of_nat (length ll) :: flat_map (fun r => Z.of_nat (length r) :: r) ll
  end.
Definition shP (r : result (parr Z * parr Z * parr Z)) : list (list Z) :=
  match r with Ok (a, b, n) => [[0]; encP a; encP b; encP n] | Err e => [[err_code e]] end.
Definition shP1 (r : result (parr Z)) : list (list Z) :=
  match r with Ok a => [[0]; encP a] | Err e => [[err_code e]] end.
Definition shN (l : list (list nat)) : list (list Z) := map (map Z.of_nat) l.
Definition shC (r : result Qc) : list (list Z) := match r with Ok x => [[0]; sq x] | Err e => [[err_code e]] end.
'''


# ----------------------------------------------------------------------------------------------------------
# literals and normalisation
# ----------------------------------------------------------------------------------------------------------

def ql(x):
    x = Fr(x)
    return f'(q {C.zlit(x.numerator)} {x.denominator})'


def qlist(xs):
    return '[' + '; '.join(ql(x) for x in xs) + ']'


def gopt(x, leaf):
    if x is None:
        return 'GNone'
    if isinstance(x, (list, tuple)):
        return '(GVec [' + '; '.join(leaf(v) for v in x) + '])'
    return f'(GSc {leaf(x)})'


def kindlit(k):
    if k == 'uni':
        return 'KUni'
    if k == 'cheb':
        return 'KCheb'
    if isinstance(k, (list, tuple)) and len(k) == 2:
        return f'(KLim {ql(k[0])} {ql(k[1])})'
    return 'KBad'


def fq(x):
    f = Fr(float(x))
    return [f.numerator, f.denominator]


def impl_q1(f, *a):
    """float vector result -> [[0], [num, den], ...]"""
    try:
        v = np.asarray(f(*a), dtype=float)
        return [[0]] + [fq(x) for x in v.reshape(-1)]
    except Exception as e:
        return [[C.errclass(e)]]


def impl_q2(f, *a):
    try:
        v = np.asarray(f(*a), dtype=float)
        return [[0]] + [[t for x in row for t in fq(x)] for row in v]
    except Exception as e:
        return [[C.errclass(e)]]


def impl_z1(f, *a):
    try:
        v = np.asarray(f(*a))
        assert v.dtype.kind == 'i', f'integer result expected, got dtype {v.dtype}'
        return [[0], [int(x) for x in v.reshape(-1)]]
    except AssertionError:
        raise
    except Exception as e:
        return [[C.errclass(e)]]


def impl_z2(f, *a):
    try:
        v = np.asarray(f(*a))
        assert v.dtype.kind == 'i', f'integer result expected, got dtype {v.dtype}'
        return [[0]] + [[int(x) for x in row] for row in v]
    except AssertionError:
        raise
    except Exception as e:
        return [[C.errclass(e)]]


def enc_parr(v, want_kind):
    if v is None:
        return [-1]
    v = np.asarray(v)
    if v.dtype.kind != want_kind:
        return [-99, str(v.dtype)]
    if v.ndim == 1:
        return [1, v.shape[0]] + [int(x) for x in v]
    if v.ndim == 2:
        out = [2, v.shape[0]]
        for row in v:
            out += [len(row)] + [int(x) for x in row]
        return out
    return [-98, v.ndim]


def fl_or_none(x):
    if x is None:
        return None
    if isinstance(x, list):
        return [float(v) for v in x]
    return float(x)


def ulp(x):
    return math.ulp(abs(float(x))) if x != 0 else math.ulp(0.0)


def scale_ulp(a, b):
    return math.ulp(max(abs(a), abs(b)))


# dyadic boxes for the exact-rational model (floats are dyadic; these keep numerators / denominators small)
DY_BOXES = [
    ('unit', 0.0, 1.0), ('sym', -1.0, 1.0), ('asym', -3.5, 0.25), ('neg', -7.25, -2.5),
    ('offset', 2.0 ** 20, 2.0 ** 20 + 1.0), ('offset-neg', -(2.0 ** 20) - 0.5, -(2.0 ** 20) + 1.5),
    ('tiny', 0.0, 2.0 ** -30), ('tiny-off', 2.0 ** -30, 3 * 2.0 ** -30), ('huge', -(2.0 ** 30), 3 * 2.0 ** 30),
    ('odd', 0.125, 7.375),
    # huge offset relative to the width, every node an exact double (stream 4 skips them: its precondition fails)
    ('off2^52', 2.0 ** 52, 2.0 ** 52 + 32.0), ('off-2^52', -(2.0 ** 52), -(2.0 ** 52) + 32.0), ('off2^40', 2.0 ** 40, 2.0 ** 40 + 32.0),
]
# boxes for the enumeration on the implementation
BOXES = [
    ('unit', 0.0, 1.0), ('sym', -1.0, 1.0), ('asym', -3.5, 0.25), ('asym2', 0.1, 7.3), ('neg', -7.25, -2.5),
    ('offset1e6', 1e6, 1e6 + 1.0), ('offset-neg', -1e6 - 0.3, -1e6 + 0.7), ('offset-frac', 123456.789, 123457.789),
    ('tiny', 0.0, 1e-9), ('tiny-off', 1e-9, 2e-9), ('tiny-sym', -1e-9, 1e-9),
    ('huge', 0.0, 1e9), ('huge-asym', -1e9, 3e9), ('huge-off', 1e9, 1e9 + 1.0),
    ('probe-1e15', 1e15, 1e15 + 64.0), ('probe-5', 5.0, 5.000001), ('pi', -math.pi, math.e),
]


def precondition(a, b, n, kind):
    """adjacent nodes differ by at least 2^10 ulp(max(|a|,|b|))"""
    u = scale_ulp(a, b)
    if kind == 'uni':
        sp = (b - a) / (n - 1)
    else:
        sp = (b - a) / 2 * (1 - math.cos(math.pi / (n - 1)))
    return sp >= 1024 * u


# ----------------------------------------------------------------------------------------------------------
# correspondence
# ----------------------------------------------------------------------------------------------------------

def _cheb_cos_table(n):
    """oracle table for the Qc model: exact key PI_f * i / (n-1) (rational arithmetic on the float np.pi)
    -> np.cos evaluated as the implementation evaluates it"""
    pif = Fr(float(np.pi))
    tbl = []
    for i in range(n):
        key = pif * i / (n - 1)
        val = float(np.cos(np.pi * i / (n - 1)))
        tbl.append((key, val))
    return tbl


def _tbl(tbl):
    return '[' + '; '.join(f'({ql(k)}, {ql(Fr(v))})' for k, v in tbl) + ']'


def _xsc_exact(x, a, b, kind):
    x, a, b = Fr(x), Fr(a), Fr(b)
    if kind == 'uni':
        v = (x - a) / (b - a)
        return min(max(v, Fr(0)), Fr(1))
    v = (x - (b + a) / 2) * (2 / (b - a))
    return min(max(v, Fr(-1)), Fr(1))


def _far_from_half(t, margin):
    f = t - math.floor(t)
    return abs(f - 0.5) >= margin


def correspondence(R, ctx):
    tn = C.import_teneva()
    rng = ctx['rng']
    thorough = ctx['thorough']
    bad_all = []
    nmax = 64 if thorough else 24

    # ---- stream 1: option preparation, exact, including every error branch ------------------------------
    items = []
    dist = dict(grid_prep_opts=0, grid_prep_opt=0, errors=0)

    def ropt(scalar_ok=True):
        r = rng.random()
        if r < 0.2:
            return None
        if r < 0.5 and scalar_ok:
            return rng.randint(-3, 9)
        return [rng.randint(-3, 9) for _ in range(rng.choice([0, 1, 2, 2, 3, 3]))]

    combos = []
    base = [None, 4, [], [5], [1, 2], [7, 8, 9]]
    for a, b, n in itertools.product(base, repeat=3):
        for d in [None, 0, 2]:
            combos.append((a, b, n, d, None))
    for _ in range(1500 if thorough else 350):
        combos.append((ropt(), ropt(), ropt(), rng.choice([None, None, -1, 0, 1, 2, 3]), rng.choice([None, None, 0, 1, 3])))
    for a, b, n, d, reps in combos:
        try:
            ra, rb, rn = tn.grid_prep_opts(fl_or_none(a), fl_or_none(b), n, d, reps)
            impl = [[0], enc_parr(ra, 'f'), enc_parr(rb, 'f'), enc_parr(rn, 'i')]
        except Exception as e:
            impl = [[C.errclass(e)]]
            dist['errors'] += 1
        dl = 'None' if d is None else f'(Some {C.zlit(d)})'
        rl = 'None' if reps is None else f'(Some {reps}%nat)'
        items.append(dict(coq=f'shP (grid_prep_opts {gopt(a, C.zlit)} {gopt(b, C.zlit)} {gopt(n, C.zlit)} {dl} {rl})',
                          impl=impl, input=['grid_prep_opts', a, b, n, d, reps]))
        dist['grid_prep_opts'] += 1
    for _ in range(400 if thorough else 120):
        o, d, reps = ropt(), rng.choice([None, -1, 0, 1, 2, 3]), rng.choice([None, None, 0, 1, 3])
        try:
            r = tn.grid_prep_opt(o, d, int, reps)
            impl = [[0], enc_parr(r, 'i')]
        except Exception as e:
            impl = [[C.errclass(e)]]
            dist['errors'] += 1
        dl = 'None' if d is None else f'(Some {C.zlit(d)})'
        rl = 'None' if reps is None else f'(Some {reps}%nat)'
        items.append(dict(coq=f'shP1 (grid_prep_opt {gopt(o, C.zlit)} {dl} {rl})', impl=impl,
                          input=['grid_prep_opt', o, d, reps]))
        dist['grid_prep_opt'] += 1
    bad_all += C.exact_corr(R, 'options', HEADER, items, chunk=120, distribution=dist)

    # ---- stream 2: uniform grid, arithmetic exact in binary64 (dyadic boxes, n-1 a power of two) ---------
    items = []
    dist = dict(ind_to_poi=0, poi_to_ind=0, ties=0, outside=0, poi_scale=0, batch=0)
    for name, a, b in DY_BOXES:
        for n in [2, 3, 5, 9, 17, 33]:
            I = list(range(n))
            items.append(dict(coq=f'shQ1 (ind_to_poi1 OQc idQ (q 0 1) {C.zlist(I)} (GSc {ql(a)}) (GSc {ql(b)}) (GSc {n}) KUni)',
                              impl=impl_q1(tn.ind_to_poi, I, a, b, n, 'uni'), input=['ind_to_poi-uni-exact', name, a, b, n]))
            dist['ind_to_poi'] += 1
            # points: nodes, exact half-way points between nodes (ties!), quarter points, outside
            h = (Fr(b) - Fr(a)) / (n - 1)
            pts = []
            for i in range(n):
                for off in [Fr(0), Fr(1, 4), Fr(1, 2), Fr(3, 4)]:
                    pts.append(Fr(a) + h * (i + off))
            pts += [Fr(a) - h / 2, Fr(a) - h * 3, Fr(b) + h / 2, Fr(b) + (Fr(b) - Fr(a)) * 1000]
            pts = [p for p in pts if Fr(float(p)) == p and Fr(float(p) - a) == p - Fr(a)]
            if len(pts) > 40:
                pts = rng.sample(pts, 40)
            if a == 0.0 and (n - 1) & (n - 2) == 0:
                # the doubles next to an exact tie of the grid parameter (exactly representable: a = 0, b and n - 1 powers of two)
                for k in [0, 1, 2, n - 2]:
                    for t in (np.nextafter(k + 0.5, -np.inf), np.nextafter(k + 0.5, np.inf)):
                        pts.append(Fr(float(t)) * Fr(b) / (n - 1))
                pts = [p for p in pts if Fr(float(p)) == p]
                dist['near_ties'] = dist.get('near_ties', 0) + 8
            if not pts:
                continue
            X = [float(p) for p in pts]
            dist['poi_to_ind'] += 1
            dist['ties'] += sum(1 for p in pts if ((p - Fr(a)) / h) % 1 == Fr(1, 2))
            dist['outside'] += sum(1 for p in pts if p < a or p > b)
            items.append(dict(coq=f'shZ1 (poi_to_ind1 OQc Qc_floor idQ (q 0 1) {qlist(pts)} (GSc {ql(a)}) (GSc {ql(b)}) (GSc {n}) KUni)',
                              impl=impl_z1(tn.poi_to_ind, X, a, b, n, 'uni'), input=['poi_to_ind-uni-exact', name, a, b, n, X]))
    # scales: the same exact family on boxes rescaled by 2^+-500 (2^+-1000: search only, Qc gcd cost), and n - 1 = 2^20
    for (name, a0, b0), p2 in itertools.product([DY_BOXES[0], DY_BOXES[2]], [500, -500]):
        a, b = math.ldexp(a0, p2), math.ldexp(b0, p2)
        for n in [2, 9]:
            I = list(range(n))
            items.append(dict(coq=f'shQ1 (ind_to_poi1 OQc idQ (q 0 1) {C.zlist(I)} (GSc {ql(a)}) (GSc {ql(b)}) (GSc {n}) KUni)',
                              impl=impl_q1(tn.ind_to_poi, I, a, b, n, 'uni'), input=['ind_to_poi-uni-exact-scaled', name, p2, n]))
            h = (Fr(b) - Fr(a)) / (n - 1)
            pts = [Fr(a) + h * (i + off) for i in range(n) for off in [Fr(0), Fr(1, 4), Fr(1, 2), Fr(3, 4)]]
            pts += [Fr(a) - h / 2, Fr(a) - h * 3, Fr(b) + h / 2, Fr(b) + (Fr(b) - Fr(a)) * 1000]
            pts = [q_ for q_ in pts if Fr(float(q_)) == q_ and Fr(float(q_) - a) == q_ - Fr(a)][::3][:6]
            if pts:
                items.append(dict(coq=f'shZ1 (poi_to_ind1 OQc Qc_floor idQ (q 0 1) {qlist(pts)} (GSc {ql(a)}) (GSc {ql(b)}) (GSc {n}) KUni)',
                                  impl=impl_z1(tn.poi_to_ind, [float(q_) for q_ in pts], a, b, n, 'uni'),
                                  input=['poi_to_ind-uni-exact-scaled', name, p2, n]))
            dist['scaled'] = dist.get('scaled', 0) + 2
    nbig = 2 ** 20 + 1
    for name, a, b in [DY_BOXES[0], DY_BOXES[2], DY_BOXES[4], DY_BOXES[8]]:
        I = [0, 1, 2, 3, nbig // 2, nbig - 2, nbig - 1] + [rng.randrange(nbig) for _ in range(8)]
        items.append(dict(coq=f'shQ1 (ind_to_poi1 OQc idQ (q 0 1) {C.zlist(I)} (GSc {ql(a)}) (GSc {ql(b)}) (GSc {nbig}) KUni)',
                          impl=impl_q1(tn.ind_to_poi, I, a, b, nbig, 'uni'), input=['ind_to_poi-uni-exact-n2^20', name]))
        h = (Fr(b) - Fr(a)) / (nbig - 1)
        pts = [Fr(a) + h * (i + off) for i in I for off in [Fr(0), Fr(1, 4), Fr(1, 2), Fr(3, 4)]]
        pts = [q_ for q_ in pts if Fr(float(q_)) == q_ and Fr(float(q_) - a) == q_ - Fr(a)][:40]
        if pts:
            items.append(dict(coq=f'shZ1 (poi_to_ind1 OQc Qc_floor idQ (q 0 1) {qlist(pts)} (GSc {ql(a)}) (GSc {ql(b)}) (GSc {nbig}) KUni)',
                              impl=impl_z1(tn.poi_to_ind, [float(q_) for q_ in pts], a, b, nbig, 'uni'),
                              input=['poi_to_ind-uni-exact-n2^20', name]))
        dist['n_2^20'] = dist.get('n_2^20', 0) + 2
    # poi_scale: widths a power of two, small dyadic points and limits -> exact for all three kinds
    for _ in range(200 if thorough else 60):
        d = rng.randint(1, 4)
        vec = rng.random() < 0.5
        av = [Fr(rng.randint(-40, 40), 8) for _ in range(d)]
        wv = [Fr(2) ** rng.randint(-3, 4) for _ in range(d)]
        if not vec:
            av, wv = [av[0]] * d, [wv[0]] * d
        bv = [x + w for x, w in zip(av, wv)]
        X = [av[k] + wv[k] * Fr(rng.randint(-24, 40), 16) for k in range(d)]
        kind = rng.choice(['uni', 'cheb', 'lim', 'lim', 'limrev'])
        if kind == 'lim':
            lo = Fr(rng.randint(-20, 20), 4)
            kind = [lo, lo + Fr(rng.randint(0, 24), 4)]
        elif kind == 'limrev':
            lo = Fr(rng.randint(-20, 20), 4)
            kind = [lo, lo - Fr(rng.randint(1, 8), 4)]
        a_arg = [float(x) for x in av] if vec else float(av[0])
        b_arg = [float(x) for x in bv] if vec else float(bv[0])
        a_l = gopt(av if vec else av[0], ql)
        b_l = gopt(bv if vec else bv[0], ql)
        kpy = kind if isinstance(kind, str) else [float(kind[0]), float(kind[1])]
        items.append(dict(coq=f'shQ1 (poi_scale1 OQc {qlist(X)} {a_l} {b_l} {kindlit(kind)})',
                          impl=impl_q1(tn.poi_scale, [float(x) for x in X], a_arg, b_arg, kpy),
                          input=['poi_scale-exact', [float(x) for x in X], a_arg, b_arg, kpy]))
        dist['poi_scale'] += 1
    # batches against the batch model (rows), exact
    for _ in range(120 if thorough else 40):
        d, m = rng.randint(1, 3), rng.randint(1, 4)
        vec = rng.random() < 0.5
        nv = [rng.choice([2, 3, 5, 9]) for _ in range(d)]
        av = [Fr(rng.randint(-40, 40), 8) for _ in range(d)]
        wv = [Fr(2) ** rng.randint(-2, 3) * (n - 1) for n in nv]
        if not vec:
            nv, av, wv = [nv[0]] * d, [av[0]] * d, [wv[0]] * d
        bv = [x + w for x, w in zip(av, wv)]
        a_arg = [float(x) for x in av] if vec else float(av[0])
        b_arg = [float(x) for x in bv] if vec else float(bv[0])
        n_arg = nv if vec else nv[0]
        a_l, b_l, n_l = gopt(av if vec else av[0], ql), gopt(bv if vec else bv[0], ql), gopt(n_arg, C.zlit)
        I = [[rng.randrange(nv[k]) for k in range(d)] for _ in range(m)]
        items.append(dict(coq=f'shQ2 (ind_to_poi OQc idQ (q 0 1) {C.nested(I)} {a_l} {b_l} {n_l} KUni)',
                          impl=impl_q2(tn.ind_to_poi, np.array(I), a_arg, b_arg, n_arg, 'uni'),
                          input=['ind_to_poi-batch', I, a_arg, b_arg, n_arg]))
        X = [[av[k] + (bv[k] - av[k]) / (nv[k] - 1) * Fr(rng.randint(-6, 4 * nv[k] + 2), 4) for k in range(d)] for _ in range(m)]
        Xf = [[float(x) for x in row] for row in X]
        items.append(dict(coq=f'shZ2 (poi_to_ind OQc Qc_floor idQ (q 0 1) {C.nested(X, ql)} {a_l} {b_l} {n_l} KUni)',
                          impl=impl_z2(tn.poi_to_ind, np.array(Xf), a_arg, b_arg, n_arg, 'uni'),
                          input=['poi_to_ind-batch', Xf, a_arg, b_arg, n_arg]))
        items.append(dict(coq=f'shQ2 (poi_scale OQc {C.nested(X, ql)} {a_l} {b_l} KCheb)',
                          impl=impl_q2(tn.poi_scale, np.array(Xf), a_arg, b_arg, 'cheb'),
                          input=['poi_scale-batch', Xf, a_arg, b_arg]))
        dist['batch'] += 3
    bad_all += C.exact_corr(R, 'uniform_exact', HEADER, items, chunk=40, distribution=dist)

    # ---- stream 3: malformed calls of the public maps: error class / broadcasting outcome, exact ---------
    items = []
    dist = dict(cases=0, errors=0)

    def bad_opt(d):
        r = rng.random()
        if r < 0.15:
            return None
        if r < 0.45:
            return Fr(rng.randint(-8, 8), 2)
        ln = rng.choice([0, 1, 2, 3, d, d, d])
        return [Fr(rng.randint(-8, 8), 2) for _ in range(ln)]

    def bad_n(d):
        r = rng.random()
        if r < 0.15:
            return None
        if r < 0.45:
            return rng.choice([2, 3, 5])
        ln = rng.choice([0, 1, 2, 3, d, d, d])
        return [rng.choice([2, 3, 5]) for _ in range(ln)]

    for _ in range(900 if thorough else 260):
        d = rng.randint(0, 3)
        a = bad_opt(d)
        b = bad_opt(d)
        if isinstance(a, Fr) and isinstance(b, Fr) and b == a:
            b = a + 2
        if isinstance(a, list) and isinstance(b, list):
            b = [x + 4 for x in a[:len(b)]] + b[len(a):]
        if isinstance(a, list) and isinstance(b, Fr):
            b = max(a + [b]) + 4
        if isinstance(b, list) and isinstance(a, Fr):
            a = min(b + [a]) - 4
        n = bad_n(d)
        if d == 0 and (a is None or b is None or n is None):
            continue   # arithmetic of an EMPTY array with None does not raise in numpy; d = 0 with None is outside the model
        kind = rng.choice(['uni', 'uni', 'uni', 'cheb', 'foo', [0.0, 2.0], 'ab'])
        if kind == 'cheb':
            kind = 'uni' if rng.random() < 0.5 else 'foo'   # the Qc model has no cos / acos: cheb is stream 4
        a_py = None if a is None else ([float(x) for x in a] if isinstance(a, list) else float(a))
        b_py = None if b is None else ([float(x) for x in b] if isinstance(b, list) else float(b))
        a_l, b_l, n_l = gopt(a, ql), gopt(b, ql), gopt(n, C.zlit)
        klit = kindlit(kind) if kind != 'ab' else None
        which = rng.choice(['i2p', 'p2i', 'scale'])
        if kind == 'ab' and which != 'i2p':
            continue   # a 2-character string unpacks into two strings: TypeError inside numpy, outside the model
        if kind == 'ab':
            klit = 'KBad'
        if which == 'i2p':
            I = [rng.randint(0, 4) for _ in range(d)]
            impl = impl_q1(tn.ind_to_poi, I, a_py, b_py, n, kind)
            coq = f'shQ1 (ind_to_poi1 OQc idQ (q 0 1) {C.zlist(I)} {a_l} {b_l} {n_l} {klit})'
            inp = ['ind_to_poi-malformed', I, a_py, b_py, n, kind]
        else:
            X = [Fr(rng.randint(-12, 12), 4) for _ in range(d)]
            Xf = [float(x) for x in X]
            if which == 'scale':
                impl = impl_q1(tn.poi_scale, Xf, a_py, b_py, kind)
                coq = f'shQ1 (poi_scale1 OQc {qlist(X)} {a_l} {b_l} {klit})'
                inp = ['poi_scale-malformed', Xf, a_py, b_py, kind]
            else:
                impl = impl_z1(tn.poi_to_ind, Xf, a_py, b_py, n, kind)
                coq = f'shZ1 (poi_to_ind1 OQc Qc_floor idQ (q 0 1) {qlist(X)} {a_l} {b_l} {n_l} {klit})'
                inp = ['poi_to_ind-malformed', Xf, a_py, b_py, n, kind]
        if impl[0] != [0]:
            dist['errors'] += 1
        else:
            # a successful call must have had exact arithmetic to be comparable: widths are integers / 2, fine
            # for poi_scale (division by a dyadic is not exact in general) -> keep only error outcomes or
            # index outcomes (integers) and exact-float outcomes
            if which != 'p2i':
                try:
                    ok = _exactly_representable(which, inp)
                except Exception:
                    ok = False
                if not ok:
                    continue
            else:
                if not _p2i_safe(inp):
                    continue
        dist['cases'] += 1
        items.append(dict(coq=coq, impl=impl, input=inp))
    bad_all += C.exact_corr(R, 'malformed_and_mixed', HEADER, items, chunk=60, distribution=dist)

    # ---- stream 3b: the malformed-n family of poi_to_ind (fix bc9fc68), systematic, error class exact ----------
    items = []
    dist = dict(single=0, batch=0, wrong_length=0, right_length=0, d1_longer_n=0, ndarray_n=0, errors=0, ok=0)
    for d in [1, 2, 3, 4]:
        for ln in [0, 1, 2, 3, 5]:
            for kind in ['uni', 'cheb']:
                for vec in [False, True]:
                    for m in [None, 1, 3]:
                        if ln == d and kind == 'cheb':
                            continue      # a successful Chebyshev call needs the acos oracle: covered by stream 4
                        if m == 3 and (vec or kind == 'cheb') and ln not in (d, 1, 3):
                            continue
                        nv = [rng.choice([2, 3, 5, 9]) for _ in range(ln)]
                        av = [Fr(rng.randint(-8, 8), 2) for _ in range(d)]
                        bv = [x + (n1 - 1) * Fr(2) ** rng.randint(-1, 2) for x, n1 in zip(av, (nv + [3] * d)[:d])]
                        if not vec:
                            av, bv = [av[0]] * d, [av[0] + 8] * d
                        a_py = [float(x) for x in av] if vec else float(av[0])
                        b_py = [float(x) for x in bv] if vec else float(bv[0])
                        a_l, b_l = gopt(av if vec else av[0], ql), gopt(bv if vec else bv[0], ql)
                        as_array = rng.random() < 0.3
                        n_py = np.array(nv, dtype=int) if as_array else list(nv)
                        rows = [[av[k] + (bv[k] - av[k]) * Fr(rng.randint(-2, 10), 8) for k in range(d)]
                                for _ in range(m or 1)]
                        if m is None:
                            X = rows[0]
                            Xf = [float(x) for x in X]
                            impl = impl_z1(tn.poi_to_ind, Xf, a_py, b_py, n_py, kind)
                            coq = f'shZ1 (poi_to_ind1 OQc Qc_floor idQ (q 0 1) {qlist(X)} {a_l} {b_l} {gopt(nv, C.zlit)} {kindlit(kind)})'
                            inp = ['poi_to_ind-malformed', Xf, a_py, b_py, nv, kind]
                            dist['single'] += 1
                        else:
                            Xf = [[float(x) for x in row] for row in rows]
                            impl = impl_z2(tn.poi_to_ind, np.array(Xf), a_py, b_py, n_py, kind)
                            coq = f'shZ2 (poi_to_ind OQc Qc_floor idQ (q 0 1) {C.nested(rows, ql)} {a_l} {b_l} {gopt(nv, C.zlit)} {kindlit(kind)})'
                            inp = ['poi_to_ind-malformed-batch', Xf, a_py, b_py, nv, kind]
                            dist['batch'] += 1
                        if impl[0] == [0]:
                            # a successful call is comparable only if its rounding decisions are safe
                            ok = all(_p2i_safe(['', xr, a_py, b_py, nv, 'uni']) for xr in (Xf if m is not None else [Xf]))
                            if not ok:
                                continue
                            dist['ok'] += 1
                        else:
                            dist['errors'] += 1
                        dist['wrong_length' if ln != d else 'right_length'] += 1
                        dist['d1_longer_n'] += int(d == 1 and ln != 1)
                        dist['ndarray_n'] += int(as_array)
                        items.append(dict(coq=coq, impl=impl, input=inp))
    bad_all += C.exact_corr(R, 'poi_to_ind_malformed_n', HEADER, items, chunk=60, distribution=dist)

    # ---- stream 4: all nodes of all grids n <= nmax, uniform and Chebyshev, tolerance 4 ulp; indices exact -
    cases, meta = [], []
    dist = dict(grids=0, kinds=['uni', 'cheb'], nmax=nmax, boxes=[b[0] for b in DY_BOXES])
    pif = Fr(float(np.pi))
    ns = list(range(2, nmax + 1)) if nmax <= 24 else list(range(2, 25)) + [27, 32, 33, 40, 48, 63, 64]
    for name, a, b in DY_BOXES:
        for n in ns:
            for kind in ['uni', 'cheb']:
                if not precondition(a, b, n, kind):
                    continue
                I = list(range(n))
                Ximpl = np.asarray(tn.ind_to_poi(I, a, b, n, kind), dtype=float)
                if kind == 'uni':
                    cases.append(f'shQ1 (ind_to_poi1 OQc idQ (q 0 1) {C.zlist(I)} (GSc {ql(a)}) (GSc {ql(b)}) (GSc {n}) KUni)')
                else:
                    tbl = _cheb_cos_table(n)
                    cases.append(f'shQ1 (ind_to_poi1 OQc (lookup {_tbl(tbl)}) {ql(pif)} {C.zlist(I)} (GSc {ql(a)}) (GSc {ql(b)}) (GSc {n}) KCheb)')
                meta.append(('nodes', name, a, b, n, kind, [float(x) for x in Ximpl]))
                # indices of the implementation's own nodes and of points a quarter cell off, through the model
                Xq = [Fr(float(x)) for x in Ximpl]
                if kind == 'uni':
                    h = (Fr(b) - Fr(a)) / (n - 1)
                    extra = [Fr(float(Fr(a) + h * (i + Fr(1, 4)))) for i in range(0, n - 1, max(1, n // 6))]
                    extra += [Fr(float(Fr(a) - h)), Fr(float(Fr(b) + h))]
                    pts = Xq + extra
                    ts = [float(_xsc_exact(p, a, b, 'uni') * (n - 1)) for p in pts]
                    pts = [p for p, t in zip(pts, ts) if _far_from_half(t, 1e-6)]
                    cases.append(f'shZ1 (poi_to_ind1 OQc Qc_floor idQ (q 0 1) {qlist(pts)} (GSc {ql(a)}) (GSc {ql(b)}) (GSc {n}) KUni)')
                else:
                    half, mid = (Fr(b) - Fr(a)) / 2, (Fr(b) + Fr(a)) / 2
                    extra = [Fr(float(mid + half * Fr(math.cos(math.pi * (i + 0.25) / (n - 1))))) for i in range(0, n - 1, max(1, n // 6))]
                    extra += [Fr(float(Fr(a) - half)), Fr(float(Fr(b) + half))]
                    pts, tblA = [], []
                    for p in Xq + extra:
                        xs = _xsc_exact(p, a, b, 'cheb')
                        ac = float(np.arccos(float(xs)))
                        t = ac / math.pi * (n - 1)
                        if _far_from_half(t, 1e-5):
                            pts.append(p)
                            tblA.append((xs, ac))
                    cases.append(f'shZ1 (poi_to_ind1 OQc Qc_floor (lookup {_tbl(tblA)}) {ql(pif)} {qlist(pts)} (GSc {ql(a)}) (GSc {ql(b)}) (GSc {n}) KCheb)')
                Iimpl = np.asarray(tn.poi_to_ind([float(p) for p in pts], a, b, n, kind))
                meta.append(('indices', name, a, b, n, kind, [int(x) for x in Iimpl], [float(p) for p in pts]))
                dist['grids'] += 1
    # index arrays of every small integer dtype whose range the grid size reaches (all nodes; the model gets the plain list)
    dist['index_dtypes'] = {}
    for (name, a, b), (n, dts) in itertools.product([DY_BOXES[0], DY_BOXES[2]],
                                                   [(65, ['int8']), (128, ['int8', 'uint8']), (129, ['uint8', 'int16']),
                                                    (256, ['uint8', 'uint16'])]):
        for kind in ['uni', 'cheb']:
            dt = rng.choice(dts)
            I = list(range(n))
            Ximpl = np.asarray(tn.ind_to_poi(np.array(I, dtype=dt), a, b, n, kind), dtype=float)
            if kind == 'uni':
                cases.append(f'shQ1 (ind_to_poi1 OQc idQ (q 0 1) {C.zlist(I)} (GSc {ql(a)}) (GSc {ql(b)}) (GSc {n}) KUni)')
            else:
                cases.append(f'shQ1 (ind_to_poi1 OQc (lookup {_tbl(_cheb_cos_table(n))}) {ql(pif)} {C.zlist(I)} (GSc {ql(a)}) (GSc {ql(b)}) (GSc {n}) KCheb)')
            meta.append(('nodes', name + ' I:' + dt, a, b, n, kind, [float(x) for x in Ximpl]))
            dist['index_dtypes'][dt] = dist['index_dtypes'].get(dt, 0) + 1
    vals = C.run_cases('C18_nodes', HEADER, cases, chunk=24)
    bad = []
    for v, mt in zip(vals, meta):
        R.add_distinct(('nodes', mt[:6]))
        if mt[0] == 'nodes':
            _, name, a, b, n, kind, Ximpl = mt
            tol = 4 * scale_ulp(a, b)
            if v[0] != [0] or len(v) - 1 != n:
                bad.append(dict(stream='nodes', input=['nodes', name, a, b, n, kind], model=v[:3], impl=Ximpl[:3]))
                continue
            for i, (pq, x) in enumerate(zip(v[1:], Ximpl)):
                if abs(Fr(pq[0], pq[1]) - Fr(x)) > tol:
                    bad.append(dict(stream='nodes', input=['nodes', name, a, b, n, kind, i],
                                    model=float(Fr(pq[0], pq[1])), impl=x))
                    break
        else:
            _, name, a, b, n, kind, Iimpl, pts = mt
            if v != [[0], Iimpl]:
                bad.append(dict(stream='nodes', input=['indices', name, a, b, n, kind, pts], model=v, impl=Iimpl))
    R.corr.append(dict(name='all_nodes_all_grids', cases=len(cases), mismatches=len(bad),
                       comparison='points: |model(exact rational, cos oracle = np.cos) - impl| <= 4 ulp(max(|a|,|b|)); '
                                  'indices: exact equality on points whose grid parameter is >= 1e-6 (uni) / 1e-5 (cheb) '
                                  'away from a rounding boundary (acos oracle = np.arccos of the exactly scaled point)',
                       distribution=dist, first_mismatches=bad[:3]))
    if cases:
        R.samples.append(dict(stream='all_nodes_all_grids', input=list(meta[0][:6]), model=vals[0][:3], impl=meta[0][6][:2]))
    bad_all += bad

    # ---- stream 5: grid_flat and cdf_getter, exact -----------------------------------------------------
    items = []
    dist = dict(grid_flat=0, cdf=0)
    shapes = [[1], [2], [3], [1, 1], [2, 3], [3, 2], [1, 4], [4, 1], [2, 2, 2], [3, 1, 2], [2, 3, 4], [1, 2, 1, 3], [2, 2, 2, 2]]
    for _ in range(40 if thorough else 10):
        shapes.append([rng.randint(1, 4) for _ in range(rng.randint(1, 5))])
    for sh in shapes:
        try:
            impl = [[int(x) for x in row] for row in np.asarray(tn.grid_flat(sh))]
        except Exception as e:
            impl = [[-C.errclass(e)]]
        items.append(dict(coq=f'shN (grid_flat {C.natlist(sh)})', impl=impl, input=['grid_flat', sh]))
        dist['grid_flat'] += 1
    for n in [0, 1, 2, 5]:
        impl = [[int(x) for x in np.asarray(tn.grid_flat(n))]]
        items.append(dict(coq=f'shN [grid_flat_scalar {n}%nat]', impl=impl, input=['grid_flat-scalar', n]))
        dist['grid_flat'] += 1
    for _ in range(150 if thorough else 50):
        m = rng.randint(1, 9)
        xs = [Fr(rng.randint(-6, 6), rng.choice([1, 2, 4])) for _ in range(m)]
        zs = xs[:3] + [Fr(rng.randint(-30, 30), 4) for _ in range(3)] + [min(xs) - 1, max(xs), max(xs) + 1]
        cdf = tn.cdf_getter([float(x) for x in xs])
        for z in zs:
            try:
                y = float(cdf(float(z)))
                c = round(y * m)
                impl = [[0], fq_frac(Fr(c, m))] if abs(y - c / m) <= 1e-12 else [[-1], [y]]
            except Exception as e:
                impl = [[C.errclass(e)]]
            items.append(dict(coq=f'shC (cdf OQc {qlist(xs)} {ql(z)})', impl=impl,
                              input=['cdf', [float(x) for x in xs], float(z)]))
            dist['cdf'] += 1
    try:
        tn.cdf_getter([])
        impl = [[0]]
    except Exception as e:
        impl = [[C.errclass(e)]]
    items.append(dict(coq='shC (cdf OQc [] (q 0 1))', impl=impl, input=['cdf-empty']))
    bad_all += C.exact_corr(R, 'grid_flat_and_cdf', HEADER, items, chunk=60, distribution=dist)
    return bad_all


def fq_frac(f):
    return [f.numerator, f.denominator]


def _exactly_representable(which, inp):
    """a successful poi_scale / ind_to_poi call of the mixed stream is kept only if every intermediate of the
    float evaluation is exact (checked by redoing the computation in rationals and in floats)"""
    if which == 'scale':
        _, X, a, b, kind = inp
        d = len(X)
        av = a if isinstance(a, list) else [a] * d
        bv = b if isinstance(b, list) else [b] * d
        for x, aa, bb in zip(X, av, bv):
            if bb == aa:
                return False
            if kind == 'uni':
                if Fr((x - aa) / (bb - aa)) != (Fr(x) - Fr(aa)) / (Fr(bb) - Fr(aa)):
                    return False
            elif isinstance(kind, list):
                an, bn = kind
                if Fr((x * (an - bn) + aa * bn - bb * an) / (aa - bb)) != \
                        (Fr(x) * (Fr(an) - Fr(bn)) + Fr(aa) * Fr(bn) - Fr(bb) * Fr(an)) / (Fr(aa) - Fr(bb)):
                    return False
            else:
                return False
        return True
    _, I, a, b, n, kind = inp
    d = len(I)
    av = a if isinstance(a, list) else [a] * d
    bv = b if isinstance(b, list) else [b] * d
    nv = n if isinstance(n, list) else [n] * d
    for i, aa, bb, nn in zip(I, av, bv, nv):
        if nn < 2:
            return False
        if Fr(i / (nn - 1) * (bb - aa) + aa) != Fr(i, nn - 1) * (Fr(bb) - Fr(aa)) + Fr(aa):
            return False
    return True


def _p2i_safe(inp):
    """successful poi_to_ind call of the mixed stream: keep it if every grid parameter is either exactly a tie in
    exact float arithmetic or >= 1e-6 away from one, and the box is non-degenerate"""
    _, X, a, b, n, kind = inp
    d = len(X)
    av = a if isinstance(a, list) else [a] * d
    bv = b if isinstance(b, list) else [b] * d
    if isinstance(n, list):
        if len(n) == d:
            pairs = list(zip(X, av, bv, n))
        elif d == 1:
            pairs = [(X[0], av[0], bv[0], nn) for nn in n]
        else:
            return False
    else:
        pairs = [(x, aa, bb, n) for x, aa, bb in zip(X, av, bv)]
    for x, aa, bb, nn in pairs:
        if bb == aa:
            return False
        t = _xsc_exact(x, aa, bb, 'uni') * (nn - 1)
        tf = min(max((x - aa) / (bb - aa), 0.0), 1.0) * (nn - 1)
        if Fr(tf) != t and not _far_from_half(float(t), 1e-6):
            return False
    return True


# ----------------------------------------------------------------------------------------------------------
# property-level oracles on the implementation (independent of the model)
# ----------------------------------------------------------------------------------------------------------

def _ref_node(a, b, n, i, kind):
    if kind == 'uni':
        return float(Fr(a) + (Fr(b) - Fr(a)) * Fr(i, n - 1))
    return (b - a) / 2 * math.cos(math.pi * i / (n - 1)) + (b + a) / 2


def _param(a, b, n, x, kind):
    """grid parameter of x in exact / high accuracy arithmetic"""
    if kind == 'uni':
        return float(_xsc_exact(x, a, b, 'uni') * (n - 1))
    return math.acos(float(_xsc_exact(x, a, b, 'cheb'))) / math.pi * (n - 1)


def o_grid(tn, a, b, n, kind):
    """every index of one grid: end points, in-box, order, round trip, cell mid points, outside, nearest node"""
    u = scale_ulp(a, b)
    w = b - a
    I = list(range(n))
    X = np.asarray(tn.ind_to_poi(I, a, b, n, kind), dtype=float)
    if X.shape != (n,):
        return dict(what='ind_to_poi: wrong shape', got=list(X.shape))
    lo_end, hi_end = (X[0], X[n - 1]) if kind == 'uni' else (X[n - 1], X[0])
    if abs(lo_end - a) > 4 * u or abs(hi_end - b) > 4 * u:
        return dict(what=f'ind_to_poi({kind}): end points are not the box ends (4 ulp)', got=[float(X[0]), float(X[n - 1])],
                    expected=[a, b] if kind == 'uni' else [b, a])
    if np.any(X < a - 4 * u) or np.any(X > b + 4 * u):
        return dict(what=f'ind_to_poi({kind}): node outside the box', got=[float(X.min()), float(X.max())])
    tol = 6 * u + 8 * math.ulp(w)
    for i in I:
        if abs(X[i] - _ref_node(a, b, n, i, kind)) > tol:
            return dict(what=f'ind_to_poi({kind}): node {i} is not the grid node', got=float(X[i]),
                        expected=_ref_node(a, b, n, i, kind))
    dX = np.diff(X)
    if (kind == 'uni' and np.any(dX <= 0)) or (kind == 'cheb' and np.any(dX >= 0)):
        return dict(what=f'ind_to_poi({kind}): nodes are not strictly ordered')
    back = np.asarray(tn.poi_to_ind(X, a, b, n, kind))
    if back.dtype.kind != 'i' or back.tolist() != I:
        bad = [i for i in I if i >= len(back) or back[i] != i][:5]
        return dict(what=f'poi_to_ind(ind_to_poi(i)) != i ({kind})', got=[int(back[i]) for i in bad if i < len(back)], expected=bad)
    # singles agree with the vector call
    for i in {0, n - 1, n // 2}:
        xi = np.asarray(tn.ind_to_poi([i], a, b, n, kind))
        if xi.shape != (1,) or xi[0] != X[i]:
            return dict(what='ind_to_poi: single index differs from the same index inside a multi-index', got=xi.tolist(), expected=float(X[i]))
    # cell boundaries +- eps
    eps = max(1e-9 * w, 64 * u)
    pts, exp = [], []
    for i in range(n - 1):
        if kind == 'uni':
            mid = float(Fr(a) + (Fr(b) - Fr(a)) * Fr(2 * i + 1, 2 * (n - 1)))
            pts += [mid - eps, mid + eps]
            exp += [i, i + 1]
        else:
            mid = (b - a) / 2 * math.cos(math.pi * (i + 0.5) / (n - 1)) + (b + a) / 2
            pts += [mid + eps, mid - eps]
            exp += [i, i + 1]
    got = np.asarray(tn.poi_to_ind(np.array(pts), a, b, n, kind)).tolist()
    if got != exp:
        k = [j for j in range(len(exp)) if got[j] != exp[j]][0]
        return dict(what=f'poi_to_ind({kind}): point next to a cell boundary goes to the wrong index',
                    point=pts[k], got=got[k], expected=exp[k])
    # boundary and outside
    out_lo = [a, a - eps, a - w, a - 1e6 * w, -1e300]
    out_hi = [b, b + eps, b + w, b + 1e6 * w, 1e300]
    g_lo = np.asarray(tn.poi_to_ind(np.array(out_lo), a, b, n, kind)).tolist()
    g_hi = np.asarray(tn.poi_to_ind(np.array(out_hi), a, b, n, kind)).tolist()
    e_lo, e_hi = (0, n - 1) if kind == 'uni' else (n - 1, 0)
    if g_lo != [e_lo] * 5 or g_hi != [e_hi] * 5:
        return dict(what=f'poi_to_ind({kind}): points on / outside the boundary do not go to the boundary index',
                    got=[g_lo, g_hi], expected=[e_lo, e_hi])
    return None


def o_points(tn, a, b, n, kind, xs):
    """arbitrary points: the returned index is a nearest integer of the grid parameter (the parameter is computed
    from the exact float point; the tolerance covers the conditioning of the scaled point: offset boxes, and
    acos near +-1)"""
    got = np.asarray(tn.poi_to_ind(np.array(xs), a, b, n, kind)).tolist()
    u, w = scale_ulp(a, b), b - a
    for x, i in zip(xs, got):
        t = _param(a, b, n, x, kind)
        tol = 1e-6 + 64 * (u / w) * (n - 1)
        if kind == 'cheb':
            s = max(abs(math.sin(t / (n - 1) * math.pi)), 1e-4)
            tol = 1e-6 + 64 * (u / w + 1e-16) * (n - 1) / s
        if not (0 <= i <= n - 1) or abs(t - i) > 0.5 + tol:
            return dict(what=f'poi_to_ind({kind}): index is not a nearest node of the grid parameter', point=x, got=i, expected=t)
    return None


def o_scale(tn, X, a, b, kind):
    """poi_scale = affine map onto [lo, hi] followed by clipping"""
    d = len(X)
    av = a if isinstance(a, list) else [a] * d
    bv = b if isinstance(b, list) else [b] * d
    lo, hi = (0.0, 1.0) if kind == 'uni' else ((-1.0, 1.0) if kind == 'cheb' else tuple(kind))
    Y = np.asarray(tn.poi_scale(X, a, b, kind), dtype=float)
    if Y.shape != (d,):
        return dict(what='poi_scale: wrong shape', got=list(Y.shape))
    for x, aa, bb, y in zip(X, av, bv, Y):
        ref = Fr(lo) + (Fr(x) - Fr(aa)) * (Fr(hi) - Fr(lo)) / (Fr(bb) - Fr(aa))
        refc = min(max(ref, Fr(lo)), Fr(hi))
        if not (lo <= y <= hi):
            return dict(what=f'poi_scale({kind}): value outside the target interval', point=x, got=float(y))
        sc = max(abs(lo), abs(hi), abs(float(ref)) if lo <= ref <= hi else 0.0)
        cond = (abs(x) + abs(aa) + abs(bb)) / (bb - aa)
        tol = 16 * math.ulp(sc) * (1 + cond) * (1 + abs(hi - lo))
        if (ref < lo - tol and y != lo) or (ref > hi + tol and y != hi):
            return dict(what=f'poi_scale({kind}): point outside the box is not clipped to the end of the interval', point=x, got=float(y))
        if abs(Fr(float(y)) - refc) > tol:
            return dict(what=f'poi_scale({kind}): not the affine map of the box onto the interval', point=x, got=float(y), expected=float(refc))
    return None


def o_batch(tn, I, X, a, b, n, kind):
    """batches = singles, bit for bit"""
    A = np.asarray(tn.ind_to_poi(np.array(I), a, b, n, kind))
    S = [np.asarray(tn.ind_to_poi(i, a, b, n, kind)).tolist() for i in I]
    if A.tolist() != S:
        return dict(what='ind_to_poi: batch differs from single calls', got=A.tolist(), expected=S)
    A = np.asarray(tn.poi_to_ind(np.array(X), a, b, n, kind))
    S = [np.asarray(tn.poi_to_ind(x, a, b, n, kind)).tolist() for x in X]
    if A.tolist() != S:
        return dict(what='poi_to_ind: batch differs from single calls', got=A.tolist(), expected=S)
    A = np.asarray(tn.poi_scale(np.array(X), a, b, kind))
    S = [np.asarray(tn.poi_scale(x, a, b, kind)).tolist() for x in X]
    if A.tolist() != S:
        return dict(what='poi_scale: batch differs from single calls', got=A.tolist(), expected=S)
    return None


def o_bcast(tn, I, X, a, b, n, kind):
    """scalar options = per-dimension lists of the same value"""
    d = len(I)
    for sa, sb, sn in itertools.product([0, 1], repeat=3):
        aa, bb, nn = ([a] * d if sa else a), ([b] * d if sb else b), ([n] * d if sn else n)
        r0 = np.asarray(tn.ind_to_poi(I, a, b, n, kind)).tolist()
        r1 = np.asarray(tn.ind_to_poi(I, aa, bb, nn, kind)).tolist()
        if r0 != r1:
            return dict(what='ind_to_poi: scalar and per-dimension options differ', got=r1, expected=r0, opts=[sa, sb, sn])
        r0 = np.asarray(tn.poi_to_ind(X, a, b, n, kind)).tolist()
        r1 = np.asarray(tn.poi_to_ind(X, aa, bb, nn, kind)).tolist()
        if r0 != r1:
            return dict(what='poi_to_ind: scalar and per-dimension options differ', got=r1, expected=r0, opts=[sa, sb, sn])
        r0 = np.asarray(tn.poi_scale(X, a, b, kind)).tolist()
        r1 = np.asarray(tn.poi_scale(X, aa, bb, kind)).tolist()
        if r0 != r1:
            return dict(what='poi_scale: scalar and per-dimension options differ', got=r1, expected=r0, opts=[sa, sb])
    return None


def o_flat(tn, sh):
    G = np.asarray(tn.grid_flat(sh))
    N = int(np.prod(sh))
    if G.shape != (N, len(sh)):
        return dict(what='grid_flat: wrong shape', got=list(G.shape), expected=[N, len(sh)])
    rows = [tuple(int(x) for x in r) for r in G]
    if len(set(rows)) != N or set(rows) != set(itertools.product(*[range(k) for k in sh])):
        return dict(what='grid_flat: rows are not exactly the multi-indices below n, each once')
    for t, r in enumerate(rows):
        dig, tt = [], t
        for k in sh:
            dig.append(tt % k)
            tt //= k
        if list(r) != dig:
            return dict(what='grid_flat: row t is not the mixed-radix digit string of t with the first index fastest',
                        row=t, got=list(r), expected=dig)
    return None


def o_reject(tn, fn, args):
    """inconsistent option lengths must be rejected"""
    f = getattr(tn, fn)
    try:
        r = f(*args)
    except Exception:
        return None
    return dict(what=f'{fn}: inconsistent option lengths are not rejected', got=C.tolist(r))


def o_cdf(tn, xs, zs):
    cdf = tn.cdf_getter(list(xs))
    m = len(xs)
    Y = np.asarray(cdf(np.array(zs, dtype=float)), dtype=float)
    for z, y in zip(zs, Y):
        ref = sum(1 for x in xs if x <= z) / m
        if abs(y - ref) > 1e-12:
            return dict(what='cdf_getter: value is not #{x_i <= z}/m (right-continuous step function)', point=z, got=float(y), expected=ref)
        if float(cdf(float(z))) != y:
            return dict(what='cdf_getter: scalar call differs from array call', point=z)
    return None


def _hist_points(av, bv, nv, idx, kind):
    """points a quarter cell after node idx_k (before it for the last node): the expected index is idx_k exactly"""
    out = []
    for a, b, n, i in zip(av, bv, nv, idx):
        t = i + 0.25 if i <= n - 2 else i - 0.25
        if kind == 'uni':
            out.append(float(Fr(a) + (Fr(b) - Fr(a)) * Fr(t) / (n - 1)))
        else:
            out.append((b - a) / 2 * math.cos(math.pi * t / (n - 1)) + (b + a) / 2)
    return out


def o_history(tn, av, bv, nv, kind, calls, rows):
    """HISTORY / argument-form family: the options a, b, n are ndarrays of exactly the dtype the code converts to
    (float64 / int: np.asanyarray returns the caller's object) and are REUSED across consecutive calls.  Every call must
    give the reference answer (nodes from exact rational / libm arithmetic, indices known by construction) and must
    leave the option arrays (and its first argument) bit-for-bit unchanged."""
    d = len(av)
    a_arr, b_arr = np.array(av, dtype=float), np.array(bv, dtype=float)
    n_arr = np.array(nv, dtype=int)
    keep = [a_arr.copy(), b_arr.copy(), n_arr.copy()]
    u = max(scale_ulp(a, b) for a, b in zip(av, bv))
    w = max(b - a for a, b in zip(av, bv))
    tol = 6 * u + 8 * math.ulp(w)

    def unchanged(step, what):
        for nm, arr, k0 in zip('abn', [a_arr, b_arr, n_arr], keep):
            if arr.dtype != k0.dtype or arr.shape != k0.shape or not np.array_equal(arr, k0):
                return dict(what=f'{what} modified its option array {nm} in place (call {step + 1} of the sequence)',
                            got=arr.tolist(), expected=k0.tolist())
        return None

    for step, (fn, batch) in enumerate(calls):
        idx = rows if batch else rows[0]
        idxs = idx if batch else [idx]
        if fn == 'ind_to_poi':
            arg = np.array(idx, dtype=int)
            arg0 = arg.copy()
            got = np.asarray(tn.ind_to_poi(arg, a_arr, b_arr, n_arr, kind), dtype=float)
            ref = np.array([[_ref_node(a, b, n, i, kind) for a, b, n, i in zip(av, bv, nv, r)] for r in idxs])
            ref = ref if batch else ref[0]
            if got.shape != ref.shape or np.abs(got - ref).max() > tol:
                return dict(what=f'ind_to_poi({kind}) with ndarray options reused across calls: call {step + 1} does not '
                                 f'return the grid nodes', got=got.tolist(), expected=ref.tolist())
        else:
            pts = [_hist_points(av, bv, nv, r, kind) for r in idxs]
            arg = np.array(pts if batch else pts[0], dtype=float)
            arg0 = arg.copy()
            if fn == 'poi_to_ind':
                got = np.asarray(tn.poi_to_ind(arg, a_arr, b_arr, n_arr, kind))
                ref = np.array(idx)
                if got.shape != ref.shape or got.tolist() != ref.tolist():
                    return dict(what=f'poi_to_ind({kind}) with ndarray options reused across calls: call {step + 1} returns '
                                     f'wrong indices', got=got.tolist(), expected=ref.tolist(), points=arg.tolist())
            else:
                got = np.asarray(tn.poi_scale(arg, a_arr, b_arr, kind), dtype=float)
                lo = 0.0 if kind == 'uni' else -1.0
                ref = np.array([[lo + (x - a) * (1.0 - lo) / (b - a) for x, a, b in zip(r, av, bv)] for r in (pts if batch else [pts[0]])])
                ref = ref if batch else ref[0]
                if got.shape != ref.shape or np.abs(got - ref).max() > 1e-9 + 64 * u / w * 2:
                    return dict(what=f'poi_scale({kind}) with ndarray options reused across calls: call {step + 1} is not '
                                     f'the affine map', got=got.tolist(), expected=ref.tolist())
        if not np.array_equal(arg, arg0):
            return dict(what=f'{fn} modified its first argument in place')
        f = unchanged(step, fn)
        if f:
            return f
    return None


def o_forms(tn, av, bv, nv, kind, idx):
    """argument forms of a scalar option: Python scalar, numpy scalar, 0-d array, 1-element-per-dimension list / ndarray.
    Documented forms (int / float incl. np.float64 which IS a float, list, 1-D ndarray) must give the reference answer;
    undocumented forms (numpy integer scalars, 0-d arrays) may raise but must never return a different answer.
    Returns (failure or None, list of undocumented forms that raised)."""
    a, b, n = av[0], bv[0], nv[0]
    d = len(idx)
    pts = _hist_points([a] * d, [b] * d, [n] * d, idx, kind)
    ref_x = np.asarray(tn.ind_to_poi(list(idx), a, b, n, kind), dtype=float)
    ref_i = np.asarray(tn.poi_to_ind(list(pts), a, b, n, kind))
    ref_s = np.asarray(tn.poi_scale(list(pts), a, b, kind), dtype=float)
    if ref_i.tolist() != list(idx):
        return dict(what=f'poi_to_ind({kind}): wrong indices for quarter-cell points', got=ref_i.tolist(), expected=list(idx)), []
    raised = []
    forms_ab = [('np.float64', np.float64, True), ('list', lambda v: [v] * d, True), ('ndarray', lambda v: np.full(d, v), True),
                ('np.float32', np.float32, False), ('0-d array', lambda v: np.array(float(v)), False)]
    forms_n = [('float', float, True), ('np.float64', np.float64, True), ('list', lambda v: [v] * d, True),
               ('ndarray', lambda v: np.full(d, v, dtype=int), True), ('ndarray int32', lambda v: np.full(d, v, dtype=np.int32), True),
               ('np.int64', np.int64, False), ('np.int32', np.int32, False), ('0-d array', lambda v: np.array(int(v)), False)]
    trials = [(('a', nm), (f(a), b, n), doc) for nm, f, doc in forms_ab if nm != 'np.float32' or float(np.float32(a)) == a] + \
             [(('b', nm), (a, f(b), n), doc) for nm, f, doc in forms_ab if nm != 'np.float32' or float(np.float32(b)) == b] + \
             [(('n', nm), (a, b, f(n)), doc) for nm, f, doc in forms_n]
    for (which, nm), (aa, bb, nn), doc in trials:
        for fn, call, ref in [('ind_to_poi', lambda: tn.ind_to_poi(list(idx), aa, bb, nn, kind), ref_x),
                              ('poi_to_ind', lambda: tn.poi_to_ind(list(pts), aa, bb, nn, kind), ref_i),
                              ('poi_scale', lambda: tn.poi_scale(list(pts), aa, bb, kind), ref_s)]:
            if fn == 'poi_scale' and which == 'n':
                continue
            try:
                got = np.asarray(call())
            except Exception as e:
                if doc:
                    return dict(what=f'{fn}({kind}): option {which} given as {nm} raises {type(e).__name__} '
                                     f'(scalar and per-dimension / array forms must be interchangeable)', form=nm), raised
                raised.append(f'{fn}: {which}={nm} -> {type(e).__name__}')
                continue
            if got.shape != ref.shape or got.tolist() != ref.tolist():
                return dict(what=f'{fn}({kind}): option {which} given as {nm} changes the answer', got=got.tolist(),
                            expected=ref.tolist(), form=nm), raised
    return None, raised


def o_scale18(tn, a, b, n, kind, p2, idx, ts):
    """exact power-of-two rescaling of the box (and of the points): the grid maps are equivariant bit for bit:
    ind_to_poi(I, s a, s b) == s ind_to_poi(I, a, b); poi_to_ind(s X, s a, s b) == poi_to_ind(X, a, b); same for poi_scale"""
    s_ = lambda v: np.ldexp(np.asarray(v, dtype=float), p2)      # noqa
    sa, sb = float(s_(a)), float(s_(b))
    X = np.asarray(tn.ind_to_poi(list(idx), a, b, n, kind), dtype=float)
    Xs = np.asarray(tn.ind_to_poi(list(idx), sa, sb, n, kind), dtype=float)
    if not np.array_equal(Xs, s_(X)):
        return dict(what=f'ind_to_poi({kind}): box scaled by 2^{p2} does not give the nodes scaled by 2^{p2} exactly',
                    got=Xs.tolist(), expected=s_(X).tolist())
    back = np.asarray(tn.poi_to_ind(Xs, sa, sb, n, kind)).tolist()
    if back != list(idx):
        return dict(what=f'poi_to_ind(ind_to_poi(i)) != i on the box scaled by 2^{p2} ({kind})', got=back, expected=list(idx))
    pts = np.array([a + (b - a) * t for t in ts])
    for fn, r0, r1 in [('poi_to_ind', tn.poi_to_ind(pts, a, b, n, kind), tn.poi_to_ind(s_(pts), sa, sb, n, kind)),
                       ('poi_scale', tn.poi_scale(pts, a, b, kind), tn.poi_scale(s_(pts), sa, sb, kind)),
                       ('poi_to_ind vector options', tn.poi_to_ind(pts[:2], [a, a], [b, b], [n, n], kind),
                        tn.poi_to_ind(s_(pts[:2]), [sa, sa], [sb, sb], [n, n], kind))]:
        if np.asarray(r0).tolist() != np.asarray(r1).tolist():
            return dict(what=f'{fn}({kind}): answers change when box and points are scaled by 2^{p2}',
                        got=np.asarray(r1).tolist(), expected=np.asarray(r0).tolist())
    return None


def o_ties18(tn, p2, q2, ks):
    """uniform grid, box [0, 2^p2], n - 1 = 2^q2: a point x = t * 2^(p2 - q2) has the grid parameter t EXACTLY (every
    operation of poi_to_ind is exact).  For t = k + 1/2 (an exact tie) the index must be one of the two nearest nodes k,
    k + 1; for the doubles next to the tie the strictly nearer node; boundaries (t = -1/2 -> 0, t = n - 1/2 -> n - 1);
    single point = element of a batch."""
    b, n = math.ldexp(1.0, p2), 2 ** q2 + 1
    ts, want = [], []
    for k in ks:
        tie = k + 0.5
        lo, hi = float(np.nextafter(tie, -np.inf)), float(np.nextafter(tie, np.inf))
        ts += [tie, lo, hi]
        want += [(k, k + 1), (k, k), (k + 1, k + 1)]
    ts += [-0.5, -0.25, float(np.nextafter(0.5, 0)) - 1.0, n - 0.5, n - 0.75, float(n)]
    want += [(0, 0)] * 3 + [(n - 1, n - 1)] * 3
    xs = [math.ldexp(t, p2 - q2) for t in ts]
    if any(math.ldexp(x, q2 - p2) != t for x, t in zip(xs, ts)):
        return None
    got = np.asarray(tn.poi_to_ind(np.array(xs), 0.0, b, n, 'uni')).tolist()
    for t, x, g, w in zip(ts, xs, got, want):
        w = tuple(min(max(v, 0), n - 1) for v in w)
        if g not in w:
            return dict(what=f'poi_to_ind(uni): the point with grid parameter exactly {t!r} goes to index {g}, nearest '
                             f'node{"s" if w[0] != w[1] else ""}: {sorted(set(w))}', point=x, got=g, expected=sorted(set(w)),
                        box=[0.0, b], n=n)
    for j in (0, 1, 2, len(xs) - 3):
        one = np.asarray(tn.poi_to_ind([xs[j]], 0.0, b, n, 'uni')).tolist()
        two = np.asarray(tn.poi_to_ind(np.array([[xs[j]], [xs[j]]]), [0.0], [b], [n], 'uni')).tolist()
        if one != [got[j]] or two != [[got[j]], [got[j]]]:
            return dict(what='poi_to_ind(uni): a tie / near-tie point gets different indices as single point, in a vector '
                             'and in a batch', point=xs[j], got=[one, two], expected=got[j])
    return None


def o_offset(tn, a, w, n):
    """uniform grid on a box [a, a + w] whose offset is huge relative to its width (|a| / w up to 2^52) and whose nodes
    a + i w/(n-1) are all exact doubles: the code is exact there (measured on the unchanged tree), so ind_to_poi must
    return exactly the nodes, poi_scale exactly the correctly rounded (x - a)/(b - a) clipped to [0, 1], poi_to_ind the
    index of every node and of the exactly representable points between nodes; references in exact rational arithmetic"""
    b = a + w
    h = Fr(w, n - 1)
    I = list(range(n)) if n <= 300 else sorted({0, 1, 2, n // 3, n // 2, n - 3, n - 2, n - 1})
    ref = [Fr(a) + h * i for i in I]
    if any(Fr(float(x)) != x for x in ref):
        return None
    X = np.asarray(tn.ind_to_poi(I, a, b, n, 'uni'), dtype=float)
    if X.tolist() != [float(x) for x in ref]:
        k = [j for j in range(len(I)) if X[j] != float(ref[j])][0]
        return dict(what='ind_to_poi(uni): node of a huge-offset box is not the exactly representable grid node',
                    index=I[k], got=float(X[k]), expected=float(ref[k]))
    back = np.asarray(tn.poi_to_ind(X, a, b, n, 'uni')).tolist()
    if back != I:
        k = [j for j in range(len(I)) if back[j] != I[j]][0]
        return dict(what='poi_to_ind(ind_to_poi(i)) != i (uni) on a huge-offset box with exactly representable nodes',
                    index=I[k], got=back[k], expected=I[k])
    pts, exp_i, exp_s = [], [], []
    for i, x in zip(I, ref):
        for off in (Fr(0), Fr(1, 4), Fr(-1, 4), Fr(3, 8)):
            q_ = x + h * off
            if Fr(float(q_)) == q_:
                pts.append(float(q_))
                t = Fr(i) + off
                exp_i.append(min(max(int(t + Fr(1, 2)) if t >= 0 else 0, 0), n - 1))
                exp_s.append(float(min(max(t / (n - 1), Fr(0)), Fr(1))))
    pts += [a - w, b + w]
    exp_i += [0, n - 1]
    exp_s += [0.0, 1.0]
    S = np.asarray(tn.poi_scale(np.array(pts), a, b, 'uni'), dtype=float).tolist()
    for x, s_, e_ in zip(pts, S, exp_s):
        if abs(s_ - e_) > 4 * math.ulp(max(e_, 2.0 ** -50)):
            return dict(what='poi_scale(uni) on a huge-offset box: not the correctly rounded (x - a)/(b - a)', point=x,
                        got=s_, expected=e_)
    G = np.asarray(tn.poi_to_ind(np.array(pts), a, b, n, 'uni')).tolist()
    if G != exp_i:
        k = [j for j in range(len(pts)) if G[j] != exp_i[j]][0]
        return dict(what='poi_to_ind(uni) on a huge-offset box: exactly representable point goes to the wrong index',
                    point=pts[k], got=G[k], expected=exp_i[k])
    one = np.asarray(tn.poi_to_ind([pts[0], pts[-1]], [a, a], [b, b], [n, n], 'uni')).tolist()
    if one != [exp_i[0], exp_i[-1]]:
        return dict(what='poi_to_ind(uni) on a huge-offset box: per-dimension options differ from scalar options', got=one)
    return None


INT_DTYPES = ['int8', 'uint8', 'int16', 'uint16', 'int32', 'uint32', 'int64', 'uint64']


def o_idtypes(tn, a, b, kind, dt, n, idx):
    """index arrays of every integer dtype, with indices up to the largest value the dtype holds (n up to that + 1): the
    points are bit for bit those of the int64 index array (1-D multi-index, batches [m, 1] and [m, 2], Python list, float
    indices), the index array is unchanged, and poi_to_ind brings every index back; n given as an array of that dtype too"""
    I64 = np.array(idx, dtype=np.int64)
    shapes = [('multi-index', lambda v: v), ('batch [m,1]', lambda v: v.reshape(-1, 1)),
              ('batch [m,2]', lambda v: np.stack([v, v[::-1]], axis=1))]
    for what, sh in shapes:
        ref = np.asarray(tn.ind_to_poi(sh(I64), a, b, n, kind), dtype=float)
        forms = [(dt, sh(I64).astype(dt)), ('float64 indices', sh(I64).astype(float)), ('list', sh(I64).tolist())]
        if n <= int(np.iinfo(dt).max):
            forms.append((dt + ' (n as an array of that dtype)', sh(I64).astype(dt)))
        for nm, arg in forms:
            nn = n if 'n as an array' not in nm else np.full(np.asarray(arg).shape[-1], n, dtype=dt)
            keep = arg.copy() if isinstance(arg, np.ndarray) else None
            got = np.asarray(tn.ind_to_poi(arg, a, b, nn, kind), dtype=float)
            if got.shape != ref.shape or not np.array_equal(got, ref):
                bad = np.argwhere(got != ref)[0].tolist() if got.shape == ref.shape else None
                return dict(what=f'ind_to_poi({kind}), n = {n}: indices given as {nm} ({what}) do not give the points of '
                                 f'the int64 index array', position=bad,
                            index=(int(np.asarray(sh(I64))[tuple(bad)]) if bad else None),
                            got=(float(got[tuple(bad)]) if bad else list(got.shape)),
                            expected=(float(ref[tuple(bad)]) if bad else list(ref.shape)))
            if keep is not None and (arg.dtype != keep.dtype or not np.array_equal(arg, keep)):
                return dict(what=f'ind_to_poi({kind}) modified its index array ({nm})')
        back = np.asarray(tn.poi_to_ind(ref, a, b, n, kind))
        if back.tolist() != sh(I64).tolist():
            return dict(what=f'poi_to_ind(ind_to_poi(i)) != i ({kind}), n = {n} ({what})', got=back.tolist()[:6],
                        expected=sh(I64).tolist()[:6])
    return None


def o_bign(tn, a, b, n, kind, idx):
    """very large grids (n up to 2^20 + 1) and n = 2 on selected indices: end points, in-box, reference nodes, round trip,
    boundary / outside points, single = element of a batch"""
    u, w = scale_ulp(a, b), b - a
    X = np.asarray(tn.ind_to_poi(list(idx), a, b, n, kind), dtype=float)
    E = np.asarray(tn.ind_to_poi([0, n - 1], a, b, n, kind), dtype=float)
    lo_end, hi_end = (E[0], E[1]) if kind == 'uni' else (E[1], E[0])
    if abs(lo_end - a) > 4 * u or abs(hi_end - b) > 4 * u:
        return dict(what=f'ind_to_poi({kind}), n = {n}: end points are not the box ends (4 ulp)', got=E.tolist())
    if np.any(X < a - 4 * u) or np.any(X > b + 4 * u):
        return dict(what=f'ind_to_poi({kind}), n = {n}: node outside the box')
    for i, x in zip(idx, X):
        if abs(x - _ref_node(a, b, n, i, kind)) > 6 * u + 8 * math.ulp(w):
            return dict(what=f'ind_to_poi({kind}), n = {n}: node {i} is not the grid node', got=float(x),
                        expected=_ref_node(a, b, n, i, kind))
    back = np.asarray(tn.poi_to_ind(X, a, b, n, kind)).tolist()
    if back != list(idx):
        return dict(what=f'poi_to_ind(ind_to_poi(i)) != i ({kind}), n = {n}', got=back, expected=list(idx))
    g = np.asarray(tn.poi_to_ind(np.array([a, a - w, a - 3 * w, b, b + w, b + 3 * w]), a, b, n, kind)).tolist()
    e_lo, e_hi = (0, n - 1) if kind == 'uni' else (n - 1, 0)
    if g != [e_lo] * 3 + [e_hi] * 3:
        return dict(what=f'poi_to_ind({kind}), n = {n}: points on / outside the boundary do not go to the boundary index', got=g)
    one = np.asarray(tn.ind_to_poi([idx[-1]], a, b, n, kind))
    if one.shape != (1,) or one[0] != X[-1]:
        return dict(what='ind_to_poi: single index differs from the same index inside a multi-index')
    return None


ORACLES = dict(offset=o_offset, idtypes=o_idtypes, ties=o_ties18, pow2=o_scale18, bign=o_bign, history=o_history, grid=o_grid, points=o_points, scale=o_scale, batch=o_batch, bcast=o_bcast, flat=o_flat,
               reject=o_reject, cdf=o_cdf)


def _run(tn, name, args, fails, counter):
    counter[0] += 1
    try:
        with np.errstate(all='ignore'):
            f = ORACLES[name](tn, *args)
    except Exception as e:
        f = dict(what=f'{name}: valid call raised ' + repr(e)[:200])
    if f:
        f['check'] = name
        f['input'] = C.tolist(list(args))
        fails.append(f)
    return f


def search(R, ctx, deep, hints):
    tn = C.import_teneva()
    rng = ctx['rng']
    fails, cnt = [], [0]
    nmax = 64 if deep else 24
    skipped = 0
    # 1. every index of every grid
    for name, a, b in BOXES:
        for kind in ['uni', 'cheb']:
            for n in range(2, nmax + 1):
                if not precondition(a, b, n, kind):
                    skipped += 1
                    continue
                if _run(tn, 'grid', (a, b, n, kind), fails, cnt) and len(fails) >= 6:
                    break
    # 2. random points, nearest node
    for _ in range(400 if deep else 80):
        name, a, b = rng.choice(BOXES)
        kind, n = rng.choice(['uni', 'cheb']), rng.randint(2, nmax)
        if not precondition(a, b, n, kind):
            continue
        w = b - a
        xs = [a + w * rng.uniform(-0.3, 1.3) for _ in range(20)]
        _run(tn, 'points', (a, b, n, kind, xs), fails, cnt)
    # 3. scaling
    for _ in range(400 if deep else 100):
        d = rng.randint(1, 4)
        vec = rng.random() < 0.5
        name, a0, b0 = rng.choice(BOXES)
        if vec:
            bx = [rng.choice(BOXES) for _ in range(d)]
            a, b = [t[1] for t in bx], [t[2] for t in bx]
        else:
            a, b = a0, b0
        av = a if vec else [a] * d
        bv = b if vec else [b] * d
        X = [aa + (bb - aa) * rng.choice([rng.uniform(-0.5, 1.5), 0.0, 1.0, 0.5, -1.0, 2.0]) for aa, bb in zip(av, bv)]
        kind = rng.choice(['uni', 'cheb', [-2.0, 5.0], [0.25, 0.5], [-1e3, 1e3]])
        _run(tn, 'scale', (X, a, b, kind), fails, cnt)
    # 4. batches and option broadcasting
    for _ in range(120 if deep else 40):
        d, m = rng.randint(1, 4), rng.randint(1, 5)
        name, a, b = rng.choice(BOXES)
        kind, n = rng.choice(['uni', 'cheb']), rng.randint(2, nmax)
        I = [[rng.randrange(n) for _ in range(d)] for _ in range(m)]
        X = [[a + (b - a) * rng.uniform(-0.2, 1.2) for _ in range(d)] for _ in range(m)]
        _run(tn, 'batch', (I, X, a, b, n, kind), fails, cnt)
        _run(tn, 'bcast', (I[0], X[0], a, b, n, kind), fails, cnt)
    # 4b. HISTORY / argument-form family: ndarray options of the exact target dtype reused across 2-3 consecutive calls
    seqs = [[('ind_to_poi', False), ('ind_to_poi', False), ('poi_to_ind', False)],
            [('ind_to_poi', False), ('poi_to_ind', False), ('ind_to_poi', True)],
            [('poi_to_ind', False), ('ind_to_poi', False), ('ind_to_poi', False)],
            [('ind_to_poi', True), ('ind_to_poi', False), ('poi_to_ind', True)],
            [('poi_scale', False), ('ind_to_poi', False), ('poi_scale', True)],
            [('poi_to_ind', True), ('poi_to_ind', True), ('ind_to_poi', True)],
            [('ind_to_poi', False), ('ind_to_poi', True)], [('poi_to_ind', False), ('poi_to_ind', False)]]
    hb = [bx for bx in BOXES if bx[0] in ('unit', 'sym', 'asym', 'asym2', 'neg', 'offset1e6', 'tiny', 'huge-asym', 'pi')]
    for t in range(240 if deep else 64):
        d, m = rng.randint(1, 4), rng.randint(1, 4)
        kind = rng.choice(['uni', 'cheb'])
        bx = [rng.choice(hb) for _ in range(d)]
        av, bv = [x[1] for x in bx], [x[2] for x in bx]
        nv = [rng.randint(2, 12) for _ in range(d)]
        if not all(precondition(a, b, n, kind) for a, b, n in zip(av, bv, nv)):
            continue
        rows = [[rng.randrange(n) for n in nv] for _ in range(m)]
        _run(tn, 'history', (av, bv, nv, kind, seqs[t % len(seqs)], rows), fails, cnt)
    undocumented = set()
    for t in range(60 if deep else 16):
        name, a, b = rng.choice(hb)
        kind, n = rng.choice(['uni', 'cheb']), rng.randint(2, 12)
        if not precondition(a, b, n, kind):
            continue
        idx = [rng.randrange(n) for _ in range(rng.randint(1, 3))]
        cnt[0] += 1
        try:
            with np.errstate(all='ignore'):
                f, raised = o_forms(tn, [a], [b], [n], kind, idx)
        except Exception as e:
            f, raised = dict(what='forms: valid call raised ' + repr(e)[:200]), []
        undocumented.update(raised)
        if f:
            f['check'] = 'forms'
            f['input'] = C.tolist([[a], [b], [n], kind, idx])
            fails.append(f)
    if undocumented:
        R.notes.append('observation (reported to the lead): option forms outside the documented types (int, float, list, '
                       'np.ndarray) that raise instead of being treated as scalars: ' + '; '.join(sorted(undocumented)))
    # 4c. scales: boxes with a, b = +-2^+-500 (and 2^+-1000), the narrowest boxes the precondition admits at offset 2^40,
    #     exact power-of-two equivariance, n = 2 and n = 2^20 (+1)
    P5, M5, PK, MK = 2.0 ** 500, 2.0 ** -500, 2.0 ** 1000, 2.0 ** -1000
    sboxes = [(-P5, P5), (0.0, P5), (P5, 2 * P5), (-3 * P5, -P5), (0.0, M5), (M5, 2 * M5), (-M5, M5), (-M5, P5),
              (-PK, PK), (PK, 2 * PK), (0.0, MK), (MK, 3 * MK), (-MK, MK),
              (2.0 ** 40, 2.0 ** 40 + 0.25), (2.0 ** 40, 2.0 ** 40 + 64.0), (-2.0 ** 40 - 1.0, -2.0 ** 40)]
    for a, b in sboxes:
        for kind in ['uni', 'cheb']:
            for n in [2, 3, 17, 2 ** 20, 2 ** 20 + 1]:
                if not precondition(a, b, n, kind):
                    skipped += 1
                    continue
                idx = sorted(v for v in {0, 1, n // 2, n - 2, n - 1} if 0 <= v < n) + [rng.randrange(n) for _ in range(6)]
                _run(tn, 'bign', (a, b, n, kind, idx), fails, cnt)
    for t in range(160 if deep else 48):
        name, a, b = rng.choice(BOXES[:14])
        kind, n = rng.choice(['uni', 'cheb']), rng.choice([2, 3, 5, 24, 2 ** 20])
        if not precondition(a, b, n, kind):
            continue
        p2 = rng.choice([500, -500, 1, -1, 200, -200, 900 - int(math.log2(max(abs(a), abs(b), 1.0))),
                         -900 - int(math.log2(min(max(abs(a), abs(b)), b - a)))])
        idx = [rng.randrange(n) for _ in range(5)] + [0, n - 1]
        ts = [rng.uniform(-0.3, 1.3) for _ in range(6)] + [0.0, 1.0]
        _run(tn, 'pow2', (a, b, n, kind, p2, idx, ts), fails, cnt)
    # 4f. boxes whose offset is huge relative to their width, on exactly representable nodes (exact rational references)
    for a in [2.0 ** 52, -(2.0 ** 52), 2.0 ** 40, -(2.0 ** 40), 1e16, -1e16, 2.0 ** 52 - 8.0, 2.0 ** 30, -(2.0 ** 45), 2.0 ** 50]:
        for w in [24, 40, 2, 8, 64, 1024, 2 ** 20, 6, 48]:
            if (a + w) - a != w:
                continue
            u = max(math.ulp(a), math.ulp(a + w))
            divs = [n for n in range(2, min(w, 4096) + 2) if w % (n - 1) == 0 and (w // (n - 1)) % u == 0]
            for n in (divs if len(divs) <= 6 or deep else rng.sample(divs, 6)):
                _run(tn, 'offset', (a, w, n), fails, cnt)
    # 4e. index arrays of every integer dtype up to the largest value the dtype holds (n up to that + 1), both kinds
    for dt in INT_DTYPES:
        mx = int(np.iinfo(dt).max)
        for n in sorted({min(mx + 1, 2 ** 40 + 1), min(mx, 2 ** 40), min(mx // 2 + 2, 2 ** 20 + 1), 17}):
            for kind in ['uni', 'cheb']:
                name, a, b = rng.choice([bx for bx in BOXES if bx[0] in ('unit', 'sym', 'asym', 'asym2', 'neg')])
                if not precondition(a, b, n, kind):
                    skipped += 1
                    continue
                top = min(mx, n - 1)
                idx = sorted(v for v in {0, 1, top // 4, top // 2 - 1, top // 2, top // 2 + 1, (3 * top) // 4, top - 1, top} if 0 <= v < n) + \
                    [rng.randrange(top + 1) for _ in range(5)]
                _run(tn, 'idtypes', (a, b, kind, dt, n, idx), fails, cnt)
    # 4d. exact ties of the rounding step and the doubles next to them (both parities of k, k = 0, boundaries)
    for p2 in [0, 3, -7, 40, -40, 500, -500]:
        for q2 in [1, 2, 4, 10, 20]:
            ks = sorted({0, 1, 2, 3, 2 ** q2 - 2, 2 ** q2 - 1} & set(range(2 ** q2))) + \
                [rng.randrange(2 ** q2) for _ in range(4)]
            _run(tn, 'ties', (p2, q2, ks), fails, cnt)
    # 5. grid_flat
    shapes = [[1], [2], [5], [1, 1], [2, 3], [3, 2], [4, 1, 2], [2, 2, 2, 2], [3, 4, 5], [1, 2, 3, 4]]
    for _ in range(30 if deep else 8):
        shapes.append([rng.randint(1, 5) for _ in range(rng.randint(1, 5))])
    for sh in shapes:
        _run(tn, 'flat', (sh,), fails, cnt)
    # 6. rejection of inconsistent lengths
    rej = [('grid_prep_opts', ([1., 2.], [1., 2., 3.], None)), ('grid_prep_opts', ([1., 2.], 3., [4, 5, 6])),
           ('grid_prep_opts', (None, [1., 2.], [4], None)), ('grid_prep_opts', ([1., 2.], 3., 4, 3)),
           ('grid_prep_opts', (1., 2., 3)), ('grid_prep_opts', (1., 2., 3, 0)),
           ('ind_to_poi', ([1, 2], [0., 0., 0.], 1., 4)), ('ind_to_poi', ([1, 2], 0., [1., 1., 1.], 4)),
           ('ind_to_poi', ([1, 2], 0., 1., [4, 4, 4])), ('ind_to_poi', ([1], 0., 1., [4, 4, 4])),
           ('ind_to_poi', ([[1, 2], [0, 1]], 0., [1.], 4)),
           ('poi_scale', ([.1, .2], [0., 0., 0.], 1.)), ('poi_scale', ([.1, .2], 0., [1.])),
           ('poi_scale', ([.1], 0., [1., 2.])),
           ('poi_to_ind', ([.1, .2], [0., 0., 0.], 1., 4)), ('poi_to_ind', ([.1, .2], 0., [1.], 4)),
           ('poi_to_ind', ([.1, .2], 0., 1., [4, 4, 4])), ('poi_to_ind', ([.1, .2, .3], 0., 1., [5])),
           ('poi_to_ind', ([[.1, .2], [.3, .4]], 0., 1., [4, 4, 4])),
           ('poi_to_ind', ([[.1], [.3]], 0., 1., [4, 4, 4])), ('poi_to_ind', ([.1], 0., 1., [])),
           ('poi_to_ind', ([.1], [0.], [1.], [4, 5])), ('poi_to_ind', ([.1], 0., 1., np.array([4, 5, 6]))),
           ('poi_to_ind', ([.1], 0., 1., [4, 5, 6], 'cheb')), ('poi_to_ind', ([[.1]], 0., 1., [4, 5, 6], 'cheb'))]
    for fn, args in rej:
        _run(tn, 'reject', (fn, list(args)), fails, cnt)
    # the input of the (fixed) finding: n of poi_to_ind longer than the dimension d = 1 (bc9fc68)
    f = _run(tn, 'reject', ('poi_to_ind', [[.1], 0., 1., [4, 5, 6]]), [], cnt)
    if f:
        f['finding_key'] = 'C18-poi_to_ind-n-length'
        f['what'] = 'poi_to_ind: a list n longer than the dimension d=1 is not rejected (n must go through the length ' \
                    'validation of grid_prep_opts; fix bc9fc68 reverted?)'
        fails.append(f)
    # observation, not a verdict: a TUPLE-valued option is outside the documented argument types (float, list,
    # np.ndarray) and outside the model; grid_prep_opts does not length-validate it.  Recorded in the evidence notes.
    try:
        r = tn.poi_to_ind([.1], 0., 1., (4, 5, 6))
        R.notes.append('observation (reported to the lead, outside the documented argument types and the modelled domain): '
                       'tuple-valued options skip the length validation of grid_prep_opts, e.g. '
                       'poi_to_ind([0.1], 0., 1., (4, 5, 6)) returned %s' % C.tolist(np.asarray(r)))
    except Exception:
        pass
    # 7. cdf
    for _ in range(200 if deep else 50):
        m = rng.randint(1, 12)
        xs = [float(rng.choice([rng.randint(-4, 4), round(rng.uniform(-3, 3), 1), rng.uniform(-3, 3)])) for _ in range(m)]
        zs = list(xs) + [float(np.nextafter(x, -np.inf)) for x in xs] + [float(np.nextafter(x, np.inf)) for x in xs]
        zs += [min(xs) - 1, max(xs) + 1, rng.uniform(-4, 4), -1e300, 1e300]
        _run(tn, 'cdf', (xs, zs), fails, cnt)
    R.search.append(dict(name='grid maps: every index of every grid n<=%d over %d boxes x 2 kinds; points, scaling, '
                              'batches, options, option arrays reused across calls (history), argument forms, grid_flat, rejection, cdf' % (nmax, len(BOXES)),
                         evaluations=cnt[0], failures=len(fails), deep=deep,
                         grids_skipped_by_precondition=skipped,
                         precondition='adjacent nodes differ by >= 2^10 ulp(max(|a|,|b|))'))
    return fails[:20]


def replay(data):
    tn = C.import_teneva()
    p = data['payload']
    print(data['what'])
    if isinstance(p, dict) and p.get('check') == 'forms':
        with np.errstate(all='ignore'):
            f, _ = o_forms(tn, *p['input'])
        print('input:', p['input'])
        print('replayed:', f)
        return 1 if f else 0
    if isinstance(p, dict) and p.get('check') in ORACLES:
        args = p['input']
        try:
            with np.errstate(all='ignore'):
                f = ORACLES[p['check']](tn, *args)
        except Exception as e:
            f = dict(what='raised ' + repr(e)[:200])
        print('input:', args)
        print('replayed:', f)
        return 1 if f else 0
    print('no replayable input (broken proof / correspondence):', str(p)[:2000])
    return 1
