"""C03 — TT-SVD: svd / svd_matrix / matrix_skeleton / full_matrix.

correspondence streams
  f_svd            PrimFloat instance of Model/Svd.v:svd with the recorded np.linalg.svd outputs replayed by call number;
                   cores compared BIT FOR BIT (every other float operation is mirrored one by one in the model)
  f_svd_threshold  same, e placed exactly at / a relative 1e-9 around every rank change of the first unfolding
  f_skeleton       matrix_skeleton, three give_to, rel on/off, caps
  f_svd_matrix     svd_matrix end to end (+ malformed shapes -> exception class)
  z_interleave     exact (instance Z): the array svd_matrix hands to svd (captured), full_matrix in both orders
  svd_contract     the oracle contract assumed by the theorems, validated numerically on every recorded LAPACK call
search: dense numpy reference on the implementation only (error bound at every scale, ranks vs dense SVD of the input
unfoldings, exact-rank reproduction, round trip through full_matrix, skeleton optimality / variants, matrix_svd lightly).
"""
import math
import sys
import numpy as np
from harness import common as C

THEOREMS = 'Properties/C03.v'
CLAIM = dict(
    text='Coq theorems about the models Model/Svd.v (rank_select, matrix_skeleton, svd: mirror of teneva/svd.py with '
         'give_to="r" in the sweep) and Model/SvdMatrix.v (svd_matrix, full_matrix), unbounded in d, mode sizes and ranks. '
         'PROVED IN FULL: (1) C03_svd_wf, for every oracle: result has the mode sizes of the input, boundary ranks 1, matching '
         'consecutive ranks, every rank in 1..max(1,int r); C03_rank_select_bounds: 1<=q<=max(1,r), q<=max(1,len). '
         '(2) C03_sweep_error_identity, any commutative ring: for every run whose recorded np.linalg.svd answers meet the '
         'contract (A=U diag(s) V, U^T U=I, V V^T=I), the squared Frobenius error of the produced chain against the dense '
         'remainder EQUALS the sum of the tail energies discarded by the steps; C03_skeleton_residual: one step (left factor '
         'orthonormal, residual orthogonal to it, |residual|^2 = discarded energy). (3) at the reals: C03_rank_select_tail (cap '
         'not binding => discarded energy <= e^2), C03_svd_error_sq (error^2 = sum of tails <= (d-1) e^2), C03_svd_error '
         '(error <= e sqrt(d-1), no hypothesis on the magnitude of the data), C03_svd_error_contract (same, for every routine '
         'meeting the contract on all non-empty matrices, cap >= number of entries), C03_svd_exact / C03_svd_exact_e0 (zero '
         'discarded energy, e.g. e=0 without binding cap => every entry reproduced exactly). (3b) exact ranks: '
         'C03_rank_select_exact (spectrum with rho entries above the budget followed by zeros, cap>=rho: exactly rho is chosen), '
         'C03_svd_exact_ranks (a run whose factorised matrices have exact-rank spectra - oracle clause s_i>0 <-> i<rho_k - with '
         'e below the positive singular values and cap>=rho_k returns exactly the ranks rho_k, discards zero energy, cap never '
         'binds; with C03_svd_exact: exact reproduction), C03_first_unfolding (the first factorised matrix IS the first '
         'unfolding of the input, so the first bond is full), C03_link_step / C03_svd_exact_ranks_unfoldings_partial (every '
         'bond: the k-th unfolding of the INPUT has a contract-meeting SVD U\' diag(s_k) V_k with the recorded s_k, V_k, because '
         'the factorised matrix is P^T X_k with P the orthonormal prefix and nothing was lost before; PARTIAL only in that the '
         'independence of the number of positive singular values from the chosen SVD - uniqueness of singular values - is not '
         'proved). (3c) rel=True: C03_rel_tail / C03_rel_minimal (same as rank_select_tail/_minimal with e replaced by e*s_0, '
         's_0>0), C03_rank_select_nocut (any carrier: if no comparison of the cumulative sums succeeds - the NaN case s_0=0 of '
         'the code - no rank is cut: q=max(1,min(r,len))). (4) C03_skeleton_variants: the '
         'three give_to give factors m x q, q x n with the same q and the same product U_q diag(s_q) V_q (give_to="m" under '
         'sqrt(x)^2=x); rel=True selects q from s/s_0 (by definition of skel_rank). (5) C03_interleave_get, '
         'C03_full_matrix_get (both orders), C03_interleave_inv, every q>=1: svd_matrix stores Y[i,j] at t_k=bit_k(i)+2bit_k(j); '
         'full_matrix(order="F") reads exactly that position back, so its entrywise error is the TT-SVD error re-indexed and '
         'an exact decomposition returns Y; C03_svd_matrix_rej_empty/_1x1/_shape (0 rows -> OverflowError class, 1x1 -> '
         'IndexError, anything not 2^q x 2^q -> ValueError), C03_svd_matrix_wf (accepted => 2^q x 2^q, q>=1, q cores of mode 4, '
         'boundary ranks 1, ranks within cap), C03_full_matrix_rej_empty/_size/_boundary, C03_full_matrix_wf; '
         'C03_svd_matrix_error (reals): Frobenius error of full_matrix(svd_matrix(A,e)) '
         '<= e sqrt(q-1) (the interleaving is a bijection of index sets: sums over entries = sums over positions). '
         'NOT PROVED, checked numerically by the search only (need Eckart-Young / singular value interlacing): product of the '
         'factors is a BEST rank-q approximation; each TT-rank <= smallest rank whose tail energy in the unfolding of the INPUT '
         'is <= e; "exactly those ranks" for exact-rank inputs; minimality of q in the rank rule (q>1 => tail(q-1) > e^2) is '
         'tied by the bit-exact threshold stream and the search, not proved; the Frobenius norm of the full_matrix round trip as '
         'a sum (only the entrywise transport is proved); matrix_svd: its theorems belong to C02; here its model (Svd.matrix_svd) is tied to the code by the stream f_matrix_svd '
         '(replayed eigh, inner size exact, entries to 1e-9) and it is searched (best rank-q product, scale covariance).',
    note='Scale covariance (search clause covar, every factorisation: matrix_svd, matrix_skeleton with the three give_to and rel, '
         'svd, svd_matrix): the same data at scales 2^-40..2^40 (exact) and 1e-6..1e6 (to rounding) with e scaled alike gives the '
         'same inner sizes / ranks and scaled products; e at geometric midpoints between tail values, decaying spectra down to '
         '1e-6 relative. Cross-cutting families (correspondence stream f_forms / history and search clauses forms, history, pow2, herm): '
         'argument forms (dense input as int64 / int32 / uint8 / F-ordered / strided / negative-stride arrays; e as Python float / '
         'int / np.float64 / 0-d array incl. e = 0; r as int / float / np.int64 / np.int32 / np.float64 / 0-d array; rel and hermitian '
         'as bool / int / np.bool_; give_to explicit vs default; int / F-ordered / strided / mixed cores for full_matrix) must give '
         'results bit-identical to the canonical form and to the model; the same objects used twice and interleaved across the '
         'four routines give identical results and are bit-identical afterwards; exact power-of-two rescalings 2^+-100..2^+-500 '
         '(equivariance bit-exact up to 2^+-300, the property itself at every scale), exact ties tail == e^2 at 2^+-500, mode '
         'size 1, d = 2, matrix_skeleton(hermitian=True) on exactly symmetric input. Kept OUT on purpose: float32 input is '
         'checked only up to float32 rounding (the result is float32, error ~1e-7 |A|: the bound e*sqrt(d-1) cannot hold below '
         'that; np.float32 e is compared through the property because e**2 is then rounded to float32); float16 input and list '
         'input raise (TypeError / AttributeError: not ndarrays LAPACK accepts); scales beyond 2^+-500 and subnormal data, where '
         'the SQUARED spectrum under/overflows, are outside the property (singular values below ~2^-537 have zero computed '
         'energy). Model tied to /repo on every run by bit-for-bit comparison (PrimFloat instance, recorded np.linalg.svd outputs '
         'replayed by call number) of every core of svd / svd_matrix and both factors of matrix_skeleton, incl. e placed exactly '
         'at and 1e-9 around every rank change; exact Z comparison of the interleaved array (captured from svd_matrix) and of '
         'full_matrix in both orders; malformed shapes by exception class. Reverting fix 9b72a17 (give_to="r") is detected by '
         'correspondence and by the search (error bound at scales >> 1).',
    technique='Coq proof (structural induction over the sweep with a Pythagoras step; ring-generic, then Reals) + '
              'bit-exact float replay correspondence + dense numpy reference search')
TRUSTED = ['Coq 8.16.1 kernel; vm_compute only for case evaluation; Reals axioms of the standard library under the R theorems',
           'hand-written models Model/Svd.v (svd, matrix_skeleton, rank_select) and Model/SvdMatrix.v, tied to teneva by '
           'bit-exact / exact correspondence on every run',
           'oracle contract svd_ok for np.linalg.svd(full_matrices=False): A = U diag(s) V, U^T U = I, V V^T = I, '
           '1 <= len(s) <= columns (validated numerically to 1e-11 on every recorded call; sortedness not needed by the proofs)',
           'numpy semantics of reshape (C and F order), transpose, diag, @ with a diagonal factor, cumsum (sequential), '
           'where; e**2 modelled as e*e (generated e satisfy e**2 == e*e exactly)',
           'IEEE rounding is outside the theorems (exact arithmetic); the float instance of the same terms is only executed']
ASSUMPTIONS = ['mode sizes are positive; int(r) is passed to the model as an integer',
               'error theorems: the recorded answers of np.linalg.svd on the calls of the run meet svd_ok (calls_ok), and the '
               'rank cap does not bind (cap_free; implied by r >= number of entries)',
               'full_matrix is modelled for chains with boundary ranks 1']
TIME_LIMIT = {'quick': 900, 'thorough': 5400}

HEADER = r'''
From Coq Require Import List ZArith Floats.
From TV Require Import Num.Ops Num.InstF Lin.Mat TT.Chain Model.Svd Model.SvdMatrix.
Import ListNotations.
Definition eorc (w : list float) (U : mat float) (k : nat) (_ : mat float) := (w, U).
Definition aorc (idx : list nat) (k : nat) (_ : list float) := idx.
Definition dm : mat float := mk_mat 0 0 [].
Definition orc (l : list (mat float * list float * mat float)) (k : nat) (_ : mat float) := nth k l (dm, [], dm).
Definition cty := ((Z * Z * Z) * list (list (list (Z * Z))))%type.
Definition showc (G : core float) : cty :=
  ((Z.of_nat (cr1 G), Z.of_nat (cn G), Z.of_nat (cr2 G)), map (map (map F_show)) (dat G)).
Definition showY (Y : list (core float)) : list cty := map showc Y.
Definition showR (r : result (list (core float))) : list cty :=
  match r with Ok Y => ((0, 0, 0)%Z, []) :: showY Y | Err e => [((err_code e, 0, 0)%Z, [])] end.
Definition showm (A : mat float) : cty := ((Z.of_nat (mr A), Z.of_nat (mc A), 0%Z), [map (map F_show) (md A)]).
Definition showUV (p : mat float * mat float) : list cty := [showm (fst p); showm (snd p)].
Definition showMZ (r : result (mat Z)) : list (list Z) :=
  match r with Ok M => [0%Z; Z.of_nat (mr M); Z.of_nat (mc M)] :: md M | Err e => [[err_code e]] end.
Definition showLZ (l : list Z) : list (list Z) := [[0%Z]; l].
'''

RDEF = 10 ** 12


# ----------------------------------------------------------------------------------------------------
# literals, recorders
# ----------------------------------------------------------------------------------------------------

def _fl(x):
    return C.flit(float(x))


def _fmat(A):
    A = np.asarray(A, float)
    if A.ndim == 1:
        A = A.reshape(1, -1)
    m, n = A.shape
    return f'(mk_mat {m} {n} {C.nested(A.tolist(), _fl)}%float)'


def _flist(v):
    return '[' + '; '.join(_fl(x) for x in np.asarray(v, float).reshape(-1)) + ']%float'


def _fe(e):
    return f'({_fl(e)})%float'


def _orc(calls):
    return '(orc [' + '; '.join(f'({_fmat(U)}, {_flist(s)}, {_fmat(V)})' for _, (U, s, V) in calls) + '])'


def _zmat(A):
    A = np.asarray(A)
    m, n = A.shape
    return f'(mk_mat {m} {n} {C.nested(A.astype(int).tolist(), C.zlit)}%Z)'


def _zcore(G):
    G = np.asarray(G)
    return f'(mk_core {G.shape[0]} {G.shape[1]} {G.shape[2]} {C.nested(G.astype(int).tolist(), C.zlit)}%Z)'


class SvdRec:
    """records every np.linalg.svd call (module attribute looked up by teneva at call time; /repo is not edited)"""

    def __enter__(self):
        self.calls = []
        self.herm = False                 # the model's oracle is the general SVD: hermitian=True is a deviation
        self.orig = np.linalg.svd

        def wrapped(A, *a, **k):
            out = self.orig(A, *a, **k)
            self.calls.append((np.array(A, float), [np.array(x, float) for x in out]))
            if k.get('hermitian', False) or (len(a) > 2 and a[2]):
                self.herm = True
            return out
        np.linalg.svd = wrapped
        return self

    def __exit__(self, *a):
        np.linalg.svd = self.orig


class SvdStub:
    """captures what svd_matrix hands to svd (global name `svd` of module teneva.svd)"""

    def __init__(self):
        self.m = sys.modules['teneva.svd']

    def __enter__(self):
        self.args = []
        self.orig = self.m.svd

        def stub(Z, *a, **k):
            self.args.append(np.array(Z))
            return []
        self.m.svd = stub
        return self

    def __exit__(self, *a):
        self.m.svd = self.orig


def _contract(calls):
    """np.linalg.svd(A, full_matrices=False) -> U, s, V: what the theorems assume of the oracle"""
    for A, (U, s, V) in calls:
        m, n = A.shape
        p = min(m, n)
        if not np.all(np.isfinite(A)):
            continue
        sc = max(np.abs(A).max(), 1e-300)
        if U.shape != (m, p) or s.shape != (p,) or V.shape != (p, n):
            return f'shapes {U.shape} {s.shape} {V.shape} for A {A.shape}'
        if np.any(s < 0) or np.any(np.diff(s) > 0):
            return 'singular values not sorted / negative'
        r1 = np.abs(U.T @ U - np.eye(p)).max()
        r2 = np.abs(V @ V.T - np.eye(p)).max()
        r3 = np.abs((U * s) @ V - A).max() / sc
        if max(r1, r2, r3) > 1e-11:
            return f'residuals UtU {r1:.1e} VVt {r2:.1e} A {r3:.1e}'
    return None


def _sq_ok(e):
    return e ** 2 == e * e


def _pick_e(rng, base):
    """a float close to base with e**2 == e*e (libm pow is not always correctly rounded; the model squares by e*e)"""
    for _ in range(50):
        e = float(base) * (1.0 if _ == 0 else rng.uniform(0.9, 1.1))
        if _sq_ok(e):
            return e
    return float(base)


def _pack(A):
    A = np.asarray(A, float)
    return dict(shape=list(A.shape), data=[float(x).hex() for x in A.reshape(-1)])


def _unpack(p):
    return np.array([float.fromhex(x) for x in p['data']], float).reshape(p['shape'])


# ----------------------------------------------------------------------------------------------------
# generators
# ----------------------------------------------------------------------------------------------------

def _dense_of_cores(cores):
    Z = cores[0]
    for G in cores[1:]:
        Z = np.tensordot(Z, G, 1)
    return Z.reshape(Z.shape[1:-1])


def _rand_cores(g, ns, rho):
    rk = [1] + [rho] * (len(ns) - 1) + [1]
    for k in range(1, len(ns)):
        rk[k] = max(1, min(rk[k], int(np.prod(ns[:k])), int(np.prod(ns[k:]))))
    for k in range(1, len(ns)):          # ranks must also be carried by the neighbours
        rk[k] = min(rk[k], rk[k - 1] * ns[k - 1])
    for k in range(len(ns) - 1, 0, -1):
        rk[k] = min(rk[k], rk[k + 1] * ns[k])
    return [g.normal(size=(rk[k], ns[k], rk[k + 1])) for k in range(len(ns))], rk


def _gen_shape(rng, dmax=5, nmax=4, total=300):
    while True:
        d = rng.randint(2, dmax)
        ns = [rng.randint(1, nmax) for _ in range(d)]
        if rng.random() < 0.7:
            ns = [max(2, n) for n in ns]
        if int(np.prod(ns)) <= total:
            return ns


SQUARE_SHAPES = [(2, 2), (3, 3), (4, 4), (5, 5), (6, 6), (4, 2, 2), (6, 2, 3), (6, 3, 2), (8, 2, 4), (9, 3, 3),
                 (1, 3, 3), (1, 4, 4), (1, 6, 6), (4, 4, 1), (1, 2, 2, 4), (2, 2, 4), (2, 3, 6)]
STRUCT = ['sym', 'skew', 'orth', 'diag', 'lowrank', 'sympsd']


def _square_dim(shape):
    """size n of the square matrix the structured family is laid into (first non-trivial unfolding)"""
    tot = int(np.prod(shape))
    n = int(round(math.sqrt(tot)))
    return n if n * n == tot else None


def _structured(g, rng, shape, kind, p):
    """dense array of the given shape whose n x n unfolding is base + p * |base| * noise, base of the given kind"""
    n = _square_dim(shape)
    S = g.normal(size=(n, n))
    if kind == 'sym':
        B = S + S.T
    elif kind == 'sympsd':
        B = S @ S.T
    elif kind == 'skew':
        B = S - S.T if n > 1 else S
    elif kind == 'orth':
        B = np.linalg.qr(S)[0]
    elif kind == 'diag':
        B = np.diag(g.normal(size=n))
    else:
        k = rng.randint(1, max(1, n - 1))
        B = g.normal(size=(n, k)) @ g.normal(size=(k, n))
        if rng.random() < 0.5:
            B = B + B.T
    N = g.normal(size=(n, n))
    nb = max(float(np.linalg.norm(B)), 1e-300)
    M = B + p * nb / float(np.linalg.norm(N)) * N
    return M.reshape(shape), p * nb


def _decaying(g, rng, shape, lo):
    """array whose first unfolding has singular values decaying geometrically from 1 to lo"""
    m = shape[0]
    n = int(np.prod(shape[1:]))
    k = min(m, n)
    U = np.linalg.qr(g.normal(size=(m, k)))[0]
    V = np.linalg.qr(g.normal(size=(n, k)))[0]
    sv = lo ** (np.arange(k) / max(1, k - 1))
    return ((U * sv) @ V.T).reshape(shape)


FAMS = ['full', 'full', 'full', 'lowrank', 'lowrank', 'zero', 'rank1', 'const', 'int']


def _gen_tensor(g, rng, fam, ns):
    if fam == 'full':
        return g.normal(size=ns)
    if fam == 'lowrank':
        cores, _ = _rand_cores(g, ns, rng.randint(1, 3))
        return _dense_of_cores(cores)
    if fam == 'zero':
        return np.zeros(ns)
    if fam == 'rank1':
        cores, _ = _rand_cores(g, ns, 1)
        return _dense_of_cores(cores)
    if fam == 'const':
        return np.ones(ns)
    return g.integers(-3, 4, size=ns).astype(float)


def _scale(rng):
    return 10.0 ** rng.choice([-6, -3, -1, 0, 0, 1, 3, 6])


def _cap(rng):
    return rng.choice([RDEF, RDEF, 1e12, 1, 2, 3, 2.7, 4])



# ----------------------------------------------------------------------------------------------------
# argument forms / histories (cross-cutting families)
# ----------------------------------------------------------------------------------------------------

ARR_FLOAT_FORMS = ['c', 'f', 'strided', 'negstride']
ARR_INT_FORMS = ['int64', 'int32', 'uint8', 'f_int']
R_FORMS = ['int', 'float', 'np_int64', 'np_int32', 'np_float64', 'arr0d']
E_FORMS = ['float', 'np64', 'arr0d']


def _arr_form(A, form):
    """the same values as the float64 C-contiguous array A, in another documented form of np.ndarray"""
    A = np.ascontiguousarray(np.array(A, float))
    if form == 'c':
        return A.copy()
    if form == 'f':
        return np.asfortranarray(A)
    if form == 'strided':
        B = np.zeros(A.shape[:-1] + (2 * A.shape[-1],))
        B[..., ::2] = A
        return B[..., ::2]
    if form == 'negstride':
        return A[::-1].copy()[::-1]
    if form == 'f_int':
        return np.asfortranarray(A.astype(np.int64))
    return A.astype(dict(int64=np.int64, int32=np.int32, uint8=np.uint8)[form])


def _r_form(r, form):
    """forms of the cap whose int() is int(r)"""
    k = int(r)
    return dict(int=k, float=k + 0.7, np_int64=np.int64(k), np_int32=np.int32(min(k, 2 ** 31 - 1)),
                np_float64=np.float64(k + 0.2), arr0d=np.array(k))[form]


def _e_form(e, form):
    return dict(float=float(e), np64=np.float64(e), arr0d=np.array(float(e)))[form]


def _flag_form(b, i):
    return [bool(b), int(b), np.bool_(b)][i % 3]


def _same_list(Y1, Y2):
    return len(Y1) == len(Y2) and all(np.shape(a) == np.shape(b) and np.array_equal(a, b, equal_nan=True)
                                      for a, b in zip(Y1, Y2))

# ----------------------------------------------------------------------------------------------------
# correspondence
# ----------------------------------------------------------------------------------------------------

def _tofloat(x):
    if isinstance(x, tuple):
        return C.float_of_show(x)
    return [_tofloat(y) for y in x]


def _same(model_nested, arr):
    try:
        a = np.array(_tofloat(model_nested), float).reshape(np.shape(arr))
    except Exception:
        return False
    return np.array_equal(a, np.asarray(arr, float), equal_nan=True)


def _cmp_cores(model, Y):
    """model: list of ((r1,n,r2), data); Y: list of numpy cores"""
    if len(model) != len(Y):
        return f'{len(model)} cores vs {len(Y)}'
    for k, (item, G) in enumerate(zip(model, Y)):
        sh, dat = item[:3], item[3]          # Coq prints ((a, b, c), l) as the flat tuple (a, b, c, l)
        if tuple(sh) != tuple(G.shape):
            return f'core {k}: shape {tuple(sh)} vs {tuple(G.shape)}'
        if G.size and not _same(dat, G):
            return f'core {k}: entries differ'
    return None


def _float_stream(R, name, items, cmpf, dist, chunk=12):
    """items: dict coq, impl, input, [contract]; cmpf(model_value, impl) -> None | message"""
    vals = C.run_cases(f'C03_{name}', HEADER, [it['coq'] for it in items], chunk=chunk)
    bad = []
    for it, v in zip(items, vals):
        R.add_distinct((name, it['input']))
        msg = cmpf(v, it['impl'])
        if msg:
            bad.append(dict(stream=name, input=it['input'], message=msg))
    R.corr.append(dict(name=name, cases=len(items), mismatches=len(bad),
                       comparison='exact equality of shapes and of every entry as binary64 (zeros compared without sign)',
                       distribution=dist, first_mismatches=bad[:3]))
    if items:
        R.samples.append(dict(stream=name, input={k: v for k, v in items[0]['input'].items() if k != 'A'},
                              impl_shapes=str(items[0].get('shapes'))))
    return bad


def _svd_item(tn, A, e, r, tag):
    ns = list(A.shape)
    with SvdRec() as rec:
        Y = tn.svd(A, e, r)
    coq = f'showY (svd OF {_orc(rec.calls)} {C.natlist(ns)} {_flist(A)} {_fe(e)} {C.zlit(int(r))})'
    return dict(coq=coq, impl=Y, calls=rec.calls, herm=rec.herm, shapes=[G.shape for G in Y],
                input=dict(kind='svd', tag=tag, A=_pack(A), e=float(e).hex(), r=float(r)))


def correspondence(R, ctx):
    tn = C.import_teneva()
    rng = ctx['rng']
    g = np.random.default_rng(rng.randrange(2 ** 32))
    mult = 8 if ctx['thorough'] else 1
    bad_all, contract_bad, n_calls = [], [], 0

    def note_contract(calls, inp, herm=False):
        nonlocal n_calls
        n_calls += len(calls)
        msg = 'np.linalg.svd called with hermitian=True (the model calls the general SVD)' if herm else _contract(calls)
        if msg:
            contract_bad.append(dict(stream='svd_contract', input=inp, message=msg))

    # ---- 1. f_svd
    items, dist = [], dict(family={}, d={}, scale={}, cap={}, e_rel={})
    pool = []
    for i in range(130 * mult):
        fam = FAMS[i % len(FAMS)]
        ns = _gen_shape(rng) if i % 11 else [rng.randint(1, 6), rng.randint(1, 6)]
        sc = _scale(rng)
        A = _gen_tensor(g, rng, fam, ns) * sc
        erel = rng.choice([1e-12, 1e-8, 1e-4, 1e-2, 1e-1, 0.3, 1.0])
        base = erel * sc * math.sqrt(max(1, A.size)) if rng.random() < 0.85 else 1e-10
        e = _pick_e(rng, base)
        r = _cap(rng)
        it = _svd_item(tn, A, e, r, fam)
        note_contract(it['calls'], it['input'], it['herm'])
        items.append(it)
        pool.append((A, it['calls']))
        for key, val in (('family', fam), ('d', len(ns)), ('scale', sc), ('cap', r), ('e_rel', erel)):
            dist[key][str(val)] = dist[key].get(str(val), 0) + 1
    bad_all += _float_stream(R, 'f_svd', items, _cmp_cores, dist)

    # ---- 1b. f_svd_structured: square unfoldings that are nearly symmetric / skew / orthogonal / diagonal / low rank
    #          (perturbation 1e-3..1e-12 relative), and spectra decaying down to 1e-7..1e-11 |A|, every scale
    items, dist = [], dict(kind={}, shape={}, p={}, scale={})
    for i in range(70 * mult):
        sc = _scale(rng)
        if i % 4 == 3:
            shape = rng.choice([(4, 4), (6, 6), (5, 7), (4, 2, 3), (6, 2, 3), (3, 3, 3), (2, 3, 2, 2)])
            lo = 10.0 ** -rng.randint(7, 11)
            A = _decaying(g, rng, shape, lo) * sc
            kind, p = 'decaying', lo
            base = float(np.linalg.norm(A)) * 10.0 ** -rng.randint(6, 12)
        else:
            shape = SQUARE_SHAPES[rng.randrange(len(SQUARE_SHAPES))]
            kind = STRUCT[i % len(STRUCT)]
            p = 10.0 ** -rng.randint(3, 12)
            A, asym = _structured(g, rng, shape, kind, p)
            A = A * sc
            base = rng.choice([asym * sc * 0.01, asym * sc * 1e-3, 1e-10, 1e-8 * float(np.linalg.norm(A))])
        e = _pick_e(rng, max(base, 1e-300))
        it = _svd_item(tn, A, e, RDEF, f'{kind}-p{p:.0e}')
        note_contract(it['calls'], it['input'], it['herm'])
        items.append(it)
        for key, val in (('kind', kind), ('shape', tuple(shape)), ('p', f'{p:.0e}'), ('scale', sc)):
            dist[key][str(val)] = dist[key].get(str(val), 0) + 1
    bad_all += _float_stream(R, 'f_svd_structured', items, _cmp_cores, dist)

    # ---- 2. f_svd_threshold: e at / around every rank change of the first unfolding
    items, dist = [], dict(exact=0, above=0, below=0)
    for A, calls in pool:
        if len(items) >= 60 * mult or not calls or not np.any(A):
            continue
        s = calls[0][1][1]
        cs = np.cumsum(s[::-1] ** 2)
        for j in sorted(set(rng.sample(range(len(cs)), min(2, len(cs))))):
            e0 = float(np.sqrt(cs[j]))
            for kind, e in (('exact', e0), ('above', e0 * (1 + 1e-9)), ('below', e0 * (1 - 1e-9)),
                            ('exact', float(np.nextafter(e0, 0))), ('exact', float(np.nextafter(e0, np.inf)))):
                if not _sq_ok(e) or e <= 0:
                    continue
                it = _svd_item(tn, A, e, RDEF, 'threshold-' + kind)
                items.append(it)
                dist[kind] += 1
    bad_all += _float_stream(R, 'f_svd_threshold', items, _cmp_cores, dist)

    # ---- 3. f_skeleton
    items, dist = [], dict(give={}, rel={}, family={}, shape={})
    gv = {'l': 'GiveL', 'r': 'GiveR', 'm': 'GiveM'}
    for i in range(150 * mult):
        m, n = rng.randint(1, 6), rng.randint(1, 6)
        fam = rng.choice(['full', 'full', 'deficient', 'zero', 'int'])
        if fam == 'full':
            A = g.normal(size=(m, n))
        elif fam == 'deficient':
            k = rng.randint(1, max(1, min(m, n) - 1))
            A = g.normal(size=(m, k)) @ g.normal(size=(k, n))
        elif fam == 'zero':
            A = np.zeros((m, n))
        else:
            A = g.integers(-3, 4, size=(m, n)).astype(float)
        sc = _scale(rng)
        A = A * sc
        rel = rng.random() < 0.4
        give = rng.choice(['l', 'r', 'm'])
        erel = rng.choice([1e-12, 1e-6, 1e-2, 1e-1, 0.5, 1.0])
        e = _pick_e(rng, erel * (1.0 if rel else sc * math.sqrt(m * n)))
        r = _cap(rng)
        with SvdRec() as rec, np.errstate(all='ignore'):
            U, V = tn.matrix_skeleton(A, e, r, rel=rel, give_to=give)
        inp = dict(kind='skeleton', A=_pack(A), e=float(e).hex(), r=float(r), rel=rel, give_to=give, tag=fam)
        note_contract(rec.calls, inp)
        coq = (f'showUV (matrix_skeleton OF {_orc(rec.calls)} 0 {_fmat(A)} {_fe(e)} {C.zlit(int(r))} '
               f'{"true" if rel else "false"} {gv[give]})')
        items.append(dict(coq=coq, impl=[U, V], input=inp, shapes=[U.shape, V.shape]))
        for key, val in (('give', give), ('rel', rel), ('family', fam), ('shape', f'{m}x{n}')):
            dist[key][str(val)] = dist[key].get(str(val), 0) + 1

    def cmp_uv(v, impl):
        for k, (item, M) in enumerate(zip(v, impl)):
            a, b, dat = item[0], item[1], item[3]
            if (a, b) != tuple(M.shape):
                return f'factor {k}: shape {(a, b)} vs {M.shape}'
            if M.size and not _same(dat[0], M):
                return f'factor {k}: entries differ'
        return None
    bad_all += _float_stream(R, 'f_skeleton', items, cmp_uv, dist, chunk=25)

    # ---- 4. f_svd_matrix (+ malformed shapes)
    items, dist = [], dict(q={}, family={}, malformed=0)
    for i in range(28 * mult):
        q = 1 + i % 4
        N = 2 ** q
        fam = rng.choice(['full', 'identity', 'shift', 'lowrank', 'int'])
        if fam == 'full':
            A = g.normal(size=(N, N))
        elif fam == 'identity':
            A = np.eye(N)
        elif fam == 'shift':
            A = np.eye(N, k=1) + 2 * np.eye(N, k=-1)
        elif fam == 'lowrank':
            A = np.outer(g.normal(size=N), g.normal(size=N))
        else:
            A = g.integers(-3, 4, size=(N, N)).astype(float)
        A = A * _scale(rng)
        e = _pick_e(rng, rng.choice([1e-10, 1e-3, 0.1]) * max(np.linalg.norm(A), 1e-30))
        r = _cap(rng)
        with SvdRec() as rec:
            Y = tn.svd_matrix(A, e, r)
        inp = dict(kind='svd_matrix', A=_pack(A), e=float(e).hex(), r=float(r), tag=fam)
        note_contract(rec.calls, inp)
        items.append(dict(coq=f'showR (svd_matrix OF {_orc(rec.calls)} {_fmat(A)} {_fe(e)} {C.zlit(int(r))})',
                          impl=(0, Y), input=inp, shapes=[G.shape for G in Y]))
        dist['q'][str(q)] = dist['q'].get(str(q), 0) + 1
        dist['family'][fam] = dist['family'].get(fam, 0) + 1
    for shp in [(1, 1), (2, 8), (8, 2), (3, 3), (6, 6), (0, 0), (4, 2), (2, 2, 2), (5, 4)][:9]:
        if len(shp) != 2:
            continue
        A = np.arange(int(np.prod(shp)), dtype=float).reshape(shp)
        with np.errstate(all='ignore'):
            rr = C.call_impl(tn.svd_matrix, A, 1e-10, RDEF)
        lit = _fmat(A) if A.size else f'(mk_mat {shp[0]} {shp[1]} [])'
        items.append(dict(coq=f'showR (svd_matrix OF (orc []) {lit} {_fe(1e-10)} {RDEF})', impl=(rr[0], None),
                          input=dict(kind='svd_matrix_malformed', shape=list(shp)), shapes=None))
        dist['malformed'] += 1

    def cmp_res(v, impl):
        code, Y = impl
        if v[0][0] != code:
            return f'outcome code {v[0][0]} vs {code}'
        return _cmp_cores(v[1:], Y) if code == 0 else None
    bad_all += _float_stream(R, 'f_svd_matrix', items, cmp_res, dist, chunk=8)

    # ---- 4b. f_forms: argument forms, histories, power-of-two scales (model evaluated on the canonical values)
    items, dist, hist_bad = [], dict(routine={}, array={}, e={}, r={}, pow2={}), []
    gv = {'l': 'GiveL', 'r': 'GiveR', 'm': 'GiveM'}

    def twice(call, objs, inp):
        """history: the same argument objects used twice; results identical, arguments bit-identical afterwards"""
        before = [o.tobytes() for o in objs]
        with SvdRec() as rec:
            out1 = call()
        out2 = call()
        if not _same_list(list(out1), list(out2)):
            hist_bad.append(dict(stream='history', input=inp, message='second call on the same objects differs'))
        if [o.tobytes() for o in objs] != before:
            hist_bad.append(dict(stream='history', input=inp, message='argument array modified by the call'))
        return out1, rec

    for i in range(60 * mult):
        routine = ['svd', 'svd', 'skeleton', 'svd_matrix'][i % 4]
        integer = (i // 4) % 2 == 0
        aform = (ARR_INT_FORMS if integer else ARR_FLOAT_FORMS)[rng.randrange(4)]
        rform = R_FORMS[rng.randrange(len(R_FORMS))]
        eform = E_FORMS[rng.randrange(len(E_FORMS))]
        r = rng.choice([RDEF, RDEF, 1, 2, 3])
        k2 = 0
        if routine == 'svd':
            ns = _gen_shape(rng, dmax=4, nmax=4, total=120)
        elif routine == 'skeleton':
            ns = [rng.randint(1, 5), rng.randint(1, 5)]
        else:
            ns = [2 ** rng.randint(1, 3)] * 2
        if integer:
            lo = 0 if aform == 'uint8' else -4
            A = g.integers(lo, 5, size=ns).astype(float)
        else:
            A = g.normal(size=ns)
            if i % 3 == 0:
                k2 = rng.choice([-500, -400, 400, 500])
                A = A * 2.0 ** k2
        nrm = float(np.linalg.norm(A))
        ekind = rng.choice(['rel', 'rel', 'zero', 'int'])
        if ekind == 'zero':
            e_can, e_arg = 0.0, rng.choice([0, 0.0, np.float64(0)])
        elif ekind == 'int' and integer:
            e_can = float(rng.randint(1, 4))
            e_arg = int(e_can)
        else:
            e_can = _pick_e(rng, max(nrm, 1e-300) * rng.choice([1e-9, 1e-3, 0.1, 0.4]))
            e_arg = _e_form(e_can, eform)
        Av, r_arg = _arr_form(A, aform), _r_form(r, rform)
        inp = dict(kind='forms', routine=routine, A=_pack(A), aform=aform, eform=eform, rform=rform,
                   e=float(e_can).hex(), e_arg=repr(e_arg), r=float(int(r)), pow2=k2)
        with np.errstate(all='ignore'):
            if routine == 'svd':
                Y, rec = twice(lambda: tn.svd(Av, e_arg, r_arg), [Av], inp)
                coq = f'showY (svd OF {_orc(rec.calls)} {C.natlist(ns)} {_flist(A)} {_fe(e_can)} {C.zlit(int(r))})'
                items.append(dict(coq=coq, impl=('Y', Y), input=inp, shapes=[G.shape for G in Y]))
            elif routine == 'svd_matrix':
                Y, rec = twice(lambda: tn.svd_matrix(Av, e_arg, r_arg), [Av], inp)
                coq = f'showR (svd_matrix OF {_orc(rec.calls)} {_fmat(A)} {_fe(e_can)} {C.zlit(int(r))})'
                items.append(dict(coq=coq, impl=('R', Y), input=inp, shapes=[G.shape for G in Y]))
            else:
                give = rng.choice(['l', 'r', 'm', None])
                rel = rng.random() < 0.4 and bool(np.any(A))
                kw = dict(rel=_flag_form(rel, i), hermitian=_flag_form(False, i + 1))
                if give is not None:
                    kw['give_to'] = give
                if rel:
                    e_can = _pick_e(rng, rng.choice([1e-9, 1e-2, 0.3]))
                    e_arg = _e_form(e_can, eform)
                UV, rec = twice(lambda: tn.matrix_skeleton(Av, e_arg, r_arg, **kw), [Av], inp)
                inp.update(rel=bool(rel), give_to=give or 'm', e=float(e_can).hex(), e_arg=repr(e_arg))
                coq = (f'showUV (matrix_skeleton OF {_orc(rec.calls)} 0 {_fmat(A)} {_fe(e_can)} {C.zlit(int(r))} '
                       f'{"true" if rel else "false"} {gv[give or "m"]})')
                items.append(dict(coq=coq, impl=('UV', list(UV)), input=inp, shapes=[M.shape for M in UV]))
        note_contract(rec.calls, inp, rec.herm)
        for key, val in (('routine', routine), ('array', aform), ('e', ekind + '/' + eform), ('r', rform), ('pow2', k2)):
            dist[key][str(val)] = dist[key].get(str(val), 0) + 1

    def cmp_forms(v, impl):
        tag, out = impl
        if tag == 'Y':
            return _cmp_cores(v, out)
        if tag == 'R':
            return cmp_res(v, (0, out))
        return cmp_uv(v, out)
    bad_all += _float_stream(R, 'f_forms', items, cmp_forms, dist, chunk=12)
    R.corr.append(dict(name='history', cases=2 * len(items), mismatches=len(hist_bad),
                       comparison='same argument objects used twice: bit-identical results, argument bytes unchanged',
                       distribution={}, first_mismatches=hist_bad[:3]))
    bad_all += hist_bad

    # ---- 4c. f_matrix_svd: the eigh-based factorisation (model Svd.matrix_svd, replayed np.linalg.eigh; argsort of the
    #          clipped square roots recomputed from the recorded eigenvalues), every scale incl. 2^-40..2^40 and 1e-6..1e6,
    #          decaying spectra whose small singular values must be kept.  BLAS sums (A A^T, U^T A) are not reproduced
    #          operation by operation: inner size exact, entries to 1e-9 of the factor's largest entry.
    items, dist = [], dict(shape={}, scale={}, family={})
    for i in range(60 * mult):
        m, n = rng.randint(1, 6), rng.randint(1, 6)
        fam = rng.choice(['full', 'decaying', 'decaying', 'deficient', 'zero', 'int'])
        if fam == 'full':
            A = g.normal(size=(m, n))
        elif fam == 'decaying':
            A = _decaying(g, rng, (m, n), 10.0 ** -rng.randint(2, 6))
        elif fam == 'deficient':
            k = rng.randint(1, max(1, min(m, n) - 1))
            A = g.normal(size=(m, k)) @ g.normal(size=(k, n))
        elif fam == 'zero':
            A = np.zeros((m, n))
        else:
            A = g.integers(-3, 4, size=(m, n)).astype(float)
        sc = rng.choice([1e-6, 1e-3, 1.0, 1e3, 1e6, 2.0 ** -40, 2.0 ** -20, 2.0 ** 20, 2.0 ** 40])
        A = A * sc
        sv = np.linalg.svd(A, compute_uv=False)
        tails = np.sqrt(np.cumsum(sv[::-1] ** 2))[::-1]
        pos = [t for t in tails if t > 1e-7 * max(tails[0], 1e-300)]
        j = rng.randrange(len(pos)) if pos else 0
        base = math.sqrt(pos[j] * (pos[j + 1] if j + 1 < len(pos) else pos[j] * 1e-2)) if pos else 1e-10
        e = _pick_e(rng, base)
        r = _cap(rng)
        rec_e = []
        orig = np.linalg.eigh

        def wrapped(Cm, *a, **k):
            out = orig(Cm, *a, **k)
            rec_e.append((np.array(out[0], float).copy(), np.array(out[1], float).copy()))
            return out
        np.linalg.eigh = wrapped
        try:
            with np.errstate(all='ignore'):
                U, V = tn.matrix_svd(A.copy(), e, r)
        finally:
            np.linalg.eigh = orig
        w0, U0 = rec_e[0]
        w1 = np.sqrt(np.where(w0 < 0, 0.0, w0))
        idx = np.argsort(w1)
        coq = (f'showUV (matrix_svd OF (eorc {_flist(w0)} {_fmat(U0)}) (aorc {C.natlist(idx)}) 0 {_fmat(A)} {_fe(e)} '
               f'{C.zlit(int(r))})')
        items.append(dict(coq=coq, impl=[U, V], shapes=[U.shape, V.shape],
                          input=dict(kind='matrix_svd', A=_pack(A), e=float(e).hex(), r=float(r), tag=fam)))
        for key, val in (('shape', f'{m}x{n}'), ('scale', sc), ('family', fam)):
            dist[key][str(val)] = dist[key].get(str(val), 0) + 1

    def cmp_uv_tol(v, impl):
        for k, (item, M) in enumerate(zip(v, impl)):
            a, b, dat = item[0], item[1], item[3]
            if (a, b) != tuple(M.shape):
                return f'factor {k}: shape {(a, b)} vs {M.shape}'
            if M.size:
                X = np.array(_tofloat(dat[0]), float).reshape(M.shape)
                fin = np.isfinite(M)
                if not np.array_equal(fin, np.isfinite(X)):
                    return f'factor {k}: non-finite pattern differs'
                if np.any(np.abs(X[fin] - M[fin]) > 1e-9 * max(float(np.abs(M[fin]).max(initial=0.0)), 1e-300)):
                    return f'factor {k}: entries differ by more than 1e-9 of the largest entry'
        return None
    vals = C.run_cases('C03_f_matrix_svd', HEADER, [it['coq'] for it in items], chunk=20)
    bad = []
    for it, v in zip(items, vals):
        R.add_distinct(('f_matrix_svd', it['input']))
        msg = cmp_uv_tol(v, it['impl'])
        if msg:
            bad.append(dict(stream='f_matrix_svd', input=it['input'], message=msg))
    R.corr.append(dict(name='f_matrix_svd', cases=len(items), mismatches=len(bad),
                       comparison='inner size exact; entries within 1e-9 of the largest entry of the factor (BLAS summation order)',
                       distribution=dist, first_mismatches=bad[:3]))
    bad_all += bad

    # ---- 5. z_interleave (exact, instance Z)
    items = []
    dist = dict(interleave_q=[], full_matrix=0, malformed=0)
    for q in range(1, (6 if ctx['thorough'] else 5)):
        N = 2 ** q
        mats = [np.arange(N * N).reshape(N, N)] + [g.integers(-9, 10, size=(N, N)) for _ in range(2)]
        for A in mats:
            with SvdStub() as st:
                tn.svd_matrix(A.astype(float), 1e-10, RDEF)
            Z = st.args[0]
            impl = [[0], [int(x) for x in Z.reshape(-1)]] if list(Z.shape) == [4] * q else [[9], list(Z.shape)]
            items.append(dict(coq=f'showLZ (interleaved OZ {q} {_zmat(A)})', impl=impl,
                              input=['interleave', q, A.reshape(-1).tolist()[:16]]))
        dist['interleave_q'].append(q)
    for i in range(40 * mult):
        q = 1 + i % 4
        rk = [1] + [rng.randint(1, 3) for _ in range(q - 1)] + [1]
        modes = [4] * q
        if i % 13 == 5 and q == 2:
            modes = [2, 8]                  # product is 4^q: numpy accepts it
        Y = [g.integers(-3, 4, size=(rk[k], modes[k], rk[k + 1])) for k in range(q)]
        for order in ('F', 'C'):
            forms = [lambda G: G.astype(float), lambda G: G.astype(np.int32), lambda G: np.asfortranarray(G.astype(float)),
                     lambda G: G.astype(np.int64)[:, ::-1, :][:, ::-1, :]]
            Yv = [forms[(i + k) % 4](G) for k, G in enumerate(Y)]          # mixed int / float / F-ordered / strided cores
            saved = [G.tobytes() for G in Yv]
            rr = C.call_impl(tn.full_matrix, Yv, order) if order == 'C' or i % 2 else C.call_impl(tn.full_matrix, Yv)
            rr2 = C.call_impl(tn.full_matrix, Yv, order)
            if rr != rr2 or [G.tobytes() for G in Yv] != saved:
                rr = [9]                                                   # history violated: shows up as a mismatch
            impl = [[0, 2 ** q, 2 ** q]] + [[int(x) for x in row] for row in rr[1]] if rr[0] == 0 else [[rr[0]]]
            items.append(dict(coq=f'showMZ (full_matrix OZ [{"; ".join(_zcore(G) for G in Y)}] '
                                  f'{"true" if order == "F" else "false"})', impl=impl,
                              input=['full_matrix', order, modes, rk, [G.reshape(-1).tolist() for G in Y]]))
            dist['full_matrix'] += 1
    for Y in ([], [np.ones((1, 3, 1))], [np.ones((1, 4, 2)), np.ones((2, 3, 1))], [np.ones((1, 4, 1)), np.ones((1, 2, 1))]):
        rr = C.call_impl(tn.full_matrix, Y)
        impl = [[0, 2 ** len(Y), 2 ** len(Y)]] + [[int(x) for x in row] for row in rr[1]] if rr[0] == 0 else [[rr[0]]]
        items.append(dict(coq=f'showMZ (full_matrix OZ [{"; ".join(_zcore(G) for G in Y)}] true)', impl=impl,
                          input=['full_matrix_malformed', [list(G.shape) for G in Y]]))
        dist['malformed'] += 1
    bad_all += C.exact_corr(R, 'z_interleave', HEADER, items, chunk=30, distribution=dist)

    R.corr.append(dict(name='svd_contract', cases=n_calls, mismatches=len(contract_bad),
                       comparison='U^T U = I, V V^T = I, A = U diag(s) V to 1e-11 (relative), s sorted >= 0, '
                                  'len(s) = min(m, n) on every recorded np.linalg.svd call',
                       distribution={}, first_mismatches=contract_bad[:3]))
    return bad_all + contract_bad


# ----------------------------------------------------------------------------------------------------
# search: property-level oracle on the implementation (dense reference), independent of the model
# ----------------------------------------------------------------------------------------------------

def _full(Y):
    Z = Y[0]
    for G in Y[1:]:
        Z = np.tensordot(Z, G, 1)
    return Z[0, ..., 0]


def _need(s, e):
    """smallest q whose discarded tail sqrt(sum_{i>=q} s_i^2) <= e"""
    t = np.sqrt(np.concatenate([np.cumsum(s[::-1] ** 2)[::-1], [0.0]]))
    return int(np.argmax(t <= e)) if e >= 0 else len(s)


def _clause_svd(tn, A, e, r, exact_ranks=None):
    ns, d = A.shape, A.ndim
    inp = dict(kind='svd', A=_pack(A), e=float(e).hex(), r=float(r))
    Y = tn.svd(A, e, r)
    shapes = [tuple(np.shape(G)) for G in Y]
    ok = len(Y) == d and all(len(s) == 3 for s in shapes) and [s[1] for s in shapes] == list(ns) and \
        shapes[0][0] == 1 and shapes[-1][2] == 1 and all(shapes[k][2] == shapes[k + 1][0] for k in range(d - 1))
    if not ok:
        return dict(what='svd: result is not a TT-tensor of the shape of the input', input=inp, got=shapes, expected=list(ns))
    if not all(np.all(np.isfinite(G)) for G in Y):
        return dict(what='svd: non-finite entries in the cores', input=inp, got=shapes)
    ranks = [s[2] for s in shapes[:-1]]
    cap = max(1, int(r))
    nrm = float(np.linalg.norm(A))
    for k, rk in enumerate(ranks):
        M = A.reshape(int(np.prod(ns[:k + 1])), -1)
        s = np.linalg.svd(M, compute_uv=False)
        need = max(1, _need(s, e * (1 - 1e-6) - 1e-13 * nrm))
        if rk > cap or rk > need:
            return dict(what='svd: rank exceeds the cap or the smallest rank meeting the tail budget of the input unfolding',
                        input=inp, got=ranks, expected=dict(unfolding=k, cap=cap, need=need))
    err = float(np.linalg.norm(A - _full(Y)))
    binds = any(rk >= cap for rk in ranks)
    bound = e * math.sqrt(d - 1) * (1 + 1e-9) + 1e-12 * nrm + 1e-300
    if not binds and err > bound:
        return dict(what='svd: Frobenius error exceeds e*sqrt(d-1) although the rank cap does not bind',
                    input=inp, got=err, expected=bound)
    if exact_ranks is not None and not binds and ranks != list(exact_ranks):
        return dict(what='svd: exact low-rank tensor not reproduced with exactly its TT-ranks', input=inp, got=ranks,
                    expected=list(exact_ranks))
    return None


def _clause_matrix(tn, A, e, r):
    q = int(round(math.log2(A.shape[0])))
    inp = dict(kind='svd_matrix', A=_pack(A), e=float(e).hex(), r=float(r))
    Y = tn.svd_matrix(A, e, r)
    shapes = [tuple(G.shape) for G in Y]
    if len(Y) != q or any(s[1] != 4 for s in shapes):
        return dict(what='svd_matrix: not q cores of mode size 4', input=inp, got=shapes)
    B = tn.full_matrix(Y)
    cap = max(1, int(r))
    binds = any(s[2] >= cap for s in shapes[:-1])
    nrm = float(np.linalg.norm(A))
    err = float(np.linalg.norm(A - B)) if B.shape == A.shape else float('inf')
    bound = e * math.sqrt(max(q - 1, 0)) * (1 + 1e-9) + 1e-12 * nrm + 1e-300
    if not binds and err > bound:
        return dict(what='svd_matrix/full_matrix: round trip error exceeds e*sqrt(q-1)', input=inp, got=err, expected=bound)
    # the interleaving itself, against an independent formula: t_k = bit_k(i) + 2 bit_k(j), C-order position
    with SvdStub() as st:
        tn.svd_matrix(A, e, r)
    Z = st.args[0].reshape(-1)
    N = 2 ** q
    for (i, j) in [(0, 0), (N - 1, 0), (0, N - 1), (1, N // 2), (N - 1, N - 2)] + [(a, b) for a in range(min(N, 4)) for b in range(min(N, 4))]:
        pos = 0
        for k in range(q):
            pos = pos * 4 + ((i >> k) & 1) + 2 * ((j >> k) & 1)
        if Z[pos] != A[i, j]:
            return dict(what='svd_matrix: interleaved array is not Y[i,j] at t_k = bit_k(i) + 2 bit_k(j)', input=inp,
                        got=[i, j, float(Z[pos])], expected=float(A[i, j]))
    return None


def _clause_fullmatrix(tn, Y):
    """full_matrix inverts the interleaving (exact on integer data)"""
    inp = dict(kind='full_matrix', cores=[_pack(G) for G in Y])
    M = tn.full_matrix(Y)
    # argument forms of the cores (the data are integers): int dtypes, F-ordered, strided, mixed; twice; bytes unchanged
    forms = [lambda G: G.astype(np.int32), lambda G: np.asfortranarray(G), lambda G: G.astype(np.int64)[:, ::-1, :][:, ::-1, :],
             lambda G: G.astype(np.uint8) if G.min() >= 0 else G.astype(np.int64)]
    for sh in range(2):
        Yv = [forms[(k + sh) % 4](G) for k, G in enumerate(Y)]
        saved = [G.tobytes() for G in Yv]
        M1, M2 = tn.full_matrix(Yv), tn.full_matrix(Yv, 'F')
        if not (np.array_equal(M1, M) and np.array_equal(M2, M)) or [G.tobytes() for G in Yv] != saved:
            return dict(what='full_matrix: int / F-ordered / strided cores change the result, or the cores are modified', input=inp)
    with SvdStub() as st:
        tn.svd_matrix(M, 1e-10, RDEF)
    Z = st.args[0]
    D = _full(Y)
    if Z.shape != D.shape or not np.array_equal(Z, D):
        return dict(what='svd_matrix interleaving does not invert full_matrix', input=inp)
    return None


def _clause_skel(tn, A, e, r, rel):
    inp = dict(kind='skeleton', A=_pack(A), e=float(e).hex(), r=float(r), rel=bool(rel))
    m, n = A.shape
    s = np.linalg.svd(A, compute_uv=False)
    nrm = float(np.linalg.norm(A))
    cap = max(1, int(r))
    prods = {}
    for give in ('l', 'r', 'm'):
        U, V = tn.matrix_skeleton(A, e, r, rel=rel, give_to=give)
        q = U.shape[1] if U.ndim == 2 else -1
        if U.shape != (m, q) or V.shape != (q, n) or not (1 <= q <= cap) or q > min(m, n):
            return dict(what='matrix_skeleton: factor shapes / inner size out of range', input=inp, got=[U.shape, V.shape, give])
        prods[give] = (q, U @ V, U, V)
    q, P, U, V = prods['r']
    for give in ('l', 'm'):
        if prods[give][0] != q or np.linalg.norm(prods[give][1] - P) > 1e-10 * nrm + 1e-300:
            return dict(what='matrix_skeleton: the give_to variants do not give the same product', input=inp, got=give)
    if np.abs(U.T @ U - np.eye(q)).max() > 1e-10:
        return dict(what="matrix_skeleton(give_to='r'): left factor is not orthonormal", input=inp)
    Vl = prods['l'][3]
    if np.abs(Vl @ Vl.T - np.eye(q)).max() > 1e-10:
        return dict(what="matrix_skeleton(give_to='l'): right factor is not orthonormal", input=inp)
    best = math.sqrt(float(np.sum(s[q:] ** 2)))
    if abs(np.linalg.norm(A - P) - best) > 1e-10 * nrm + 1e-300:
        return dict(what='matrix_skeleton: product is not a best rank-q approximation', input=inp,
                    got=float(np.linalg.norm(A - P)), expected=best)
    if nrm > 0:
        ss = s / s[0] if rel else s
        tails = np.sqrt(np.concatenate([np.cumsum(ss[::-1] ** 2)[::-1], [0.0]]))
        ref = 1.0 if rel else nrm
        if np.all(np.abs(tails - e) > 1e-6 * max(e, 1e-9 * ref)):
            want = max(1, min(cap, _need(ss, e)))
            if q != want:
                return dict(what='matrix_skeleton: inner size is not the smallest one meeting the tail budget', input=inp,
                            got=q, expected=want)
    return None


def _clause_msvd(tn, A, e, r):
    inp = dict(kind='matrix_svd', A=_pack(A), e=float(e).hex(), r=float(r))
    m, n = A.shape
    U, V = tn.matrix_svd(A, e, r)
    q = U.shape[1]
    cap = max(1, int(r))
    if U.shape != (m, q) or V.shape != (q, n) or not (1 <= q <= cap):
        return dict(what='matrix_svd: factor shapes / inner size out of range', input=inp, got=[U.shape, V.shape])
    s = np.linalg.svd(A, compute_uv=False)
    nrm = float(np.linalg.norm(A))
    if s[min(q, len(s)) - 1] > 1e-4 * s[0]:
        best = math.sqrt(float(np.sum(s[q:] ** 2)))
        if abs(np.linalg.norm(A - U @ V) - best) > 1e-7 * nrm:
            return dict(what='matrix_svd: product is not a best rank-q approximation', input=inp,
                        got=float(np.linalg.norm(A - U @ V)), expected=best)
    return None


def _clause_thr(tn, p):
    """tail energy EXACTLY equal to the budget (integer data, exact in binary64): the size with tail == e is taken"""
    A = np.diag(np.array(p['diag'], float)) * p['scale']
    e = p['e'] * p['scale']
    s = np.linalg.svd(A, compute_uv=False)
    if not np.array_equal(s, np.sort(np.abs(np.diag(A)))[::-1]):
        return None                      # LAPACK did not return the exact singular values: nothing to test
    U, V = tn.matrix_skeleton(A, e, RDEF)
    Y = tn.svd(A, e, RDEF)
    got = [U.shape[1], Y[0].shape[2]]
    if got != [p['want'], p['want']]:
        return dict(what='rank rule: a size whose discarded tail energy equals e exactly is not accepted '
                         '(or a larger tail is)', input=p, got=got, expected=p['want'])
    return None


def _clause_forms(tn, p):
    """argument forms + history: a documented form of the arguments gives bit-identical results to the canonical form
    (float64 C-contiguous array, Python float e, Python int r); the same objects used twice give the same result and are
    bit-identical afterwards"""
    A = _unpack(p['A'])
    e, r, routine = float.fromhex(p['e']), int(p['r']), p['routine']
    aform, eform, rform = p['aform'], p['eform'], p['rform']
    if aform == 'float32':
        Av = A.astype(np.float32)
    else:
        Av = _arr_form(A, aform)
    if eform == 'np32':
        e_arg = np.float32(e)
        e = float(e_arg)
    elif eform == 'int':
        e_arg = int(e)
    else:
        e_arg = _e_form(e, eform)
    r_arg = _r_form(r, rform)
    kw = {}
    if routine == 'skeleton':
        rel, give = bool(p.get('rel', False)), p.get('give_to', 'm')
        kw = dict(rel=_flag_form(rel, p.get('fi', 0)), give_to=give)
        can = lambda: list(tn.matrix_skeleton(A.copy(), e, r, rel=rel, give_to=give))
        var = lambda: list(tn.matrix_skeleton(Av, e_arg, r_arg, **kw))
        if give == 'm' and p.get('fi', 0) % 2:
            var = lambda: list(tn.matrix_skeleton(Av, e_arg, r_arg, rel=kw['rel']))      # default give_to omitted
    elif routine == 'svd_matrix':
        can = lambda: tn.svd_matrix(A.copy(), e, r)
        var = lambda: tn.svd_matrix(Av, e_arg, r_arg)
    else:
        can = lambda: tn.svd(A.copy(), e, r)
        var = lambda: tn.svd(Av, e_arg, r_arg)
    before = Av.tobytes()
    Y0, Y1, Y2 = can(), var(), var()
    if Av.tobytes() != before:
        return dict(what=f'{routine}: the input array is modified by the call', input=p)
    if not _same_list(Y1, Y2):
        return dict(what=f'{routine}: two calls on the same argument objects give different results', input=p)
    if aform == 'float32':
        if routine != 'svd':
            return None
        nrm = float(np.linalg.norm(A))
        err = float(np.linalg.norm(A - _full([np.asarray(G, float) for G in Y1])))
        cap = max(1, r)
        if not any(G.shape[2] >= cap for G in Y1[:-1]) and err > e * math.sqrt(A.ndim - 1) * (1 + 1e-6) + 1e-4 * nrm:
            return dict(what='svd(float32 input): error beyond e*sqrt(d-1) + float32 rounding', input=p, got=err)
        return None
    if eform == 'np32':
        # float32 e: e**2 is rounded to float32; only the decision at a tie may differ, so compare through the property
        return _clause_svd(tn, A, e * (1 + 1e-6), r) if routine == 'svd' and not _same_list(Y0, Y1) else None
    if not _same_list(Y0, Y1):
        return dict(what=f'{routine}: argument form ({aform}, e {eform}, r {rform}, {kw}) changes the result', input=p,
                    got=[np.shape(G) for G in Y1], expected=[np.shape(G) for G in Y0])
    return None


def _clause_pow2(tn, p):
    """exact power-of-two rescaling of the whole input (squared spectrum representable): the property at that scale,
    and for |k| <= 300 exact equivariance (cores identical, last core scaled)"""
    A, e, r, k = _unpack(p['A']), float.fromhex(p['e']), p['r'], p['k']
    As, es = A * 2.0 ** k, e * 2.0 ** k
    f = _clause_svd(tn, As, es, r)
    if f:
        f['what'] += f' (input scaled by 2^{k})'
        return f
    if abs(k) <= 300:
        Y0, Yk = tn.svd(A, e, r), tn.svd(As, es, r)
        ok = len(Y0) == len(Yk) and all(a.shape == b.shape for a, b in zip(Y0, Yk)) and \
            all(np.array_equal(a, b) for a, b in zip(Y0[:-1], Yk[:-1])) and np.array_equal(Y0[-1] * 2.0 ** k, Yk[-1])
        if not ok:
            return dict(what=f'svd: result is not equivariant under the exact rescaling 2^{k} of data and e', input=p,
                        got=[G.shape for G in Yk], expected=[G.shape for G in Y0])
    return None


def _clause_herm(tn, p):
    """matrix_skeleton(hermitian=True) on an EXACTLY symmetric matrix: same clauses as the general path"""
    A, e, r = _unpack(p['A']), float.fromhex(p['e']), p['r']
    m = A.shape[0]
    nrm = float(np.linalg.norm(A))
    U, V = tn.matrix_skeleton(A, e, r, hermitian=_flag_form(True, p.get('fi', 0)), give_to=p.get('give_to', 'r'))
    U0, V0 = tn.matrix_skeleton(A, e, r, give_to=p.get('give_to', 'r'))
    q = U.shape[1]
    if U.shape != (m, q) or V.shape != (q, m) or q != U0.shape[1]:
        return dict(what='matrix_skeleton(hermitian=True): shapes / inner size differ from the general path', input=p,
                    got=[U.shape, V.shape], expected=[U0.shape, V0.shape])
    s = np.linalg.svd(A, compute_uv=False)
    best = math.sqrt(float(np.sum(s[q:] ** 2)))
    if abs(np.linalg.norm(A - U @ V) - best) > 1e-10 * nrm + 1e-300:
        return dict(what='matrix_skeleton(hermitian=True): product is not a best rank-q approximation', input=p,
                    got=float(np.linalg.norm(A - U @ V)), expected=best)
    return None


def _clause_history(tn, p):
    """interleaved use of the same objects by all four routines"""
    M = _unpack(p['A'])                  # 2^q x 2^q
    e, r = float.fromhex(p['e']), p['r']
    saved = M.tobytes()
    outs = []
    for _ in range(2):
        Y = tn.svd_matrix(M, e, r)
        T = tn.svd(M, e, r)
        UV = tn.matrix_skeleton(M, e, r)
        Yc = [G.tobytes() for G in Y]
        F1, F2 = tn.full_matrix(Y), tn.full_matrix(Y, 'F')
        if [G.tobytes() for G in Y] != Yc or not np.array_equal(F1, F2):
            return dict(what='full_matrix: modifies its argument / default order differs from order="F"', input=p)
        outs.append(list(Y) + list(T) + list(UV) + [F1])
    if M.tobytes() != saved:
        return dict(what='svd / svd_matrix / matrix_skeleton: the input matrix is modified', input=p)
    if not _same_list(outs[0], outs[1]):
        return dict(what='interleaved calls on the same objects: second round differs from the first', input=p)
    return None


def _clause_covar(tn, p):
    """scale covariance: the same data at scale c with e scaled alike (rel=True: e unchanged) gives the same inner sizes /
    TT-ranks and scaled factors - exactly for c a power of two, to rounding otherwise"""
    A, e, r, c, routine = _unpack(p['A']), float.fromhex(p['e']), p['r'], float(p['c']), p['routine']
    exact = math.frexp(c)[0] == 0.5
    if routine == 'skeleton' and p.get('give_to', 'm') == 'm' and math.frexp(c)[1] % 2 == 0:
        exact = False                    # sqrt(s) on both sides: an odd power of two is not an exact rescaling of sqrt(s)
    rel = bool(p.get('rel', False))
    ec = e if rel else e * c

    def run(M, ee):
        if routine == 'matrix_svd':
            return list(tn.matrix_svd(M, ee, r))
        if routine == 'skeleton':
            return list(tn.matrix_skeleton(M, ee, r, rel=rel, give_to=p.get('give_to', 'm')))
        if routine == 'svd_matrix':
            return tn.svd_matrix(M, ee, r)
        return tn.svd(M, ee, r)
    Y1, Yc = run(A.copy(), e), run(A * c, ec)
    sh1, shc = [np.shape(G) for G in Y1], [np.shape(G) for G in Yc]
    if sh1 != shc:
        return dict(what=f'{routine}: inner sizes / ranks change when data and e are rescaled by the same factor', input=p,
                    got=shc, expected=sh1)
    if routine in ('matrix_svd', 'skeleton'):
        P1, Pc = Y1[0] @ Y1[1], Yc[0] @ Yc[1]
    else:
        P1, Pc = _full(Y1), _full(Yc)
    tol = 0.0 if exact else (1e-6 if routine == 'matrix_svd' else 1e-9) * float(np.linalg.norm(P1)) * c
    if not np.all(np.isfinite(Pc)) == np.all(np.isfinite(P1)) or float(np.linalg.norm(Pc - P1 * c)) > tol:
        return dict(what=f'{routine}: the product of the factors is not covariant under rescaling of data and e', input=p,
                    got=float(np.linalg.norm(Pc - P1 * c)), expected=tol)
    return None


def _run_clause(tn, p):
    k = p['kind']
    with np.errstate(all='ignore'):
        if k == 'covar':
            return _clause_covar(tn, p)
        if k == 'forms':
            return _clause_forms(tn, p)
        if k == 'pow2':
            return _clause_pow2(tn, p)
        if k == 'herm':
            return _clause_herm(tn, p)
        if k == 'history':
            return _clause_history(tn, p)
        if k == 'skeleton_thr':
            return _clause_thr(tn, p)
        if k == 'svd':
            return _clause_svd(tn, _unpack(p['A']), float.fromhex(p['e']), p['r'])
        if k == 'svd_matrix':
            return _clause_matrix(tn, _unpack(p['A']), float.fromhex(p['e']), p['r'])
        if k == 'skeleton':
            return _clause_skel(tn, _unpack(p['A']), float.fromhex(p['e']), p['r'], p.get('rel', False))
        if k == 'matrix_svd':
            return _clause_msvd(tn, _unpack(p['A']), float.fromhex(p['e']), p['r'])
        if k == 'full_matrix':
            return _clause_fullmatrix(tn, [_unpack(G) for G in p['cores']])
    return None


def _guard(tn, p):
    try:
        return _run_clause(tn, p)
    except Exception as ex:  # noqa
        return dict(what=f'{p["kind"]}: raised {type(ex).__name__}: {str(ex)[:150]} on a valid input', input=p)


def _shrink(tn, f):
    """smaller failing input of the same kind: drop slices, round entries"""
    p = f['input']
    if p.get('kind') not in ('svd',):
        return f
    A, best = _unpack(p['A']), f
    for _ in range(40):
        progress = False
        cands = [np.delete(A, A.shape[ax] - 1, axis=ax) for ax in range(A.ndim) if A.shape[ax] > 1]
        cands += [A[0] for _ in [0] if A.ndim > 2 and A.shape[0] == 1]
        sc = np.abs(A).max()
        if sc > 0:
            cands.append(np.round(A / sc * 8) * sc / 8)
        for B in cands:
            if B.shape == A.shape and np.array_equal(B, A):
                continue
            g = _guard(tn, dict(p, A=_pack(B)))
            if g and g['what'] == f['what']:
                A, best, progress = B, g, True
                break
        if not progress:
            break
    return best


def search(R, ctx, deep, hints):
    tn = C.import_teneva()
    rng = ctx['rng']
    g = np.random.default_rng(rng.randrange(2 ** 32))
    fails, n_eval = [], 0

    def ev(p):
        nonlocal n_eval
        n_eval += 1
        f = _guard(tn, p)
        if f and len(fails) < 10:
            fails.append(f)
        return f

    def pk(kind, A, e, r, **kw):
        return dict(kind=kind, A=_pack(A), e=float(e).hex(), r=float(r), **kw)

    for h in hints[:20]:
        inp = h.get('input')
        if isinstance(inp, dict) and inp.get('kind') in ('svd', 'svd_matrix', 'skeleton', 'skeleton_thr', 'forms', 'matrix_svd'):
            ev(inp)
    # exact thresholds (tail energy == e): diag(5,4,3): tails 5*sqrt(2), 5, 3
    for sc in (1.0, 2.0 ** -20, 2.0 ** 20):
        for diag, e, want in (([5, 4, 3], 3, 2), ([5, 4, 3], 5, 1), ([4, 3], 3, 1), ([3, 4, 12], 5, 1),
                              ([5, 4, 3], 2.999999, 3), ([5, 4, 3], 4.999999, 2)):
            ev(dict(kind='skeleton_thr', diag=diag, e=e, want=want, scale=sc))
    # exact ties at extreme scales (squared spectrum representable)
    for sc in (2.0 ** -500, 2.0 ** 500):
        for diag, e, want in (([5, 4, 3], 3, 2), ([5, 4, 3], 5, 1), ([4, 3], 3, 1)):
            ev(dict(kind='skeleton_thr', diag=diag, e=e, want=want, scale=sc))
    # argument forms and histories
    for i in range(300 if deep else 70):
        routine = ['svd', 'svd', 'skeleton', 'svd_matrix'][i % 4]
        integer = (i // 4) % 2 == 0
        aform = (ARR_INT_FORMS if integer else ARR_FLOAT_FORMS + ['float32'])[rng.randrange(4 if integer else 5)]
        ns = _gen_shape(rng, dmax=4, nmax=4, total=120) if routine == 'svd' else \
            ([rng.randint(1, 5), rng.randint(1, 5)] if routine == 'skeleton' else [2 ** rng.randint(1, 3)] * 2)
        A = g.integers(0 if aform == 'uint8' else -4, 5, size=ns).astype(float) if integer else g.normal(size=ns)
        nrm = max(float(np.linalg.norm(A)), 1e-300)
        eform = rng.choice(E_FORMS + ['np32'] + (['int'] if integer else []))
        e = float(rng.randint(0, 3)) if eform == 'int' else nrm * rng.choice([0.0, 1e-9, 1e-3, 0.1, 0.4])
        rel = routine == 'skeleton' and i % 3 == 0 and bool(np.any(A))
        if rel:
            e = rng.choice([1e-9, 1e-2, 0.3])
        ev(dict(kind='forms', routine=routine, A=_pack(A), aform=aform, eform=eform, rform=rng.choice(R_FORMS),
                e=float(e).hex(), r=float(rng.choice([RDEF, RDEF, 1, 2, 3])), rel=rel,
                give_to=rng.choice(['l', 'r', 'm']), fi=rng.randrange(6)))
    for i in range(60 if deep else 12):
        N = 2 ** rng.randint(1, 3)
        M = g.normal(size=(N, N)) if i % 2 else g.integers(-3, 4, size=(N, N)).astype(float)
        ev(dict(kind='history', A=_pack(M), e=(max(float(np.linalg.norm(M)), 1e-300) * rng.choice([1e-9, 0.1])).hex(),
                r=float(rng.choice([RDEF, 2]))))
        S = M + M.T if i % 3 else M @ M.T
        if i % 5 == 0:
            S = np.zeros((N, N))
        ev(dict(kind='herm', A=_pack(S), e=(max(float(np.linalg.norm(S)), 1e-300) * rng.choice([1e-9, 0.1, 0.4])).hex(),
                r=float(rng.choice([RDEF, 2])), give_to=rng.choice(['l', 'r', 'm']), fi=i))
    # exact power-of-two rescalings
    for i in range(150 if deep else 36):
        ns = _gen_shape(rng, dmax=4, nmax=4, total=150)
        A = _gen_tensor(g, rng, rng.choice(['full', 'full', 'lowrank', 'int', 'rank1']), ns)
        nrm = max(float(np.linalg.norm(A)), 1e-300)
        ev(dict(kind='pow2', A=_pack(A), e=(nrm * rng.choice([1e-8, 1e-3, 0.05, 0.3])).hex(), r=float(RDEF),
                k=rng.choice([-500, -400, -300, -100, -1, 1, 100, 300, 400, 500])))
    # scale covariance of every factorisation (2^-40..2^40 exactly, 1e-6..1e6 to rounding), e at the geometric midpoint
    # between two consecutive tail values so that no decision sits on a threshold
    for i in range(400 if deep else 100):
        routine = ['matrix_svd', 'skeleton', 'matrix_svd', 'svd', 'skeleton', 'svd_matrix'][i % 6]
        if routine == 'svd':
            ns = _gen_shape(rng, dmax=4, nmax=4, total=120)
        elif routine == 'svd_matrix':
            ns = [2 ** rng.randint(1, 3)] * 2
        else:
            ns = [rng.randint(1, 7), rng.randint(1, 7)]
        fam = rng.choice(['full', 'decaying', 'decaying', 'int'])
        A = _decaying(g, rng, tuple(ns), 10.0 ** -rng.randint(2, 6)) if fam == 'decaying' else \
            (g.normal(size=ns) if fam == 'full' else g.integers(-3, 4, size=ns).astype(float))
        M = A.reshape(ns[0], -1)
        sv = np.linalg.svd(M, compute_uv=False)
        if not np.any(sv):
            continue
        rel = routine == 'skeleton' and i % 4 == 1
        tails = np.sqrt(np.cumsum(sv[::-1] ** 2))[::-1] / (sv[0] if rel else 1.0)
        pos = [t for t in tails if t > 1e-7 * tails[0]]
        j = rng.randrange(len(pos))
        nxt = pos[j + 1] if j + 1 < len(pos) else pos[j] * 1e-2
        if pos[j] < 1.05 * nxt and routine in ('matrix_svd', 'skeleton'):
            continue
        e = math.sqrt(pos[j] * nxt)
        c = rng.choice([2.0 ** -40, 2.0 ** -27, 2.0 ** -13, 2.0 ** -1, 2.0, 2.0 ** 13, 2.0 ** 27, 2.0 ** 40,
                        1e-6, 1e-3, 1e3, 1e6] if routine in ('matrix_svd', 'skeleton') else
                       [2.0 ** -40, 2.0 ** -13, 2.0 ** 13, 2.0 ** 40])
        ev(dict(kind='covar', routine=routine, A=_pack(A), e=float(e).hex(), r=float(rng.choice([RDEF, RDEF, 2, 3])),
                c=c, rel=rel, give_to=rng.choice(['l', 'r', 'm'])))
    # degenerate families first
    for ns in ([2, 2], [3, 1, 2], [1, 1], [2, 3, 2], [4, 1], [1, 3, 1, 2]):
        for sc in (1e-6, 1.0, 1e6):
            for A in (np.zeros(ns), np.ones(ns) * sc, _gen_tensor(g, rng, 'rank1', ns) * sc, _gen_tensor(g, rng, 'full', ns) * sc):
                for e in (1e-10, 1e-8 * sc, 0.3 * sc):
                    ev(pk('svd', A, e, RDEF))
    # the scale clause: large norm, e comparable to the singular values, d = 3..5, full rank and decaying spectra
    for i in range(400 if deep else 60):
        ns = _gen_shape(rng, dmax=5, nmax=5, total=600)
        if len(ns) < 3:
            ns = ns + [rng.randint(2, 4)]
        sc = 10.0 ** rng.choice([-6, -2, 0, 2, 3, 4, 6])
        A = _gen_tensor(g, rng, rng.choice(['full', 'full', 'int']), ns) * sc
        if rng.random() < 0.3:
            A = A * (0.5 ** np.arange(ns[0])).reshape([-1] + [1] * (len(ns) - 1))
        nrm = float(np.linalg.norm(A))
        e = nrm * rng.choice([1e-8, 1e-3, 0.01, 0.05, 0.1, 0.2, 0.3])
        ev(pk('svd', A, e, rng.choice([RDEF, RDEF, RDEF, 2, 3])))
    # structured square unfoldings: nearly symmetric / skew / orthogonal / diagonal / low rank, e below the perturbation
    for i in range(500 if deep else 90):
        shape = SQUARE_SHAPES[rng.randrange(len(SQUARE_SHAPES))]
        kind = STRUCT[i % len(STRUCT)]
        p = 10.0 ** -rng.randint(3, 12)
        sc = 10.0 ** rng.choice([-6, -6, -3, 0, 0, 3, 6])
        A, asym = _structured(g, rng, shape, kind, p)
        A = A * sc
        e = rng.choice([asym * sc * 0.01, asym * sc * 1e-3, asym * sc * 0.3, 1e-8 * float(np.linalg.norm(A))])
        ev(pk('svd', A, max(e, 1e-300), RDEF))
    # decaying spectra: singular values between e and 1e-7 |A|, e = 1e-12..1e-6 relative
    for i in range(300 if deep else 60):
        shape = rng.choice([(4, 4), (6, 6), (5, 7), (8, 3), (4, 2, 3), (6, 2, 3), (3, 3, 3), (2, 3, 2, 2), (5, 2, 2)])
        lo = 10.0 ** -rng.randint(7, 11)
        sc = 10.0 ** rng.choice([-6, -3, 0, 0, 3, 6])
        A = _decaying(g, rng, shape, lo) * sc
        e = float(np.linalg.norm(A)) * 10.0 ** -rng.randint(6, 12)
        ev(pk('svd', A, e, RDEF))
        if len(shape) == 2 and i % 2 == 0:
            ev(pk('skeleton', A, e, RDEF, rel=False))
            ev(pk('skeleton', A, e / max(float(np.linalg.norm(A, 2)), 1e-300), RDEF, rel=True))
    # exact low TT-rank
    for i in range(150 if deep else 25):
        ns = [rng.randint(2, 4) for _ in range(rng.randint(2, 5))]
        cores, rk = _rand_cores(g, ns, rng.randint(1, 3))
        sc = 10.0 ** rng.choice([-6, -3, 0, 3, 6])
        A = _dense_of_cores(cores) * sc
        nrm = float(np.linalg.norm(A))
        e = 1e-8 * nrm
        true = []
        okr = True
        for k in range(1, len(ns)):
            s = np.linalg.svd(A.reshape(int(np.prod(ns[:k])), -1), compute_uv=False)
            a, b = _need(s, 1e-5 * nrm), _need(s, 1e-11 * nrm)
            okr = okr and a == b
            true.append(max(1, a))
        n_eval += 1
        try:
            with np.errstate(all='ignore'):
                f = _clause_svd(tn, A, e, RDEF, exact_ranks=true if okr else None)
        except Exception as ex:  # noqa
            f = dict(what=f'svd raised {type(ex).__name__} on a valid input', input=pk('svd', A, e, RDEF))
        if f and len(fails) < 10:
            fails.append(f)
    # matrix variant and its inverse
    for i in range(120 if deep else 24):
        q = 1 + i % (5 if deep else 4)
        N = 2 ** q
        fam = i % 3
        A = g.normal(size=(N, N)) if fam == 0 else (np.eye(N) + np.eye(N, k=1) if fam == 1 else g.integers(-3, 4, size=(N, N)).astype(float))
        A = A * 10.0 ** rng.choice([-6, 0, 3, 6])
        nrm = max(float(np.linalg.norm(A)), 1e-300)
        ev(pk('svd_matrix', A, nrm * rng.choice([1e-10, 0.01, 0.1]), RDEF))
        rk = [1] + [rng.randint(1, 3) for _ in range(q - 1)] + [1]
        ev(dict(kind='full_matrix', cores=[_pack(g.integers(-3, 4, size=(rk[k], 4, rk[k + 1])).astype(float)) for k in range(q)]))
    # truncated matrix factorisations
    for i in range(600 if deep else 100):
        m, n = rng.randint(1, 7), rng.randint(1, 7)
        A = g.normal(size=(m, n))
        if i % 5 == 0 and min(m, n) > 1:
            k = rng.randint(1, min(m, n) - 1)
            A = g.normal(size=(m, k)) @ g.normal(size=(k, n))
        if i % 17 == 0:
            A = np.zeros((m, n))
        sc = 10.0 ** rng.choice([-6, -3, 0, 3, 6])
        A = A * sc
        rel = (i % 3 == 0) and bool(np.any(A))
        e = rng.choice([1e-10, 1e-3, 0.05, 0.3, 0.8]) * (1.0 if rel else sc * math.sqrt(m * n))
        r = rng.choice([RDEF, RDEF, 1, 2, 3])
        ev(pk('skeleton', A, e, r, rel=rel))
        if i % 4 == 0:
            ev(pk('matrix_svd', A, e, r))
    fails = [_shrink(tn, f) for f in fails]
    fails.sort(key=lambda f: len(str(f.get('input'))))
    R.search.append(dict(name='dense reference: error bound at every scale, ranks vs unfoldings, exact rank, round trip, skeleton',
                         evaluations=n_eval, failures=len(fails), deep=deep))
    return fails


def replay(data):
    tn = C.import_teneva()
    p = data.get('payload', {})
    print(data.get('what'))
    inp = p.get('input') if isinstance(p, dict) else None
    if isinstance(inp, dict) and 'kind' in inp:
        f = _guard(tn, inp)
        print('replayed on', C.REPO, '->', (f['what'], f.get('got'), f.get('expected')) if f else 'property holds')
        return 1 if f else 0
    print('no re-runnable input in the replay file (broken proof / correspondence):', str(p)[:500])
    return 1
