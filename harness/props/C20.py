"""C20 — incomplete TT-SVD recovers low-rank tensors from its structured samples (teneva.svd.svd_incomplete)."""
import itertools
import numpy as np
from harness import common as C

THEOREMS = 'Properties/C20.v'
CLAIM = dict(
    text='Coq theorems about the model Model/SvdInc.v (svd_incomplete, statement by statement, consuming the model of '
         'sample_tt in Model/Sample.v), for every d >= 2, every shape with positive mode sizes, every number of samples '
         'm >= 1 and every cap r >= 1, over any commutative ring: '
         '(1) incomplete_layout, full: C20_sample_tt_layout (for every generator whose choice returns indices below k '
         'and whose shuffle keeps the entries, sample_tt produces the block layout: offsets idx, suffix counts idx_many, '
         'block k = prefix ++ value :: suffix in the order value, prefix, suffix), C20_layout_shape (max(I)+1 is the '
         'sampled shape), C20_layout_blocks (the matrix cut out for mode k holds the target at exactly those '
         'multi-indices), C20_layout_step (each loop step succeeds and hands lstsq the left interface vectors of the '
         'sampled prefixes and the rows of the block). '
         '(2) incomplete_wf, full: C20_incomplete_wf (for arbitrary values, any svd returning a left factor with the '
         'rows of its argument and ANY lstsq: no exception, the shape of the tensor, a chain of ranks 1..1, all ranks <= r). '
         '(3) lstsq_exact, full, over the reals: C20_lstsq_exact / C20_lstsq_unique / C20_lstsq_min_solves (a minimiser '
         'of the residual of a consistent system solves it exactly, uniquely under full column rank; so a least-squares '
         'routine meets the contract lstsq_solves). '
         '(4) incomplete_exact, conditional: C20_incomplete_exact_run (contract of lstsq needed only on the systems of '
         'the run), C20_incomplete_recovers, C20_incomplete_recovers_rank, C20_incomplete_recovers_sampled (generator '
         'and consumer composed; target a TT-tensor): if the skeleton steps lose nothing (U V = B, U = B Z on the '
         'sample blocks they are applied to; this is where "cap >= rho" and a negligible e enter) and at every bond the '
         'left interface matrix of the sampled prefixes has a left inverse and the right interface matrix of the '
         'sampled suffixes has a right inverse (the algebraic content of "TT-rank rho, generic cores, mode sizes >= m"), '
         'the result is well formed, has ranks <= r and equals the target at EVERY multi-index (exact arithmetic). '
         'C20_skeleton_exact_from_svd / C20_incomplete_recovers_svd replace the skeleton hypothesis by the usual thin-SVD '
         'contract (A = U diag(s) V, V V^T = I) plus "the singular values cut off by the rank rule vanish". '
         '"For almost all tensors" is not formalised; rounding is not part of any theorem. '
         'C20_tt_full_rank_implies_rank_hyp / C20_tt_rank_hyp_unfold / C20_incomplete_recovers_tt state the rank hypothesis '
         'directly on the cores of the target ("full rank" = existence of a left / right inverse of the sampled interface '
         'matrices; rank-implies-inverse linear algebra is not formalised). '
         'Non-vacuity: C20_*_example instantiate every hypothesis on a 2x2x2 rank-2 target over Qc (true SVD), and '
         'C20_*generic*_example on a 3x2x3 rank-2 target with generic cores, m = 3, cap 2, a non-trivial generator, the '
         'skeleton reduction also at the inner mode and overdetermined least-squares systems. '
         'Cross-cutting families (correspondence and search): argument forms (I int64/int32/uint8/F-ordered/non-contiguous, '
         'values float64/non-contiguous/int64, offsets as ndarray/list/tuple/int32, e and r as Python / NumPy scalars / '
         '0-d arrays / keywords / omitted defaults; sample_tt n as list/tuple/int arrays, r as int / NumPy int / float, '
         'seeds None / 0 / int / Generator; get(_to_item=False) index as list/tuple/int32/uint8, F-ordered / '
         'non-contiguous / integer cores) must give bit-for-bit the canonical answer; histories (same, read-only, '
         'argument objects reused over three calls interleaved with get_many / get / sample_tt, same Generator reused: '
         'same answer, arguments bit-identical, no shared memory); scales 2^-500..2^+1000 of the whole target and the '
         'degenerate shapes (d = 2, rho = 1, m = rho, mode size = m, mode size 1, cap = rho, cap = 1). '
         'Magnitude with default arguments (correspondence and search): calls that omit e (and r), on targets rescaled so '
         'that the smallest retained singular value of the sample blocks is 45..1e4 times the documented default '
         'accuracy 1e-10, or large (to 1e100); the model is run with the documented defaults. '
         'Validated numerically only: that the hypotheses hold for random continuous cores and that binary64 rounding '
         'keeps the error small (search: relative error <= 1e-6, observed <= 3e-11 on 3000 cases).',
    note='The model is tied to svd.py / sample.py on every run: exact (Z) stream for sample_tt and for every block the '
         'consumer cuts out of labelled values; binary64 stream with the recorded np.linalg.svd / lstsq results replayed '
         'by call number, comparing error class, call sequence, svd arguments bitwise, lstsq arguments and cores to 1e-9; '
         'malformed-argument stream (error classes). The contracts of svd and lstsq are validated on every recorded call.',
    technique='Coq proof (induction over the modes with an interpolation invariant; ring algebra of finite sums; '
              'Reals for least squares) + model/implementation correspondence with replayed LAPACK oracles + '
              'property-level recovery search')
TRUSTED = ['Coq 8.16.1 kernel; vm_compute for case evaluation and for the closed Qc example',
           'hand-written model Model/SvdInc.v (+ Model/Sample.v sample_tt, Model/Svd.v matrix_skeleton, TT/Chain.v run) '
           'tied to teneva by the correspondence streams of this check',
           'oracle contracts (Section hypotheses): np.linalg.svd(full_matrices=False) returns a left factor with the rows '
           'of its argument; np.linalg.lstsq returns a solution of a consistent system (derived over the reals from '
           '"minimises the residual": C20_lstsq_min_solves); Generator.choice(k, s, replace=False) < k, shuffle keeps '
           'the entries; all validated on every recorded call (residuals, normal equations)',
           'NumPy semantics of slicing with a step, reshape(order=C), max(axis=0), array assignment G[:, i, :] = X, '
           'as modelled; teneva.get(_to_item=False) = Chain.run [1]',
           'Reals axioms of the standard library under the three lstsq theorems only']
ASSUMPTIONS = ['r is integer-valued (int(r) = r); negative indices and ragged I are outside the model',
               'exact recovery is a theorem about exact arithmetic under explicit algebraic hypotheses (no truncation '
               'loss in the skeleton steps; one-sided inverses of the sampled interface matrices); "almost all tensors" '
               'and the size of the rounding error are validated by the search, not proved',
               'scales: below 1 the accuracy e is rescaled with the target or set to 0 (e is an ABSOLUTE accuracy: with the '
               'default e = 1e-10 a target of magnitude below ~1e-9 is legitimately approximated by lower rank); targets of '
               'magnitude below 2^-537 are outside the search (matrix_skeleton compares SQUARED singular values, the squares '
               'underflow and everything is cut to rank 1 even for e = 0: reported to the lead, the model reproduces it in '
               'the scaled_tiny stream); float32 values are accepted with float32 accuracy (1e-2 in the search)',
               'forms that the docstrings do not promise (I or Y as lists, float mode sizes in sample_tt although the '
               'docstring says int/float, seed as np.int64) raise; the search only checks they never silently differ',
               'search domain: continuous random cores (normal, uniform) of scale 1, d in 2..5, rho <= m <= min n, '
               'cap >= rho or default, int / None / Generator seeds; cap < rho only for shape and rank bound']
TIME_LIMIT = {'quick': 900, 'thorough': 5400}

TOL = 1e-9          # correspondence: computed floats (model order of operations vs BLAS)
PROP_TOL = 1e-6     # property-level: relative Frobenius error of the recovered tensor ("up to rounding")

# ----------------------------------------------------------------------------
# Coq side
# ----------------------------------------------------------------------------

HEADER = r'''From Coq Require Import List ZArith Floats Bool Arith.
From TV Require Import Num.Ops Num.InstF Lin.Tab Lin.Mat TT.Chain Model.Sample Model.Svd Model.SvdInc.
Import ListNotations.
Open Scope nat_scope.
Definition dm {T} : mat T := mk_mat 0 0 [].
Definition lk_svd (rec : list (mat float * list float * mat float)) (k : nat) (A : mat float) :=
  nth k rec (dm, [], dm).
Definition lk_lsq (rec : list (mat float)) (k : nat) (A b : mat float) := nth k rec dm.
Definition showm (A : mat float) := map (map F_show) (md A).
Definition showc (G : core float) := map (map (map F_show)) (dat G).
Definition showcall (c : @call float) :=
  match c with CSvd A => (0%Z, (showm A, [])) | CLsq A b => (1%Z, (showm A, showm b)) end.
Definition showst (r : result (@st float)) :=
  match r with
  | Ok s => (0%Z, (map showc (cores s), map showcall (trace s)))
  | Err e => (err_code e, ([], []))
  end.
(* ---- exact layout stream: generator and consumer over Z with labelled values ---- *)
Definition lk_chnr (rec : list (nat * nat * list nat)) (c k s : nat) : list nat :=
  match nth_error rec c with
  | Some (k', s', out) => if (k =? k') && (s =? s') then out else []
  | None => [] end.
Definition lk_shuf (rec : list (list nat * list nat)) (c : nat) (l : list nat) : list nat :=
  match nth_error rec c with
  | Some (before, after) => if list_eq_dec Nat.eq_dec l before then after else []
  | None => [] end.
Definition dsvd (k : nat) (A : mat Z) : mat Z * list Z * mat Z :=
  (mkmat (mr A) 1 (fun _ _ => 0%Z), [0%Z], mkmat 1 (mc A) (fun _ _ => 0%Z)).
Definition dlsq (k : nat) (A b : mat Z) : mat Z := mkmat (mc A) (mc b) (fun _ _ => 0%Z).
Definition label (base : Z) (i : list nat) : Z := fold_left (fun acc x => acc * base + Z.of_nat x + 1)%Z i 0%Z.
Definition showcallZ (c : @call Z) :=
  match c with CSvd A => (0%Z, md A) | CLsq A b => (1%Z, md b) end.
Definition zn (l : list nat) : list Z := map Z.of_nat l.
Definition layoutZ (rc : list (nat * nat * list nat)) (rs : list (list nat * list nat)) (ns : list nat) (m : nat)
  (base rcap : Z) :=
  let '(II, idx, idm) := sample_tt (lk_chnr rc) (lk_shuf rs) ns m in
  (map zn II ++ [zn idx; zn idm],
   match svd_incomplete_st OZ dsvd dlsq II (map (label base) II) idx idm 0%Z rcap with
   | Ok s => (0%Z, map showcallZ (trace s))
   | Err e => (err_code e, [])
   end).
Definition showerr (r : result (@st float)) : Z := match r with Ok _ => 0%Z | Err e => err_code e end.
'''


def natl(x):
    return C.nested(np.asarray(x).astype(int).tolist(), str)


def mlit(A, leaf=C.flit):
    A = np.asarray(A)
    assert A.ndim == 2
    rows = '[' + '; '.join('[' + '; '.join(leaf(x) for x in row) + ']' for row in A.tolist()) + ']'
    return f'(mk_mat {A.shape[0]} {A.shape[1]} {rows}%float)'


def flist(x):
    return '[' + '; '.join(C.flit(v) for v in np.asarray(x, dtype=float).ravel().tolist()) + ']%float'


def unshow(x):
    """nested lists of (mantissa, exponent) pairs -> nested lists of floats"""
    if isinstance(x, tuple):
        return C.float_of_show(x)
    return [unshow(y) for y in x]


# ----------------------------------------------------------------------------
# implementation side: recorders for np.linalg.svd / np.linalg.lstsq and the random generator
# ----------------------------------------------------------------------------

class Recorder:
    """Records every call of np.linalg.svd and np.linalg.lstsq (module attributes looked up at call time)."""

    def __enter__(self):
        self.calls = []
        self._svd, self._lsq = np.linalg.svd, np.linalg.lstsq
        rec = self

        def svd(a, *args, **kw):
            out = rec._svd(a, *args, **kw)
            rec.calls.append(dict(kind='svd', A=np.array(a, dtype=float).copy(), ndim=np.ndim(a),
                                  out=[np.array(o).copy() for o in out], kw=dict(kw), nargs=len(args)))
            return out

        def lstsq(a, b, *args, **kw):
            a0, b0 = np.array(a).copy(), np.array(b).copy()
            out = rec._lsq(a, b, *args, **kw)
            rec.calls.append(dict(kind='lstsq', A=a0, b=b0, X=np.array(out[0]).copy(), kw=dict(kw), nargs=len(args)))
            return out
        np.linalg.svd, np.linalg.lstsq = svd, lstsq
        return self

    def __exit__(self, *exc):
        np.linalg.svd, np.linalg.lstsq = self._svd, self._lsq
        return False


class Aud(np.random.Generator):
    """numpy Generator that records choice(replace=False) and shuffle calls (what sample_lhs draws)."""

    def __init__(self, seed):
        super().__init__(np.random.PCG64(seed))
        self.chnr, self.shuf, self.other = [], [], 0

    def choice(self, a, size=None, replace=True, p=None, axis=0, shuffle=True):
        r = super().choice(a, size=size, replace=replace, p=p, axis=axis, shuffle=shuffle)
        if replace or p is not None or np.ndim(a) != 0:
            self.other += 1
        else:
            self.chnr.append((int(a), 0 if size is None else int(size), np.atleast_1d(r).astype(int).tolist()))
        return r

    def shuffle(self, x, axis=0):
        before = np.array(x).copy().tolist()
        super().shuffle(x, axis=axis)
        self.shuf.append((before, np.array(x).copy().tolist()))


def rec_chnr(g):
    return '[' + '; '.join(f'({n}, {s}, {natl(o)})' for n, s, o in g.chnr) + ']'


def rec_shuf(g):
    return '[' + '; '.join(f'({natl(b)}, {natl(a)})' for b, a in g.shuf) + ']'


def gen_contract_violations(g):
    bad = []
    for n, s, o in g.chnr:
        if len(o) != s or any(x < 0 or x >= n for x in o) or len(set(o)) != len(o):
            bad.append('choice(replace=False): not distinct indices below n')
    for b, a in g.shuf:
        if sorted(b) != sorted(a):
            bad.append('shuffle is not a permutation')
    if g.other:
        bad.append('unexpected generator call')
    return bad


def pow2_exp(A):
    """exponent e with max|A| in [2^(e-1), 2^e) (0 for an empty or zero array): rescaling by 2^-e is exact"""
    A = np.asarray(A, dtype=float)
    mx = float(np.abs(A).max()) if A.size else 0.0
    return int(np.frexp(mx)[1]) if mx > 0 and np.isfinite(mx) else 0


def oracle_contract_violations(calls):
    """The contracts assumed by the theorems, validated on every recorded call of the real routines
    (after an exact power-of-two normalisation of the arguments, so that any scale can be checked)."""
    bad = []
    for c in calls:
        if c['kind'] == 'svd':
            ea = pow2_exp(c['A'])
            A = np.ldexp(c['A'], -ea)
            U, s, V = c['out']
            s = np.ldexp(np.asarray(s, dtype=float), -ea)
            p = min(A.shape)
            if U.shape != (A.shape[0], p) or s.shape != (p,) or V.shape != (p, A.shape[1]):
                bad.append(f'svd shapes {U.shape} {s.shape} {V.shape} for {A.shape}')
                continue
            if np.abs(U.astype(float) @ np.diag(s) @ V.astype(float) - A).max() > 1e-11 * max(A.shape):
                bad.append('svd: U diag(s) V != A')
            if np.abs(V @ V.T - np.eye(p)).max() > 1e-11 or np.abs(U.T @ U - np.eye(p)).max() > 1e-11:
                bad.append('svd: factors not orthonormal')
            if (s < 0).any() or (np.diff(s) > 0).any():
                bad.append('svd: singular values not sorted non-negative')
            if c['kw'].get('full_matrices', True) is not False:
                bad.append('svd called with full_matrices != False')
        else:
            X = c['X']
            if X.shape != (c['A'].shape[1], c['b'].shape[1]):
                bad.append(f"lstsq shapes {X.shape} for {c['A'].shape} {c['b'].shape}")
                continue
            ea, eb = pow2_exp(c['A']), pow2_exp(c['b'])
            A, b = np.ldexp(np.asarray(c['A'], dtype=float), -ea), np.ldexp(np.asarray(c['b'], dtype=float), -eb)
            Xn = np.ldexp(np.asarray(X, dtype=float), ea - eb)
            if A.size and np.isfinite(Xn).all() and \
                    np.abs(A.T @ (A @ Xn - b)).max() > 1e-9 * max(1.0, float(np.abs(Xn).max())):
                bad.append('lstsq: normal equations not satisfied')
    return bad


# ----------------------------------------------------------------------------
# generators
# ----------------------------------------------------------------------------

def rand_tt(nprng, n, rho, kind='normal'):
    d = len(n)
    r = [1] + [rho] * (d - 1) + [1]
    if kind == 'int':
        return [nprng.integers(-3, 4, size=(r[k], n[k], r[k + 1])).astype(float) for k in range(d)]
    if kind == 'uniform':
        return [nprng.uniform(-1.0, 1.0, size=(r[k], n[k], r[k + 1])) for k in range(d)]
    return [nprng.normal(size=(r[k], n[k], r[k + 1])) for k in range(d)]


def dense(Y):
    Q = Y[0]
    for G in Y[1:]:
        Q = np.tensordot(Q, G, 1)
    return Q[0, ..., 0]


def values(Y, I):
    """independent of teneva.get_many: product of slices"""
    out = []
    for i in I:
        v = np.ones((1,))
        for G, k in zip(Y, i):
            v = v @ G[:, int(k), :]
        out.append(float(v[0]))
    return np.array(out)


DEFAULT_E = 1e-10      # documented default accuracy of svd_incomplete (docstring / signature of the pinned tree)


def block_sigma_min(y, n, rho, idx, idm):
    """smallest of the rho-th singular values of the sample blocks the skeleton reduction can be applied to
    (block 0 as n0 x suffixes, inner blocks as (n_k * prefixes) x suffixes): what an ABSOLUTE accuracy e is compared with"""
    out = np.inf
    for k in range(len(n) - 1):
        B = np.asarray(y[idx[k]:idx[k + 1]], dtype=float)
        B = B.reshape(int(n[k]), -1) if k == 0 else B.reshape(-1, int(idm[k]))
        sv = np.linalg.svd(B, compute_uv=False)
        if len(sv) >= rho:
            out = min(out, float(sv[rho - 1]))
    return out


def pow2_scale_for(sig, target):
    """power of two that brings sig to within a factor sqrt(2) of target"""
    return 2.0 ** int(np.round(np.log2(target / sig)))


def gen_case(rng, t, thorough):
    """one valid configuration: target of TT-rank rho, expected rank m >= rho, mode sizes >= m (mostly)"""
    fam = ['d2', 'rho1', 'm_eq_rho', 'n_eq_m', 'cap_eq_rho', 'cap_default', 'generic', 'generic', 'generic',
           'cap_lt_rho', 'n_lt_m', 'noisy', 'int', 'scaled', 'scaled_tiny', 'cap1', 'all_min', 'n1',
           'default_magnitude', 'default_magnitude'][t % 20]
    d = 2 if fam in ('d2', 'all_min') else rng.randint(2, 4)
    rho = 1 if fam in ('rho1', 'cap1', 'all_min', 'n1') else rng.randint(1, 3)
    m = rho if fam in ('m_eq_rho', 'all_min', 'n1') else rho + rng.randint(0, 2)
    n = [m if fam in ('n_eq_m', 'all_min') else m + rng.randint(0, 2) for _ in range(d)]
    if fam == 'n_lt_m':
        n[rng.randrange(d)] = max(1, m - 1)
    if fam == 'n1':
        n[rng.randrange(d)] = 1
    cap = rng.choice([rho, rho + 1, m, m + 1, 1e12])
    if fam in ('cap_eq_rho', 'all_min'):
        cap = rho
    if fam == 'cap_default':
        cap = 1e12
    if fam == 'cap_lt_rho':
        cap = max(1, rho - 1)
    if fam == 'cap1':
        cap = 1
    e = rng.choice([1e-10, 1e-10, 1e-8, 1e-12])
    ex = 0
    if fam == 'scaled':        # exact power-of-two rescaling of the whole target; e = 0 or rescaled with it
        ex = rng.choice([-500, -300, -100, -40, 100, 300, 600, 1000])
        e = rng.choice([0.0, 1e-10 * 2.0 ** ex]) if ex < 0 else rng.choice([0.0, 1e-10])
    sig = None
    if fam == 'default_magnitude':
        # the caller relies on the DEFAULT accuracy (e omitted; r omitted or given) and the tensor is small / large:
        # its smallest retained singular value sits 45 .. 1e4 times above the documented default e = 1e-10, or far above
        e = DEFAULT_E
        cap = rng.choice([rho, m, 1e12, 1e12])
        sig = rng.choice([4.5e-9, 6e-9, 1e-8, 3e-8, 1e-7, 1e-6, 1e-3, 1e3, 1e9, 1e100])
    if fam == 'scaled_tiny':   # squares of the singular values underflow: model tie only (see ASSUMPTIONS)
        ex = rng.choice([-600, -800, -1000])
        e = rng.choice([0.0, 1e-10])
    return dict(fam=fam, d=d, rho=rho, m=m, n=n, cap=cap, e=e, seed=rng.randrange(2 ** 31), ex=ex, sig=sig,
                kind='int' if fam == 'int' else 'normal', noise=(1e-3 if fam == 'noisy' else 0.0))


def make_inputs(tn, cfg):
    nprng = np.random.default_rng(cfg['seed'])
    Y = rand_tt(nprng, cfg['n'], cfg['rho'], cfg['kind'])
    if cfg.get('ex'):
        Y[0] = Y[0] * 2.0 ** cfg['ex']
    I, idx, idm = tn.sample_tt(cfg['n'], cfg['m'], seed=cfg['seed'])
    if cfg.get('sig'):
        s0 = block_sigma_min(values(Y, I), cfg['n'], cfg['rho'], np.asarray(idx), np.asarray(idm))
        cfg['scale'] = pow2_scale_for(s0, cfg['sig'])
        Y[0] = Y[0] * cfg['scale']
    y = values(Y, I)
    if cfg.get('noise'):
        y = y + cfg['noise'] * nprng.normal(size=y.shape)
    return Y, np.asarray(I), y, np.asarray(idx), np.asarray(idm)


def capz(cap):
    return C.zlit(int(cap))


def noncontig(a):
    """the same values in a non-contiguous view"""
    a = np.asarray(a)
    if a.ndim == 1:
        return np.repeat(a, 2)[::2]
    return np.repeat(a, 2, axis=1)[:, ::2]


def arg_forms(rng, I, y, idx, idm, e, cap):
    """the same call in another documented argument form (array dtype / order / contiguity, list / tuple / int32
    offsets, NumPy scalars and 0-d arrays for e and r, keywords, omitted defaults); returns (args, kwargs, label)"""
    lab = []
    fI = rng.choice(['int64', 'int32', 'uint8', 'F', 'noncontig'])
    if fI == 'uint8' and I.size and I.max() > 200:
        fI = 'int32'
    I2 = {'int64': lambda: I.astype(np.int64), 'int32': lambda: I.astype(np.int32), 'uint8': lambda: I.astype(np.uint8),
          'F': lambda: np.asfortranarray(I), 'noncontig': lambda: noncontig(I)}[fI]()
    lab.append('I:' + fI)
    fy = rng.choice(['f64', 'noncontig', 'int64'])
    if np.all(y == np.round(y)) and np.all(np.abs(y) < 2 ** 50):
        fy = rng.choice(['int64', 'int64', 'noncontig'])       # integer values: an int64 array next to float64
    elif fy == 'int64':
        fy = 'noncontig'
    y2 = {'f64': lambda: y.copy(), 'noncontig': lambda: noncontig(y), 'int64': lambda: y.astype(np.int64)}[fy]()
    lab.append('Y:' + fy)
    fx = rng.choice(['ndarray', 'list', 'tuple', 'int32'])
    conv = {'ndarray': lambda a: np.asarray(a), 'list': lambda a: np.asarray(a).tolist(),
            'tuple': lambda a: tuple(np.asarray(a).tolist()), 'int32': lambda a: np.asarray(a).astype(np.int32)}[fx]
    idx2, idm2 = conv(idx), conv(idm)
    lab.append('idx:' + fx)
    fe = rng.choice(['float', 'np.float64', '0d'])
    e2 = {'float': lambda: float(e), 'np.float64': lambda: np.float64(e), '0d': lambda: np.array(float(e))}[fe]()
    lab.append('e:' + fe)
    if cap == 1e12:
        fr = rng.choice(['float', 'np.float64', 'int'])
        r2 = {'float': lambda: 1e12, 'np.float64': lambda: np.float64(1e12), 'int': lambda: 10 ** 12}[fr]()
    else:
        fr = rng.choice(['int', 'float', 'np.int64', 'np.int32', 'np.float32', '0d'])
        r2 = {'int': lambda: int(cap), 'float': lambda: float(cap), 'np.int64': lambda: np.int64(cap),
              'np.int32': lambda: np.int32(cap), 'np.float32': lambda: np.float32(cap),
              '0d': lambda: np.array(int(cap))}[fr]()
    lab.append('r:' + fr)
    style = rng.choice(['positional', 'keyword', 'defaults'])
    if style == 'defaults' and not (cap == 1e12 and e == 1e-10):
        style = 'keyword'
    lab.append(style)
    if style == 'positional':
        return (I2, y2, idx2, idm2, e2, r2), {}, ' '.join(lab)
    if style == 'keyword':
        return (), dict(I=I2, Y=y2, idx=idx2, idx_many=idm2, e=e2, r=r2), ' '.join(lab)
    return (I2, y2, idx2, idm2), {}, ' '.join(lab)


def run_impl(tn, I, y, idx, idm, e, cap, form=None):
    with Recorder() as rec:
        try:
            if form is not None:
                Z = tn.svd_incomplete(*form[0], **form[1])
            else:
                Z = tn.svd_incomplete(I, y, idx, idm, e, cap)
            code = 0
        except Exception as ex:  # noqa
            Z, code = None, C.errclass(ex)
            rec.err = repr(ex)[:300]
    return code, Z, rec


def coq_term(I, y, idx, idm, e, cap, calls):
    svds = '[' + '; '.join(f"({mlit(c['out'][0])}, {flist(c['out'][1])}, {mlit(c['out'][2])})"
                           for c in calls if c['kind'] == 'svd') + ']'
    lsqs = '[' + '; '.join(mlit(c['X']) for c in calls if c['kind'] == 'lstsq') + ']'
    return (f'showst (svd_incomplete_st OF (lk_svd {svds}) (lk_lsq {lsqs}) {natl(I)} {flist(y)} {natl(idx)} '
            f'{natl(idm)} ({C.flit(e)})%float {capz(cap)}%Z)')


def close(a, b, tol):
    a, b = np.asarray(a, dtype=float), np.asarray(b, dtype=float)
    if a.shape != b.shape:
        return False
    if a.size == 0:
        return True
    sc = max(float(np.abs(b).max()), 1e-300)
    return bool(np.all(np.abs(a - b) <= tol * sc))


def same_bits(a, b):
    a, b = np.asarray(a, dtype=float), np.asarray(b, dtype=float)
    return a.shape == b.shape and bool(np.all(a == b))


def to2d(rows, ncols_hint=None):
    a = np.array(rows, dtype=float)
    if a.ndim == 1:       # zero rows or zero columns
        a = a.reshape(len(rows), 0)
    return a


AMP_SKIP = 1e-4     # an interface matrix whose forward error bound exceeds this (relative) is not compared


def interface_tolerances(Z, calls):
    """Relative tolerance for the matrix A of every recorded lstsq call, from the implementation's own data.
    A of mode k+1 holds rows of Phi_{k+1} = Phi_k G_k.  Two evaluations of that product (BLAS order in numpy,
    left-to-right sums in the model) and a relative perturbation t_k of Phi_k differ by at most
    (t_k + gamma) * max(|Phi_k| |G_k|), gamma ~ r * 2^-52, which relative to max|Phi_{k+1}| is amplified by
    f_k = max(|Phi_k| |G_k|) / max|Phi_{k+1}| (f_k ~ 1..10 for a consistent, well-conditioned run; huge when an
    earlier truncation made the systems numerically singular AND inconsistent, so that lstsq returned a core with
    entries ~ 1/eps).  t_1 = TOL, t_{k+1} = (t_k + gamma) * max(1, f_k).  Returns ({call index: t}, max f)."""
    tol, fmax = {}, 1.0
    pos = [k for k, c in enumerate(calls) if c['kind'] == 'lstsq']
    t, at = TOL, 0
    for mode in range(1, len(Z)):
        cnt = Z[mode].shape[1]
        grp = pos[at:at + cnt]
        at += cnt
        for k in grp:
            tol[k] = t
        if not grp or mode + 1 >= len(Z) or at >= len(pos):
            continue
        A = np.abs(np.asarray(calls[grp[0]]['A'], dtype=float))
        nxt = np.abs(np.asarray(calls[pos[at]]['A'], dtype=float))
        G = np.abs(np.asarray(Z[mode], dtype=float))
        if A.ndim != 2 or nxt.ndim != 2 or A.shape[1] != G.shape[0] or not A.size or not nxt.size:
            continue
        ea, eg = pow2_exp(A), pow2_exp(G)
        prod = max(float((np.ldexp(A, -ea) @ np.ldexp(G[:, v, :], -eg)).max()) for v in range(G.shape[1]))
        den = float(np.ldexp(nxt, -(ea + eg)).max())
        f = prod / den if den > 0 else np.inf
        fmax = max(fmax, f)
        t = (t + 4 * G.shape[0] * 2.0 ** -52) * max(1.0, f)
    return tol, fmax


def compare_case(model, code, Z, rec, stats=None):
    """model: parsed showst value; returns None or a description of the first difference"""
    mcode, (mcores, mtrace) = model
    if mcode != code:
        return f'error class: model {mcode} implementation {code} ({getattr(rec, "err", "")})'
    if code != 0:
        return None
    if len(mcores) != len(Z):
        return f'number of cores: model {len(mcores)} implementation {len(Z)}'
    for k, (Gm, Gi) in enumerate(zip(mcores, Z)):
        Gm = np.array(unshow(Gm), dtype=float)
        if Gm.shape != Gi.shape:
            return f'core {k}: shape model {Gm.shape} implementation {Gi.shape}'
        if not close(Gm, Gi, TOL):
            return f'core {k}: values differ by {float(np.abs(Gm - Gi).max()):.3e}'
    if len(mtrace) != len(rec.calls):
        return f'number of oracle calls: model {len(mtrace)} implementation {len(rec.calls)}'
    tolA, fmax = interface_tolerances(Z, rec.calls)
    if stats is not None:
        stats['amplification_max'] = max(stats.get('amplification_max', 1.0), fmax if np.isfinite(fmax) else 1e308)
        stats['tolA_max_compared'] = max([stats.get('tolA_max_compared', TOL)] + [t for t in tolA.values() if t <= AMP_SKIP])
        stats['A_not_comparable'] = stats.get('A_not_comparable', 0) + sum(1 for t in tolA.values() if t > AMP_SKIP)
    for k, (cm, ci) in enumerate(zip(mtrace, rec.calls)):
        kind, (Am, bm) = cm
        if kind != (0 if ci['kind'] == 'svd' else 1):
            return f'oracle call {k}: model kind {kind} implementation {ci["kind"]}'
        Am = to2d(unshow(Am))
        if ci['kind'] == 'svd':
            if ci['A'].ndim != 2 or not same_bits(Am.reshape(ci['A'].shape) if Am.size == ci['A'].size else Am, ci['A']):
                return f'svd call {k}: argument differs (model shape {Am.shape}, implementation {ci["A"].shape})'
        else:
            bm = to2d(unshow(bm))
            if ci['A'].ndim != 2 or ci['b'].ndim != 2:
                return f'lstsq call {k}: implementation passed arrays of ndim {ci["A"].ndim}, {ci["b"].ndim}'
            if Am.shape != ci['A'].shape and Am.size:
                return f'lstsq call {k}: A shape model {Am.shape} implementation {ci["A"].shape}'
            tk = tolA.get(k, TOL)
            if Am.size and tk <= AMP_SKIP and not close(Am, ci['A'], tk):
                return (f'lstsq call {k}: A differs by {float(np.abs(Am - ci["A"]).max()):.3e} '
                        f'(max|A| {float(np.abs(ci["A"]).max()):.3e}, relative tolerance {tk:.1e})')
            if bm.shape != ci['b'].shape and bm.size:
                return f'lstsq call {k}: b shape model {bm.shape} implementation {ci["b"].shape}'
            if bm.size and not close(bm, ci['b'], TOL):
                return f'lstsq call {k}: b differs by {float(np.abs(bm - ci["b"]).max()):.3e}'
    return None


def tolerant_stream(R, name, terms, cmp_results, inputs, chunk, dist, comparison):
    vals = C.run_cases(f'{R.pid}_{name}', HEADER, terms, chunk=chunk)
    bad = []
    for v, cmpf, inp in zip(vals, cmp_results, inputs):
        R.add_distinct((name, inp))
        msg = cmpf(v)
        if msg:
            bad.append(dict(stream=name, input=inp, difference=msg))
    R.corr.append(dict(name=name, cases=len(terms), mismatches=len(bad), comparison=comparison,
                       distribution=dist, first_mismatches=bad[:3]))
    if terms:
        R.samples.append(dict(stream=name, input=inputs[0], result='agrees' if not bad or bad[0]['input'] != inputs[0]
                              else bad[0]['difference']))
    return bad


# ----------------------------------------------------------------------------
# correspondence
# ----------------------------------------------------------------------------

def corr_float(R, ctx, tn):
    """binary64 instance of the model with the recorded svd / lstsq results replayed by call number"""
    rng = ctx['rng']
    N = 320 if ctx['thorough'] else 80
    terms, cmps, inputs = [], [], []
    dist = dict(family={}, d={}, rho={}, m={}, cap={}, forms={}, amp={}, impl_raised=0, svd_calls=0, lstsq_calls=0,
                contract_bad=[])
    for t in range(N):
        cfg = gen_case(rng, t, ctx['thorough'])
        Y, I, y, idx, idm = make_inputs(tn, cfg)
        form = None
        if cfg['fam'] == 'default_magnitude':   # e omitted (and r when it is the default): the model gets the documented defaults
            kw = {} if cfg['cap'] == 1e12 and rng.random() < 0.7 else {'r': cfg['cap']}
            form = ((I, y, idx, idm), kw, 'default-e' + ('' if kw else ' default-r'))
            cfg['form'] = form[2]
            for w in form[2].split():
                dist['forms'][w] = dist['forms'].get(w, 0) + 1
        elif t % 2 == 1:      # every second case is called in another documented argument form; the model sees the values
            form = arg_forms(rng, I, y, idx, idm, cfg['e'], cfg['cap'])
            cfg['form'] = form[2]
            for w in form[2].split():
                dist['forms'][w] = dist['forms'].get(w, 0) + 1
        code, Z, rec = run_impl(tn, I, y, idx, idm, cfg['e'], cfg['cap'], form)
        for k, v in (('family', cfg['fam']), ('d', cfg['d']), ('rho', cfg['rho']), ('m', cfg['m']),
                     ('cap', str(cfg['cap']))):
            dist[k][v] = dist[k].get(v, 0) + 1
        dist['impl_raised'] += code != 0
        dist['svd_calls'] += sum(1 for c in rec.calls if c['kind'] == 'svd')
        dist['lstsq_calls'] += sum(1 for c in rec.calls if c['kind'] == 'lstsq')
        cb = oracle_contract_violations(rec.calls)
        if cb:
            dist['contract_bad'].append([cfg, cb[:2]])
        if cfg['fam'] not in ('noisy', 'cap_lt_rho', 'n_lt_m', 'int', 'scaled_tiny') and code == 0:
            # hypothesis of the exactness theorem: the skeleton steps lose nothing (cap >= rho, e negligible)
            for c, G in zip([c for c in rec.calls if c['kind'] == 'svd'], [None] * 99):
                s_ = c['out'][1]
                sc = max(float(s_[0]), 1e-300) if len(s_) else 1.0
                tail = s_[cfg['rho']:]
                dist['skeleton_tail_max'] = max(dist.get('skeleton_tail_max', 0.0),
                                                float(np.sqrt(np.sum((tail / sc) ** 2))) if len(tail) else 0.0)
        terms.append(coq_term(I, y, idx, idm, cfg['e'], cfg['cap'], rec.calls))
        cmps.append(lambda v, code=code, Z=Z, rec=rec, fam=cfg['fam']: compare_case(v, code, Z, rec, dist['amp'].setdefault(fam, {})))
        inputs.append(dict(fn='svd_incomplete', **cfg))
    bad = tolerant_stream(R, 'svd_incomplete_float_replay', terms, cmps, inputs, 6, dist,
                          f'error class, number/kind of oracle calls, core shapes: exact; svd arguments: bitwise; '
                          f'cores and lstsq right-hand sides: relative {TOL}; lstsq matrices (interface vectors): relative {TOL} times '
                          f'the forward-error amplification of the interface products computed from the recorded data '
                          f'(not compared beyond {AMP_SKIP}; see distribution.amp per family)')
    if dist['contract_bad']:
        R.corr.append(dict(name='oracle contracts on recorded calls', cases=dist['svd_calls'] + dist['lstsq_calls'],
                           mismatches=len(dist['contract_bad']), first_mismatches=dist['contract_bad'][:3]))
    return bad


def labels(I, base):
    out = []
    for i in I:
        acc = 0
        for x in i:
            acc = acc * base + int(x) + 1
        out.append(float(acc))
    return np.array(out)


def corr_layout(R, ctx, tn):
    """exact (Z) stream: Model/Sample.sample_tt against teneva.sample_tt, and the blocks the consumer cuts out of
    labelled values (value = injective code of the multi-index) against the matrices the implementation hands to
    svd / lstsq"""
    rng = ctx['rng']
    N = 200 if ctx['thorough'] else 50
    items = []
    dist = dict(d={}, m={}, contract_bad=0)
    for t in range(N):
        d = [2, 3, 4, 2][t] if t < 4 else rng.randint(2, 4)
        m = rng.randint(1, 4)
        n = [rng.randint(1, 5) for _ in range(d)]
        cap = rng.choice([1, 2, 3, 10 ** 12])
        g = Aud(rng.randrange(2 ** 31))
        base = max(n) + 2
        try:
            I, idx, idm = tn.sample_tt(n, m, seed=g)
            I, idx, idm = np.asarray(I), np.asarray(idx), np.asarray(idm)
            first = I.astype(int).tolist() + [idx.astype(int).tolist(), idm.astype(int).tolist()]
            code, Z, rec = run_impl(tn, I, labels(I, base), idx, idm, 0.0, cap)
            tr = []
            groups = iter(n[1:])
            k = 0
            calls = rec.calls
            # which lstsq groups follow a skeleton call: their b is not an exact block, compare shape only
            skel_next = False
            pos = 0
            while pos < len(calls):
                c = calls[pos]
                if c['kind'] == 'svd':
                    tr.append((0, c['A'].astype(int).tolist()))
                    skel_next = pos > 0
                    pos += 1
                else:
                    cnt = next(groups, 1)
                    for c2 in calls[pos:pos + cnt]:
                        tr.append((1, None if skel_next else c2['b'].astype(int).tolist()))
                    pos += cnt
                    skel_next = False
            impl = (first, (code, tr if code == 0 else []))
        except Exception as ex:  # noqa
            impl = ('sample_tt raised', repr(ex)[:200])
        dist['d'][d] = dist['d'].get(d, 0) + 1
        dist['m'][m] = dist['m'].get(m, 0) + 1
        dist['contract_bad'] += bool(gen_contract_violations(g))
        items.append(dict(coq=f'layoutZ {rec_chnr(g)} {rec_shuf(g)} {natl(n)} {m} {base}%Z {capz(cap)}%Z',
                          impl=impl, input=dict(fn='layout', n=n, m=m, cap=cap)))

    def norm(v):
        first, (code, tr) = v
        return (first, (code, tr))
    vals = C.run_cases(f'{R.pid}_layout', HEADER, [it['coq'] for it in items], chunk=10)
    bad = []
    for it, v in zip(items, vals):
        R.add_distinct(('layout', it['input']))
        first, (code, tr) = v
        imp = it['impl']
        ok = isinstance(imp[0], list) and first == imp[0] and code == imp[1][0] and len(tr) == len(imp[1][1])
        if ok:
            for (km, Am), (ki, Ai) in zip(tr, imp[1][1]):
                if km != ki or (Ai is not None and Am != Ai):
                    ok = False
        if not ok:
            bad.append(dict(stream='layout', input=it['input'], model=repr(v)[:600], impl=repr(imp)[:600]))
    R.corr.append(dict(name='sample_tt layout and consumer blocks (exact, Z)', cases=len(items), mismatches=len(bad),
                       comparison='exact equality of I, idx, idx_many, of every matrix handed to svd and of every '
                                  'unreduced block handed to lstsq',
                       distribution=dist, first_mismatches=bad[:3]))
    return bad


def corr_malformed(R, ctx, tn):
    """error classes on malformed arguments (one defect at a time)"""
    rng = ctx['rng']
    terms, cmps, inputs = [], [], []
    dist = dict(kind={})
    kinds = ['idx_short', 'idm_short', 'idm_zero', 'y_short', 'I_empty', 'idx_shift', 'valid']
    for t in range(28 if not ctx['thorough'] else 84):
        kind = kinds[t % len(kinds)]
        cfg = gen_case(rng, 6, False)
        cfg['fam'] = 'malformed:' + kind
        Y, I, y, idx, idm = make_inputs(tn, cfg)
        d = cfg['d']
        if kind == 'idx_short':
            idx = idx[:rng.randint(0, 1)]
        elif kind == 'idm_short':
            idm = idm[:rng.randint(0, d - 1)]
        elif kind == 'idm_zero':
            idm = idm.copy()
            idm[rng.randint(1, d - 1)] = 0
        elif kind == 'y_short':
            y = y[:len(y) - 1]
        elif kind == 'I_empty':
            I = I[:0]
        elif kind == 'idx_shift':
            idx = idx.copy()
            idx[1] += 1
        code, Z, rec = run_impl(tn, I, y, idx, idm, cfg['e'], cfg['cap'])
        dist['kind'][f'{kind}:{code}'] = dist['kind'].get(f'{kind}:{code}', 0) + 1
        terms.append(coq_term(I, y, idx, idm, cfg['e'], cfg['cap'], rec.calls).replace('showst (', 'showerr (', 1))
        cmps.append(lambda v, code=code, rec=rec: None if v == code else
                    f'error class: model {v} implementation {code} ({getattr(rec, "err", "")})')
        inputs.append(dict(fn='svd_incomplete', malformed=kind, **{k: cfg[k] for k in ('n', 'm', 'rho', 'cap', 'seed')}))
    return tolerant_stream(R, 'svd_incomplete_malformed', terms, cmps, inputs, 14, dist, 'error class: exact')


def correspondence(R, ctx):
    tn = C.import_teneva()
    bad = []
    bad += corr_layout(R, ctx, tn)
    bad += corr_float(R, ctx, tn)
    bad += corr_malformed(R, ctx, tn)
    return bad


# ----------------------------------------------------------------------------
# search: the property itself on the implementation, independent of the model
# ----------------------------------------------------------------------------

def _oracle(tn, p):
    """p: n, rho, m, cap, seed (tensor), sseed (sampler: int / None / 'gen:<int>'), kind, [e]; returns a failure or None"""
    f = _oracle0(tn, p)
    if f and f.get('samples') and not p.get('samples'):
        f['input'] = dict(p, samples=f.pop('samples'))
    return f


def _oracle0(tn, p):
    n, rho, m, cap = p['n'], p['rho'], p['m'], p['cap']
    nprng = np.random.default_rng(p['seed'])
    Y = rand_tt(nprng, n, rho, p.get('kind', 'normal'))
    if p.get('scale'):
        Y[0] = Y[0] * p['scale']
    ss = p.get('sseed', p['seed'])
    if isinstance(ss, str) and ss.startswith('gen:'):
        ss = np.random.default_rng(int(ss[4:]))
    samples = None
    try:
        if p.get('samples'):
            I, idx, idm = [np.array(x, dtype=int) for x in p['samples']]
        else:
            I, idx, idm = tn.sample_tt(n, m, seed=ss)
        I = np.asarray(I)
        if ss is None:   # not reproducible from the seed: keep the drawn samples for the replay
            samples = [I.tolist(), np.asarray(idx).tolist(), np.asarray(idm).tolist()]
        y = values(Y, I)
        args = [I, y, idx, idm]
        kw = {}
        if 'e' in p:
            kw['e'] = p['e']
        if cap is not None:
            kw['r'] = cap
        Z = tn.svd_incomplete(*args, **kw)
    except Exception as ex:  # noqa
        return dict(what='svd_incomplete raised on structured samples of a low-rank tensor: ' + repr(ex)[:200], input=p)
    d = len(n)
    if not isinstance(Z, list) or len(Z) != d:
        return dict(what='result is not a list of d cores', input=p, got=repr(Z)[:200])
    sh = [tuple(G.shape) for G in Z]
    if any(len(s) != 3 for s in sh) or sh[0][0] != 1 or sh[-1][2] != 1 or \
            any(sh[k][2] != sh[k + 1][0] for k in range(d - 1)) or [s[1] for s in sh] != list(n):
        return dict(what='result is not a well-formed TT-tensor of the shape of the target', input=p, got=sh,
                    expected=list(n))
    rk = [s[2] for s in sh[:-1]]
    if cap is not None and any(r > cap for r in rk):
        return dict(what='TT-rank above the cap', input=p, got=rk, expected=cap)
    if not all(np.isfinite(G).all() for G in Z):
        return dict(what='non-finite entries in the result', input=p)
    if cap is None or cap >= rho:
        inv = 1.0 / p['scale'] if p.get('scale') else 1.0     # exact: the scale is a power of two
        F, G = dense(Y) * inv, dense(Z) * inv
        err = float(np.linalg.norm(F - G) / max(np.linalg.norm(F), 1e-300))
        if err > PROP_TOL:
            return dict(what=f'recovered tensor differs from the rank-{rho} target: relative error {err:.3e}',
                        input=p, got=err, expected=f'<= {PROP_TOL}', samples=samples)
    return None



# ----------------------------------------------------------------------------
# search families: argument forms, call histories, scales and degenerate shapes
# ----------------------------------------------------------------------------

def check_layout(n, m, I, idx, idm):
    """independent description of what sample_tt must return for shape n and expected rank m"""
    I, idx, idm = np.asarray(I), np.asarray(idx), np.asarray(idm)
    d = len(n)
    if not np.issubdtype(I.dtype, np.integer):
        return f'samples have dtype {I.dtype}'
    if I.ndim != 2 or I.shape[1] != d or idx.shape != (d + 1,) or idm.shape != (d,) or idx[0] != 0:
        return f'shapes {I.shape} {idx.shape} {idm.shape}'
    if I.min() < 0 or (I >= np.asarray(n, dtype=int)[None, :]).any():
        return 'index outside the tensor'
    for k in range(d):
        l1 = 1 if k == 0 else m
        l2 = 1 if k == d - 1 else m
        if idm[k] != l2 or idx[k + 1] - idx[k] != int(n[k]) * l1 * l2:
            return f'block {k}: idx_many {idm[k]} length {idx[k + 1] - idx[k]}'
        B = I[idx[k]:idx[k + 1]].reshape(int(n[k]), l1, l2, d)
        if not (B[:, :, :, k] == np.arange(int(n[k]))[:, None, None]).all():
            return f'block {k}: values of the mode not in order'
        if not (B[:, :, :, :k] == B[:1, :, :1, :k]).all() or not (B[:, :, :, k + 1:] == B[:1, :1, :, k + 1:]).all():
            return f'block {k}: not a product (value x prefixes x suffixes)'
    return None


def same_cores(Za, Zb):
    return len(Za) == len(Zb) and all(np.asarray(a).shape == np.asarray(b).shape and
                                      np.array_equal(np.asarray(a, dtype=float), np.asarray(b, dtype=float))
                                      for a, b in zip(Za, Zb))


def snapshot(*arrs):
    return [(np.asarray(a).dtype.str, np.asarray(a).shape, np.asarray(a).tobytes()) for a in arrs]


def small_cfg(rng):
    d = rng.randint(2, 4)
    rho = rng.randint(1, 3)
    m = rho + rng.randint(0, 1)
    n = [m + rng.randint(0, 2) for _ in range(d)]
    cap = rng.choice([rho, m, m + 1, 1e12])
    return dict(n=n, rho=rho, m=m, cap=cap, seed=rng.randrange(2 ** 31), kind=rng.choice(['normal', 'uniform']))


def rel_err(Y, Z, inv=1.0):
    F, G = dense(Y) * inv, dense(Z) * inv
    return float(np.linalg.norm(F - G) / max(np.linalg.norm(F), 1e-300))


def fam_forms(tn, fseed):
    """(1) argument forms: every documented form gives bit-for-bit the answer of the canonical form;
    undocumented forms raise or give the same answer"""
    rng = C.Rng(fseed)
    cfg = small_cfg(rng)
    inp = dict(family='forms', fseed=fseed, cfg=cfg)
    n, m, rho, cap, e = cfg['n'], cfg['m'], cfg['rho'], cfg['cap'], 1e-10
    Y = rand_tt(np.random.default_rng(cfg['seed']), n, rho, cfg['kind'])
    # ---- sample_tt
    I, idx, idm = tn.sample_tt(n, m, seed=cfg['seed'])
    I = np.asarray(I)
    msg = check_layout(n, m, I, idx, idm)
    if msg:
        return dict(what='sample_tt: ' + msg, input=inp)
    for lab, nn, mm in [('n tuple', tuple(n), m), ('n int64 array', np.array(n, dtype=np.int64), m),
                        ('n int32 array', np.array(n, dtype=np.int32), m), ('r np.int64', n, np.int64(m)),
                        ('r np.int32', n, np.int32(m)), ('r float', n, float(m)), ('r keyword', n, None)]:
        try:
            out = tn.sample_tt(nn, r=m, seed=cfg['seed']) if mm is None else tn.sample_tt(nn, mm, cfg['seed'])
        except Exception as ex:  # noqa
            return dict(what=f'sample_tt raised for the documented form "{lab}": {ex!r}'[:300], input=inp)
        if not all(np.array_equal(a, b) for a, b in zip(out, (I, idx, idm))):
            return dict(what=f'sample_tt: form "{lab}" gives other samples than the canonical form', input=inp)
    for lab, sd in [('seed 0', 0), ('seed None', None), ('seed Generator', np.random.default_rng(cfg['seed'])),
                    ('default r', 'default')]:
        try:
            out = tn.sample_tt(n) if sd == 'default' else tn.sample_tt(n, m, sd)
        except Exception as ex:  # noqa
            return dict(what=f'sample_tt raised for "{lab}": {ex!r}'[:300], input=inp)
        msg = check_layout(n, 4 if sd == 'default' else m, *out)
        if msg:
            return dict(what=f'sample_tt ({lab}): {msg}', input=inp)
    for lab, f in [('n float list (undocumented behaviour: may raise)', lambda: tn.sample_tt([float(x) for x in n], m, cfg['seed'])),
                   ('seed np.int64 (may raise)', lambda: tn.sample_tt(n, m, np.int64(cfg['seed'])))]:
        try:
            out = f()
        except Exception:  # noqa
            continue
        if not all(np.array_equal(a, b) for a, b in zip(out, (I, idx, idm))):
            return dict(what=f'sample_tt: "{lab}" silently returns other samples', input=inp)
    # ---- svd_incomplete
    y = values(Y, I)
    Zc = tn.svd_incomplete(I, y, idx, idm, e, cap)
    if rel_err(Y, Zc) > PROP_TOL:
        return dict(what='canonical call does not recover the target', input=inp)
    for t in range(10):
        a, kw, lab = arg_forms(rng, I, y, idx, idm, e, cap)
        try:
            Z = tn.svd_incomplete(*a, **kw)
        except Exception as ex:  # noqa
            return dict(what=f'svd_incomplete raised for the documented argument form [{lab}]: {ex!r}'[:300], input=inp)
        if not same_cores(Z, Zc):
            return dict(what=f'svd_incomplete: argument form [{lab}] changes the result', input=inp)
    Yi = rand_tt(np.random.default_rng(cfg['seed']), n, rho, 'int')     # integer values: int64 array next to float64
    yi = values(Yi, I)
    try:
        if not same_cores(tn.svd_incomplete(I, yi.astype(np.int64), idx, idm, e, cap),
                          tn.svd_incomplete(I, yi, idx, idm, e, cap)):
            return dict(what='svd_incomplete: integer-dtype values give another result than the same float values', input=inp)
    except Exception as ex:  # noqa
        return dict(what=f'svd_incomplete raised on integer-dtype values: {ex!r}'[:300], input=inp)
    try:   # float32 values: the answer of float32 arithmetic (tolerance 1e-2), never a malformed tensor
        Z32 = tn.svd_incomplete(I, y.astype(np.float32), idx, idm, e, cap)
        if [G.shape[1] for G in Z32] != list(n) or not all(np.isfinite(G).all() for G in Z32) or rel_err(Y, Z32) > 1e-2:
            return dict(what='svd_incomplete on float32 values: wrong tensor', input=inp, got=rel_err(Y, Z32))
    except Exception as ex:  # noqa
        return dict(what=f'svd_incomplete raised on float32 values: {ex!r}'[:300], input=inp)
    e32 = np.float32(e)
    Za, Zb = tn.svd_incomplete(I, y, idx, idm, e32, cap), tn.svd_incomplete(I, y, idx, idm, float(e32), cap)
    if len(Za) != len(Zb) or any(a.shape != b.shape or not np.allclose(a, b, rtol=1e-9, atol=0) for a, b in zip(Za, Zb)):
        return dict(what='svd_incomplete: e as np.float32 gives another result than the same value as float', input=inp)
    for lab, f in [('I list', lambda: tn.svd_incomplete(I.tolist(), y, idx, idm, e, cap)),
                   ('Y list', lambda: tn.svd_incomplete(I, y.tolist(), idx, idm, e, cap)),
                   ('I float array', lambda: tn.svd_incomplete(I.astype(float), y, idx, idm, e, cap))]:
        try:
            Z = f()
        except Exception:  # noqa  (undocumented form: may raise)
            continue
        if not same_cores(Z, Zc):
            return dict(what=f'svd_incomplete: undocumented form "{lab}" silently returns another result', input=inp)
    # ---- get(_to_item=False) on the cores built so far
    for k in range(1, len(Zc)):
        i0 = I[rng.randrange(len(I)), :k]
        ref = np.asarray(tn.get(Zc[:k], np.array(i0, dtype=np.int64), _to_item=False))
        if ref.shape != (1, Zc[k - 1].shape[2]):
            return dict(what=f'get(_to_item=False) returns shape {ref.shape}', input=inp)
        v = np.ones((1, 1))
        for G, j in zip(Zc[:k], i0):
            v = v @ G[:, int(j), :]
        if not np.allclose(ref, v, rtol=1e-12, atol=0):
            return dict(what='get(_to_item=False) is not the product of the slices', input=inp)
        forms = [('list', i0.tolist(), Zc[:k]), ('tuple', tuple(i0.tolist()), Zc[:k]),
                 ('int32', i0.astype(np.int32), Zc[:k]), ('uint8', i0.astype(np.uint8), Zc[:k]),
                 ('F-ordered cores', i0, [np.asfortranarray(G) for G in Zc[:k]]),
                 ('non-contiguous cores', i0, [np.repeat(G, 2, axis=2)[:, :, ::2] for G in Zc[:k]]),
                 ('tuple of cores', i0, tuple(Zc[:k]))]
        for lab, ii, cores in forms:
            try:
                out = np.asarray(tn.get(cores, ii, _to_item=False))
            except Exception as ex:  # noqa
                return dict(what=f'get(_to_item=False) raised for form "{lab}": {ex!r}'[:300], input=inp)
            # another memory layout may change the order of summation inside BLAS: rounding-level agreement there
            # (bit-for-bit agreement of the layouts is checked on dyadic cores below), bit-for-bit otherwise
            ok = np.allclose(out, ref, rtol=1e-12, atol=0) if 'cores' in lab and 'tuple' not in lab else np.array_equal(out, ref)
            if out.shape != ref.shape or not ok:
                return dict(what=f'get(_to_item=False): form "{lab}" changes the result', input=inp)
    Gi = [np.random.default_rng(cfg['seed'] + k).integers(-4, 5, size=G.shape) for k, G in enumerate(Zc)]
    ii = I[0]
    a = np.asarray(tn.get(Gi[:2], ii[:2], _to_item=False), dtype=float)
    b = np.asarray(tn.get([G.astype(float) / 4 for G in Gi[:2]], ii[:2], _to_item=False)) * 16
    if not np.array_equal(a, b):
        return dict(what='get(_to_item=False): integer-dtype cores give another result than the same dyadic float cores', input=inp)
    Gd = [G.astype(float) / 4 for G in Gi[:2]]
    for lab, cores in [('F-ordered', [np.asfortranarray(G) for G in Gd]),
                       ('non-contiguous', [np.repeat(G, 2, axis=2)[:, :, ::2] for G in Gd])]:
        if not np.array_equal(np.asarray(tn.get(cores, ii[:2], _to_item=False)) * 16, b):
            return dict(what=f'get(_to_item=False): {lab} dyadic cores give another result', input=inp)
    return None


def fam_history(tn, fseed):
    """(2) histories: the same argument objects reused across calls (read-only, so any write raises), interleaved with
    other routines; every call recovers the target, equals the first one bit for bit, arguments unchanged"""
    rng = C.Rng(fseed)
    cfg = small_cfg(rng)
    inp = dict(family='history', fseed=fseed, cfg=cfg)
    n, m, rho, cap = cfg['n'], cfg['m'], cfg['rho'], cfg['cap']
    Y = rand_tt(np.random.default_rng(cfg['seed']), n, rho, cfg['kind'])
    g = np.random.default_rng(cfg['seed'])
    first = None
    for rnd in range(2):          # the same Generator object is reused: a new, equally valid sample set every time
        I, idx, idm = tn.sample_tt(n, m, g)
        msg = check_layout(n, m, I, idx, idm)
        if msg:
            return dict(what=f'sample_tt (call {rnd} on the same Generator): {msg}', input=inp)
        I, idx, idm = np.array(I), np.array(idx), np.array(idm)
        y = values(Y, I)
        nl = list(n)
        before = snapshot(I, y, idx, idm)
        ro = rng.random() < 0.5
        for a in (I, y, idx, idm):
            a.flags.writeable = not ro
        Zs = []
        try:
            for k in range(3):
                Zs.append(tn.svd_incomplete(I, y, idx, idm, 1e-10, cap))
                if k == 0:
                    tn.get_many(Zs[0], I)
                    tn.get(Zs[0][:1], I[0, :1], _to_item=False)
                if k == 1:
                    tn.sample_tt(nl, m, 0)
                    tn.svd_incomplete(I, y * 2, idx, idm)       # another call with other values in between
        except Exception as ex:  # noqa
            return dict(what=f'repeated calls on the same{" read-only" if ro else ""} arguments raised: {ex!r}'[:300], input=inp)
        if snapshot(I, y, idx, idm) != before or nl != list(n):
            return dict(what='svd_incomplete / sample_tt modified an argument', input=inp)
        for k, Z in enumerate(Zs):
            if not same_cores(Z, Zs[0]):
                return dict(what=f'call {k} on the same arguments returns another result than call 0', input=inp)
            if cap >= rho and rel_err(Y, Z) > PROP_TOL:
                return dict(what=f'call {k} on the same arguments does not recover the target', input=inp, got=rel_err(Y, Z))
            if any(np.shares_memory(G, a) for G in Z for a in (I, y)):
                return dict(what='a returned core shares memory with an argument', input=inp)
        if any(np.shares_memory(a, b) for a in Zs[0] for b in Zs[1]):
            return dict(what='cores of two calls share memory', input=inp)
    I1 = tn.sample_tt(n, m, cfg['seed'])
    I2 = tn.sample_tt(n, m, cfg['seed'])
    if not all(np.array_equal(a, b) for a, b in zip(I1, I2)):
        return dict(what='sample_tt with the same integer seed is not reproducible', input=inp)
    return None


SCALE_EXPS = [-500, -300, -100, -40, 100, 300, 600, 1000]


def fam_scale(tn, fseed):
    """(3) scales and degenerate shapes: exact power-of-two rescalings of the whole target (e = 0 or rescaled with the
    target below 1, default above), thresholds hit exactly (cap = rho, cap = 1, m = rho, mode size = m, mode size 1, d = 2)"""
    rng = C.Rng(fseed)
    for t in range(10):
        kind = ['scale', 'scale', 'scale', 'exact_thresholds', 'cap1', 'all_one', 'mode1', 'd2_min', 'scale_one_core',
                'scale'][t]
        d = rng.randint(2, 4)
        rho = rng.randint(1, 3)
        m = rho + rng.randint(0, 1)
        n = [m + rng.randint(0, 1) for _ in range(d)]
        cap = rng.choice([rho, m, None])
        p = dict(seed=rng.randrange(2 ** 31), kind=rng.choice(['normal', 'uniform']))
        if kind in ('scale', 'scale_one_core'):
            ex = rng.choice(SCALE_EXPS)
            p['scale'] = 2.0 ** ex
            if ex < 0:
                p['e'] = rng.choice([0.0, 1e-10 * 2.0 ** ex])
            elif rng.random() < 0.5:
                p['e'] = rng.choice([0.0, 1e-10])
        if kind == 'exact_thresholds':
            m = rho
            n = [m] * d
            cap = rho
        if kind == 'cap1':
            rho, cap = 1, 1
            m = rng.randint(1, 2)
            n = [m + rng.randint(0, 1) for _ in range(d)]
        if kind == 'all_one':
            rho, m, cap, n = 1, 1, 1, [1] * d
        if kind == 'mode1':
            rho, m = 1, 1
            n = [rng.randint(1, 3) for _ in range(d)]
            n[rng.randrange(d)] = 1
            cap = rng.choice([1, None, 1e12])
        if kind == 'd2_min':
            d, m = 2, rho
            n = [rho, rho]
            cap = rho
        p.update(n=n, rho=rho, m=m, cap=cap, sseed=rng.choice([0, p['seed'], f'gen:{rng.randrange(2 ** 31)}']))
        f = _oracle(tn, p)
        if f:
            f['input'] = dict(family='scale', fseed=fseed, sub=kind, **f['input'])
            return f
    return None


def fam_magnitude(tn, fseed):
    """(4) magnitude with DEFAULT arguments: e omitted, r omitted or given; the target scaled (exact power of two) so that its
    smallest retained singular value is 45 .. 1e4 times the documented default accuracy 1e-10, or large (up to 1e100)"""
    rng = C.Rng(fseed)
    for t in range(8):
        d = rng.randint(2, 4)
        rho = rng.randint(1, 3)
        m = rho + rng.randint(0, 2)
        n = [m + rng.randint(0, 3) for _ in range(d)]
        cap = rng.choice([rho, m, None, None])
        p = dict(n=n, rho=rho, m=m, cap=cap, seed=rng.randrange(2 ** 31), kind=rng.choice(['normal', 'uniform']))
        p['sseed'] = p['seed']
        sig = [4.5e-9, 6e-9, 1e-8, 3e-8, 1e-7, 1e-5, 1e3, 1e100][t] if fseed % 2 else \
            rng.choice([4.5e-9, 6e-9, 1e-8, 3e-8, 1e-7, 1e-6, 1e-3, 1e9])
        Y = rand_tt(np.random.default_rng(p['seed']), n, rho, p['kind'])
        I, idx, idm = tn.sample_tt(n, m, seed=p['seed'])
        s0 = block_sigma_min(values(Y, np.asarray(I)), n, rho, np.asarray(idx), np.asarray(idm))
        if not (s0 > 1e-6):      # not a generic target (ill-conditioned sample blocks): outside the property
            continue
        p['scale'] = pow2_scale_for(s0, sig)
        p['sigma_min'] = s0 * p['scale']
        f = _oracle(tn, p)       # no 'e' key: the default accuracy is used; cap None: the default r as well
        if f:
            f['input'] = dict(family='magnitude', fseed=fseed, **f['input'])
            return f
    return None


FAMILIES = dict(forms=fam_forms, history=fam_history, scale=fam_scale, magnitude=fam_magnitude)


def search_cases(rng, deep):
    cases = []
    # degenerate families first
    for d in (2, 3, 4):
        for rho in (1, 2, 3):
            for extra_m in (0, 1):
                m = rho + extra_m
                for extra_n in (0, 1):
                    n = [m + extra_n] * d
                    for cap in (rho, m, None, 1e12):
                        cases.append(dict(n=n, rho=rho, m=m, cap=cap, seed=rng.randrange(2 ** 31)))
    for d in (2, 3, 4):   # cap below the rank: only shape, chain and rank bound are checked
        for rho in (2, 3):
            cases.append(dict(n=[rho + 1] * d, rho=rho, m=rho, cap=rho - 1, seed=rng.randrange(2 ** 31)))
            cases.append(dict(n=[rho + 2] * d, rho=rho, m=rho + 1, cap=1, seed=rng.randrange(2 ** 31)))
    for k in range(len(cases)):
        if k % 5 == 1:
            cases[k]['sseed'] = None
        if k % 5 == 2:
            cases[k]['sseed'] = f'gen:{rng.randrange(2 ** 31)}'
        if k % 7 == 3:
            cases[k]['kind'] = 'uniform'
    for _ in range(1500 if deep else 150):
        d = rng.randint(2, 5 if deep else 4)
        rho = rng.randint(1, 4)
        m = rho + rng.randint(0, 3)
        n = [m + rng.randint(0, 3) for _ in range(d)]
        cap = rng.choice([rho, rho + 1, m, m + 2, None, 1e12, float(rho), 10 ** 6])
        cases.append(dict(n=n, rho=rho, m=m, cap=cap, seed=rng.randrange(2 ** 31),
                          sseed=rng.choice([None, rng.randrange(2 ** 31), f'gen:{rng.randrange(2 ** 31)}'])))
    return cases


def search(R, ctx, deep, hints):
    tn = C.import_teneva()
    rng = ctx['rng']
    fails, n_eval = [], 0
    cand = []
    for h in hints:
        inp = h.get('input', {})
        if isinstance(inp, dict) and 'rho' in inp and 'n' in inp and 'malformed' not in inp and \
                not str(inp.get('fam', '')).startswith(('noisy', 'cap_lt', 'n_lt', 'scaled_tiny', 'int')):
            c = dict(n=inp['n'], rho=inp['rho'], m=inp['m'], cap=inp['cap'], seed=inp['seed'],
                     kind=inp.get('kind', 'normal'), e=inp.get('e', 1e-10))
            if inp.get('ex'):
                c['scale'] = 2.0 ** inp['ex']
            if inp.get('fam') == 'default_magnitude':
                c['scale'] = inp.get('scale')
                del c['e']
                if c['cap'] == 1e12:
                    c['cap'] = None
            cand.append(c)
    cand += search_cases(rng, deep)
    for p in cand:
        n_eval += 1
        f = _oracle(tn, p)
        if f:
            fails.append(f)
            if len(fails) >= 5:
                break
    R.search.append(dict(name='recovery oracle: dense export of svd_incomplete(sample_tt samples of a rank-rho tensor) '
                              'versus the tensor; shape, chain of ranks, cap',
                         evaluations=n_eval, failures=len(fails), deep=deep))
    for fam, fn in FAMILIES.items():
        cnt, ff = 0, 0
        for _ in range({'forms': 25, 'history': 25, 'scale': 30, 'magnitude': 30}[fam] * (5 if deep else 1)):
            if len(fails) >= 5:
                break
            fseed = rng.randrange(2 ** 31)
            cnt += 1
            try:
                f = fn(tn, fseed)
            except Exception as ex:  # noqa
                f = dict(what=f'{fam} family raised: {ex!r}'[:300], input=dict(family=fam, fseed=fseed))
            if f:
                ff += 1
                fails.append(f)
        R.search.append(dict(name=f'family: {fn.__doc__.strip().splitlines()[0]}', evaluations=cnt, failures=ff, deep=deep))
    return fails


def replay(data):
    tn = C.import_teneva()
    p = data['payload']
    print(data['what'])
    inp = p.get('input') if isinstance(p, dict) else None
    if isinstance(inp, dict) and inp.get('family') in FAMILIES and 'rho' not in inp:
        try:
            f = FAMILIES[inp['family']](tn, inp['fseed'])
        except Exception as ex:  # noqa
            f = dict(what=repr(ex))
        print('replayed:', f)
        return 1 if f else 0
    if isinstance(inp, dict) and 'rho' in inp:
        f = _oracle(tn, inp)
        print('replayed:', f)
        return 1 if f else 0
    print('no failing input recorded (broken proof or correspondence):', p.get('broken') if isinstance(p, dict) else p)
    return 1
