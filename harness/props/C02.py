"""C02 — truncate keeps the error within e*||Y|| and never exceeds rank caps (truncate, matrix_svd, matrix_skeleton,
add_many).  Model: coq/Model/Svd.v, Model/Transformation.v, Model/ActMany.v; theorems: coq/Properties/C02.v."""
import math
import sys

import numpy as np

from harness import common as C

THEOREMS = 'Properties/C02.v'
KNOWN_EIGH = 'C02/eigh-mode-sqrt-eps-floor'
KNOWN_PLAIN = 'C02/plain-mode-sqrt-range'
CLAIM = dict(
    text='Coq theorems (Properties/C02.v), at the reals, for every d, mode sizes and rank profile. '
         '(1) Rank rule q = max(1, min(int r, len - dlen)) of matrix_svd / matrix_skeleton (C02_rank_select_bounds, _tail, '
         '_minimal, _monotone): 1 <= q <= max(1, r), q <= len; the discarded energy is <= e^2 when q < r; every smaller rank '
         'misses the budget; monotone in e and r. '
         '(2) matrix_skeleton(give_to=l) for every svd routine meeting the thin-SVD contract (C02_matrix_skeleton_contract, '
         '_residual): U V = A V^T V, V V^T = I, |A - U V|_F^2 = sum of the discarded s^2 (<= e^2 when the cap does not bind), '
         'rank bounds. '
         '(3) The right-to-left sweep with the factorisation abstracted by that contract (C02_sweep_error, '
         'C02_trunc_sweep_is_gsweep): same shape, chain ranks, every new rank between 1 and the old one and <= max(1, r), and '
         '|Zs - W|_F^2 <= (d-1) delta^2 when no returned rank reaches the cap - the full Pythagoras argument (successive '
         'differences are orthogonal), not the triangle inequality. '
         '(2b) matrix_svd (eigen-decomposition mode) meets the same contract (C02_matrix_svd_contract) for every eigh routine '
         'returning an orthogonal eigen-decomposition of symmetric matrices and every argsort returning a permutation: both '
         'branches (m <= n and m > n), clipping, sqrt, guarded reciprocal (a retained zero weight gives a zero row of V). '
         '(4) truncate(orth=True, use_stab=False), BOTH modes, only the QR / RQ / SVD / eigh / argsort contracts assumed '
         '(C02_truncate_error; C02_truncate_error_svd is the SVD-mode instance, C02_truncate_error_cond the generic form over '
         'any factorisation meeting the contract): the call succeeds on every valid tensor with d >= 2, same shape, every rank '
         '<= max(1, int r) and <= the input rank, and |Y - W|_F^2 <= e^2 |Y|_F^2 when no returned rank reaches the cap. '
         '(5) add_many (C02_add_many_step, _final, _loop_step): every rounding step of add_many is such a truncate call and '
         'obeys the same bound; the result is the final rounding step applied to the running sum, which the loop changes only '
         'by add and by rounding steps. '
         '(6) use_stab=True (C02_truncate_error_stab): same conclusions, both modes, exact arithmetic, under the root law '
         '(2**(p/d))^d = 2^p for the final per-core factor (satisfiable: C02_root_law_ex). '
         '(7) Rank clause "no returned rank exceeds the smallest rank meeting the budget" - PARTIAL: matrix level in SVD mode '
         '(C02_skeleton_rank_minimal: every smaller rank discards more than e^2 of the squared singular values of that '
         'matrix) and the first truncated bond k = d-1 of truncate in SVD mode (C02_first_bond_rank_partial with budget '
         'e^2 |Y|^2/(d-1); C02_first_bond_svd: those singular values are singular values of the (d-1)-unfolding of the tensor, '
         'X = (P U) diag(s) Vt with P U orthonormal). Missing for that clause: the other bonds (interlacing), the '
         'eigen-decomposition mode at tensor level, and Eckart-Young (tail of the sorted singular values = best error). '
         'NOT proved in Coq, checked numerically by search() on every run: the clause "error <= root-sum-square of the best '
         'unfolding errors at the returned ranks" and the rank clause beyond (7). "The cap does not bind" is formalised as '
         '"every returned rank < int(r)". The theorems are about exact real arithmetic: in binary64 the eigen-decomposition '
         'mode loses singular values below about sqrt(eps)*|unfolding| (known finding C02/eigh-mode-sqrt-eps-floor, reported on '
         'every run by a fixed regression input; search() uses the same tight floor 1e-12*|Y| in both modes and tags only '
         'eigh-mode excesses <= 1e-6*|Y| on inputs where the SVD mode meets the bound).',
    note='Model tied to /repo on every run: float instance with replayed LAPACK calls (ranks exact, dense tensor 1e-9) for '
         'matrix_svd, matrix_skeleton (l, r, m, rel), truncate (all four flag combinations, orth on/off) and add_many; '
         'exact rank-rule stream (Z instance vs the implementation on integer diagonal matrices incl. exact ties); threshold '
         'stream (e 1e-9 above / below every rank change); contracts of every recorded qr / eigh / svd / argsort call validated. '
         'Theorems are about exact real arithmetic; IEEE rounding is not modelled.'
         ' Cross-cutting families (search, and correspondence where the model can express them): argument forms (e and r as '
         'Python / NumPy scalars and 0-d arrays, r float / int / fractional, flags as 1/0/np.bool_, keywords and omitted '
         'defaults, cores F-ordered / non-contiguous / int64 / int32 / float32, tensors as tuple) must give the answer of '
         'the canonical call (forms outside the docstrings may raise, never differ); call histories (same objects rounded '
         '2-5 times interleaved with orthogonalize / add / add_many: bit-identical results, arguments bit-identical '
         'afterwards); exact power-of-two rescalings of one core or of the whole tensor (same ranks, rescaled result, '
         'bound) up to 2^+-1000 with use_stab=True and 2^+-450 without; e = 0 exactly; thresholds hit exactly / 2^-40 '
         'above / below at tensor level (d = 2, integer spectrum, all quantities exact). Known finding C02/plain-mode-sqrt-range: with use_stab=False '
         'the squares the code forms (norm of the last core, Gram matrix, s**2) leave the double range for |log2 scale| beyond '
         '~500 although input and result are representable (the property text says any scale); four fixed regression inputs '
         '(2x2, k = -600 / +520, both modes) report it on every run, and search() tags a plain-mode scale failure with that key '
         'only when log2|Y| >= 510 or <= -457 and truncate(use_stab=True) meets the bound on the same input; every other '
         'scale failure is a violation. Subnormal inputs are not covered (reduced input precision).',
    technique='Coq proof (Pythagoras over the sweep by induction on the chain length; Frobenius algebra over any commutative '
              'ring; rank rule by list induction) + float model/implementation correspondence with replayed oracles + dense '
              'SVD reference search')
TRUSTED = [
    'Coq 8.16.1 kernel; vm_compute + PrimFloat primitives only for case evaluation (never under a theorem)',
    'Reals axioms of the standard library (theorems are stated at R)',
    'hand-written model Model/Svd.v (rank_select, matrix_svd, matrix_skeleton, trunc_sweep, truncate), '
    'Model/Transformation.v (orthogonalize, core_stab), Model/ActMany.v (add_many), tied to /repo by the float '
    'correspondence with replayed LAPACK calls (ranks exact, dense tensor 1e-9) and the exact rank-rule stream',
    'oracle contracts (hypotheses of the theorems): reduced QR (A = QR, QtQ = I), symmetric eigh (C U = U diag(w), UtU = UUt = I), '
    'thin SVD (A = U diag(s) Vt, orthonormal factors, s >= 0 sorted), argsort (a permutation sorting w); validated on '
    'every recorded call of the real routine',
    'IEEE rounding is not modelled: theorems are about exact real arithmetic',
]
TIME_LIMIT = {'quick': 1500, 'thorough': 5400}

HEADER = r'''
From Coq Require Import List ZArith Floats Bool.
From TV Require Import Num.Ops Num.InstF Lin.Tab Lin.Mat TT.Chain Model.ActOne Model.Transformation Model.Svd Model.ActMany.
Import ListNotations.
Definition rty := (Z * list Z * list (Z * Z))%type.
Definition zn (n : nat) : Z := Z.of_nat n.
Definition dmat : mat float := mk_mat 0 0 [].
Definition flatM (A : mat float) : list (Z * Z) := map F_show (concat (md A)).
Definition showM (p : mat float * mat float) : rty :=
  (0%Z, [zn (mr (fst p)); zn (mc (fst p)); zn (mr (snd p)); zn (mc (snd p))], flatM (fst p) ++ flatM (snd p)).
Definition showY (Y : list (core float)) : rty :=
  (0%Z, concat (map (fun G => [zn (cr1 G); zn (cn G); zn (cr2 G)]) Y),
   map F_show (concat (map (fun G => concat (concat (dat G))) Y))).
Definition showT (r : result (list (core float))) : rty :=
  match r with Ok Y => showY Y | Err e => (err_code e, [], []) end.
Definition showQ (q : nat) : rty := (0%Z, [zn q], []).
Definition oM (l : list (mat float * mat float)) (k : nat) (_ : mat float) := nth k l (dmat, dmat).
Definition oS (l : list (mat float * list float * mat float)) (k : nat) (_ : mat float) := nth k l (dmat, [], dmat).
Definition oE (l : list (list float * mat float)) (k : nat) (_ : mat float) := nth k l ([], dmat).
Definition oA (l : list (list nat)) (k : nat) (_ : list float) := nth k l [].
Definition oL (l : list Z) (k : nat) (_ : float) := nth k l 0%Z.
Definition oP (v : float) (_ : Z) (_ : nat) := v.
Definition oM2 (l : list (list (mat float * mat float))) (c k : nat) (_ : mat float) := nth k (nth c l []) (dmat, dmat).
Definition oS2 (c k : nat) (_ : mat float) : mat float * list float * mat float := (dmat, [], dmat).
Definition oE2 (l : list (list (list float * mat float))) (c k : nat) (_ : mat float) := nth k (nth c l []) ([], dmat).
Definition oA2 (l : list (list (list nat))) (c k : nat) (_ : list float) := nth k (nth c l []) [].
Definition oL2 (c k : nat) (_ : float) := 0%Z.
'''


# ----------------------------------------------------------------------------------------------------
# literals
# ----------------------------------------------------------------------------------------------------

def _fmat(A):
    A = np.asarray(A, float)
    m, n = A.shape
    return f'(mk_mat {m} {n} {C.nested(A.tolist(), C.flit)}%float)'


def _fvec(v):
    return f'{C.nested(np.asarray(v, float).tolist(), C.flit)}%float'


def _fcore(G):
    G = np.asarray(G, float)
    r1, n, r2 = G.shape
    return f'(mk_core {r1} {n} {r2} {C.nested(G.tolist(), C.flit)}%float)'


def _ftt(Y):
    return '[' + '; '.join(_fcore(G) for G in Y) + ']'


def _fe(e):
    return f'({C.flit(e)})%float'


def _natl(I):
    return '[' + '; '.join(str(int(i)) for i in I) + ']%nat'


def _b(x):
    return 'true' if x else 'false'


def _keyed(d, entries, dummy):
    """list literal indexed by key 0..d-1 from a dict key -> literal"""
    return '[' + '; '.join(entries.get(k, dummy) for k in range(d)) + ']'


DM = '(dmat, dmat)'
DS = '(dmat, [], dmat)'
DE = '([], dmat)'


# ----------------------------------------------------------------------------------------------------
# implementation side: recording the LAPACK calls (module attributes, restored afterwards)
# ----------------------------------------------------------------------------------------------------

class Rec:
    """Wraps np.linalg.qr / eigh / svd, np.argsort, teneva.core_stab, teneva.matrix_svd, teneva.matrix_skeleton and
    teneva.truncate for the duration of one implementation call; one record per truncate call."""

    def __init__(self, tn):
        self.tn = tn
        self.calls = []       # one dict per truncate call
        self.cur = None
        self.loose = dict(qr=[], eigh=[], svd=[], argsort=[], stab=[], steps=[])   # calls outside truncate

    def _tgt(self):
        return self.cur if self.cur is not None else self.loose

    def __enter__(self):
        tn = self.tn
        self.o = dict(qr=np.linalg.qr, eigh=np.linalg.eigh, svd=np.linalg.svd, argsort=np.argsort,
                      stab=tn.core_stab, msvd=tn.matrix_svd, mskel=tn.matrix_skeleton, trunc=tn.truncate)
        o = self.o

        def qr(A, *a, **k):
            out = o['qr'](A, *a, **k)
            self._tgt()['qr'].append((np.array(A, float), np.array(out[0], float), np.array(out[1], float)))
            return out

        def eigh(A, *a, **k):
            out = o['eigh'](A, *a, **k)
            self._tgt()['eigh'].append((np.array(A, float), np.array(out[0], float), np.array(out[1], float)))
            return out

        def svd(A, *a, **k):
            out = o['svd'](A, *a, **k)
            self._tgt()['svd'].append((np.array(A, float), np.array(out[0], float), np.array(out[1], float),
                                       np.array(out[2], float)))
            return out

        def argsort(w, *a, **k):
            out = o['argsort'](w, *a, **k)
            if isinstance(w, np.ndarray) and w.ndim == 1 and not a and not k:
                self._tgt()['argsort'].append((np.array(w, float), [int(x) for x in out]))
            return out

        def stab(G, p0=0, thr=0.):
            out = o['stab'](G, p0, thr)
            self._tgt()['stab'].append(int(out[1]) - int(p0))
            return out

        def msvd(A, e=1.E-10, r=1.E+12):
            self._tgt()['steps'].append(('eigh', float(e), r, np.array(A, float)))
            return o['msvd'](A, e, r)

        def mskel(A, e=1.E-10, r=1.E+12, *a, **k):
            self._tgt()['steps'].append(('svd', float(e), r, np.array(A, float)))
            return o['mskel'](A, e, r, *a, **k)

        def trunc(Y, e=1.E-10, r=1.E+12, orth=True, use_stab=False, is_eigh=True):
            return self.truncate(Y, e, r, orth, use_stab, is_eigh)

        np.linalg.qr, np.linalg.eigh, np.linalg.svd, np.argsort = qr, eigh, svd, argsort
        tn.core_stab, tn.matrix_svd, tn.matrix_skeleton, tn.truncate = stab, msvd, mskel, trunc
        return self

    def __exit__(self, *a):
        o, tn = self.o, self.tn
        np.linalg.qr, np.linalg.eigh, np.linalg.svd, np.argsort = o['qr'], o['eigh'], o['svd'], o['argsort']
        tn.core_stab, tn.matrix_svd, tn.matrix_skeleton, tn.truncate = o['stab'], o['msvd'], o['mskel'], o['trunc']

    def truncate(self, Y, e=1.E-10, r=1.E+12, orth=True, use_stab=False, is_eigh=True):
        rec = dict(qr=[], eigh=[], svd=[], argsort=[], stab=[], steps=[], d=len(Y),
                   Y=[np.array(G, float) for G in Y], e=float(e), r=r, orth=orth, use_stab=use_stab, is_eigh=is_eigh)
        prev, self.cur = self.cur, rec
        try:
            out = self.o['trunc'](Y, e, r, orth, use_stab, is_eigh)
            rec['out'] = [np.array(G, float) for G in out]
            rec['err'] = 0
        except Exception as ex:  # noqa
            rec['out'], rec['err'] = None, C.errclass(ex)
            self.calls.append(rec)
            self.cur = prev
            raise
        self.calls.append(rec)
        self.cur = prev
        return out


def _validate(rec):
    """contracts of the recorded LAPACK calls; returns a list of messages"""
    bad = []
    tol = 1e-11
    for A, Q, Rm in rec['qr']:
        s = max(1.0, np.abs(A).max(initial=0.0))
        kk = min(A.shape)
        if Q.shape != (A.shape[0], kk) or Rm.shape != (kk, A.shape[1]):
            bad.append('qr shapes')
            continue
        if not np.all(np.isfinite(Q)) or np.abs(A - Q @ Rm).max(initial=0.0) > tol * s or \
                np.abs(Q.T @ Q - np.eye(kk)).max(initial=0.0) > tol:
            bad.append('qr contract')
    for Cm, w, U in rec['eigh']:
        s = max(1e-300, np.abs(Cm).max(initial=0.0))
        if np.abs(Cm @ U - U * w).max(initial=0.0) > tol * s * len(w) or \
                np.abs(U.T @ U - np.eye(len(w))).max(initial=0.0) > tol:
            bad.append('eigh contract')
    for A, U, s_, V in rec['svd']:
        s = max(1e-300, np.abs(A).max(initial=0.0))
        kk = min(A.shape)
        if np.abs(A - (U * s_) @ V).max(initial=0.0) > tol * s * kk or \
                np.abs(U.T @ U - np.eye(kk)).max(initial=0.0) > tol or \
                np.abs(V @ V.T - np.eye(kk)).max(initial=0.0) > tol or \
                np.any(s_ < 0) or np.any(np.diff(s_) > 0):
            bad.append('svd contract')
    for w, idx in rec['argsort']:
        if sorted(idx) != list(range(len(w))) or np.any(np.diff(w[idx]) < 0):
            bad.append('argsort contract')
    return bad


def _margin_ok(rec, rel=1e-6):
    """every rank decision of the recorded call is a relative `rel` (on e) away from its threshold"""
    for (mode, e, r, A) in rec['steps']:
        if not np.isfinite(e):
            return False
    eig = list(rec['eigh'])
    svs = list(rec['svd'])
    for (mode, e, r, A) in rec['steps']:
        if mode == 'eigh':
            Cm, w, U = eig.pop(0)
            x = np.sort(np.where(w < 0, 0., w))[::-1]       # squared weights, descending
        else:
            A_, U, s_, V = svs.pop(0)
            x = s_ ** 2
        cs = np.cumsum(x[::-1])
        e2 = e * e
        near = (np.abs(cs - e2) <= 4 * rel * max(e2, 1e-300)) & ~((cs == 0) & (e2 == 0))
        if np.any(near):          # an exact 0 <= 0 (zero tensor) is the same decision on both sides
            return False
    return True


def _oracle_terms(rec):
    """Gallina terms of the seven oracle slots of Model.Svd.truncate for one recorded truncate call"""
    d = rec['d']
    qr = {i: f'({_fmat(Q)}, {_fmat(Rm)})' for i, (A, Q, Rm) in enumerate(rec['qr'])}
    ks = list(range(d - 1, 0, -1))
    eg = {k: f'({_fvec(w)}, {_fmat(U)})' for k, (Cm, w, U) in zip(ks, rec['eigh'])}
    sv = {k: f'({_fmat(U)}, {_fvec(s_)}, {_fmat(V)})' for k, (A, U, s_, V) in zip(ks, rec['svd'])}
    ag = {k: _natl(idx) for k, (w, idx) in zip(ks, rec['argsort'])}
    lg = {i + 1: C.zlit(p) for i, p in enumerate(rec['stab'])}
    return dict(qr=_keyed(d, qr, DM), eigh=_keyed(d, eg, DE), svd=_keyed(d, sv, DS), argsort=_keyed(d, ag, '[]'),
                ilog2='[' + '; '.join(lg.get(k, '0') for k in range(d)) + ']%Z')


def _pow2frac(rec):
    """2**(p/d) as the code computes it, p = the accumulated exponent of the recorded core_stab calls"""
    p = sum(rec['stab'])
    return 2 ** (p / rec['d'])


def _trunc_term(rec):
    o = _oracle_terms(rec)
    rcap = int(rec['r'])
    return (f'showT (truncate OF (oS {o["svd"]}) (oE {o["eigh"]}) (oA {o["argsort"]}) (oM {o["qr"]}) (oM []) '
            f'(oL {o["ilog2"]}) (oP {_fe(_pow2frac(rec))}) {_ftt(rec["Y"])} {_fe(rec["e"])} ({rcap})%Z '
            f'{_b(rec["orth"])} {_b(rec["use_stab"])} {_b(rec["is_eigh"])})')


# ----------------------------------------------------------------------------------------------------
# generators
# ----------------------------------------------------------------------------------------------------

def _full(Y):
    Z = np.array(Y[0], float)[0]            # (n0, r1)
    for G in Y[1:]:
        Z = np.tensordot(Z, np.asarray(G, float), axes=([-1], [0]))
    return Z[..., 0]


def _fnorm(T):
    """Frobenius norm that does not overflow / underflow for entries near 2^+-1000"""
    T = np.asarray(T, float)
    m = float(np.abs(T).max(initial=0.0))
    if m == 0 or not np.isfinite(m):
        return m
    ex = math.frexp(m)[1]
    return math.ldexp(float(np.linalg.norm(np.ldexp(T, -ex))), ex)


def _pow2_scaled(Y, k, where):
    """exact power-of-two rescaling: where = core number, or 'all' (the exponent is spread over the cores)"""
    Ys = [np.array(G, float) for G in Y]
    d = len(Ys)
    if where == 'all':
        ks = [k // d] * d
        ks[0] += k - sum(ks)
    else:
        ks = [0] * d
        ks[int(where)] = k
    return [np.ldexp(G, kk) for G, kk in zip(Ys, ks)]


def _full_shift(Y, k):
    """full(Y) * 2^-k computed without leaving the representable range (k spread over the cores)"""
    return _full(_pow2_scaled(Y, -k, 'all'))


def _ranks(Y):
    return [int(G.shape[0]) for G in Y] + [int(Y[-1].shape[2])]


def _shape(Y):
    return [int(G.shape[1]) for G in Y]


def _rand_tt(rng, nprng, d=None, nmax=4, rmax=4, family=None):
    """structured random TT-tensor; returns (Y, family)"""
    fams = ['generic', 'generic', 'generic', 'decay', 'decay', 'overranked', 'deficient', 'rank1', 'n1', 'zero',
            'cluster', 'big', 'small', 'int']
    family = family or rng.choice(fams)
    d = d or rng.randint(2, 5)
    n = [rng.randint(1 if family == 'n1' else 2, nmax) for _ in range(d)]
    if family == 'n1':
        n[rng.randrange(d)] = 1
    r = [1] + [rng.randint(1, rmax) for _ in range(d - 1)] + [1]
    if family == 'rank1':
        r = [1] * (d + 1)
    if family == 'overranked':
        k = rng.randint(1, d - 1)
        r[k] = rng.randint(rmax, rmax + 3)
    if family == 'int':
        Y = [nprng.integers(-3, 4, size=(r[k], n[k], r[k + 1])).astype(float) for k in range(d)]
    else:
        Y = [nprng.normal(size=(r[k], n[k], r[k + 1])) for k in range(d)]
    if family == 'zero':
        Y[rng.randrange(d)][:] = 0.
    if family in ('decay', 'cluster'):
        # give the bonds a decaying / clustered weight profile so that truncation really cuts something
        for k in range(1, d):
            if family == 'decay':
                w = 10.0 ** (-nprng.uniform(0, 3.5, size=r[k]).cumsum())
            else:
                w = np.where(nprng.random(r[k]) < 0.5, 1.0, 1e-3)
            Y[k] = Y[k] * w[:, None, None]
    if family == 'deficient':
        k = rng.randint(1, d - 1)
        if r[k] >= 2:
            Y[k][-1] = Y[k][0] * 2.0            # two equal rows of the bond: rank-deficient
    if family == 'big':
        Y[rng.randrange(d)] *= 1e6
    if family == 'small':
        Y[rng.randrange(d)] *= 1e-6
    return Y, family


def _pick_e(rng):
    return 10.0 ** (-rng.uniform(0.3, 12)) if rng.random() < 0.35 else 10.0 ** (-rng.uniform(0.3, 4))


def _pick_r(rng, Y):
    rm = max(_ranks(Y))
    return rng.choice([1.E+12, 1.E+12, 1, 2, 3, rm, rm + 1, max(1, rm - 1), 2.7])


def _parse_model_tt(v):
    code, dims, fl = v
    if code != 0:
        return code, None
    vals = [C.float_of_show(p) for p in fl]
    Y, pos = [], 0
    for k in range(0, len(dims), 3):
        r1, n, r2 = dims[k:k + 3]
        Y.append(np.array(vals[pos:pos + r1 * n * r2], float).reshape(r1, n, r2))
        pos += r1 * n * r2
    return 0, Y


def _jtt(Y):
    return [[list(G.shape), [float(x).hex() for x in np.asarray(G, float).ravel()]] for G in Y]


def _unjtt(J):
    return [np.array([float.fromhex(x) for x in fl], float).reshape(sh) for sh, fl in J]


def _float_stream(R, name, items, dist, chunk=30, tol=1e-9):
    """items: dict(coq, impl_code, impl (list of cores or pair of matrices), scale, input); model compared by shape exactly
    and entrywise on `dense(impl)` to tol*scale"""
    vals = C.run_cases(f'C02_{name}', HEADER, [it['coq'] for it in items], chunk=chunk)
    bad = []
    for it, v in zip(items, vals):
        R.add_distinct((name, it['input']))
        msg = it['compare'](v)
        if msg:
            bad.append(dict(stream=name, input=it['input'], why=msg))
    R.corr.append(dict(name=name, cases=len(items), mismatches=len(bad),
                       comparison=f'ranks / shapes exact, values to {tol} * scale (float instance, replayed LAPACK calls)',
                       distribution=dist, first_mismatches=bad[:3]))
    if items:
        R.samples.append(dict(stream=name, input=items[0]['input']))
    return bad


def _cmp_tt(rec_out, err, scale, dense=True, tol=1e-9):
    def compare(v):
        code, Ym = _parse_model_tt(v)
        if code != err:
            return f'error code model {code} impl {err}'
        if err:
            return None
        rm, ri = [list(G.shape) for G in Ym], [list(G.shape) for G in rec_out]
        if rm != ri:
            return f'core shapes model {rm} impl {ri}'
        A, B = _full(Ym), _full(rec_out)
        if not np.all(np.isfinite(B)):
            return None if np.array_equal(np.isfinite(A), np.isfinite(B)) else 'finiteness differs'
        dlt = np.abs(A - B).max(initial=0.0)
        if not dlt <= tol * max(scale, 1e-300):
            return f'dense tensors differ by {dlt:.3e} (scale {scale:.3e})'
        return None
    return compare


def _cmp_mats(U, V, scale, tol=1e-9):
    def compare(v):
        code, dims, fl = v
        if code != 0:
            return f'model error {code}'
        if dims != [U.shape[0], U.shape[1], V.shape[0], V.shape[1]]:
            return f'shapes model {dims} impl {[U.shape, V.shape]}'
        vals = np.array([C.float_of_show(p) for p in fl], float)
        Um = vals[:U.size].reshape(U.shape)
        Vm = vals[U.size:].reshape(V.shape)
        dlt = np.abs(Um @ Vm - U @ V).max(initial=0.0)
        if not dlt <= tol * max(scale, 1e-300):
            return f'U V differs by {dlt:.3e} (scale {scale:.3e})'
        return None
    return compare


# ----------------------------------------------------------------------------------------------------
# correspondence
# ----------------------------------------------------------------------------------------------------

def _rank_rule_py(x, e2, r):
    x = np.asarray(x)
    where = np.where(np.cumsum(x[::-1]) <= e2)[0]
    dlen = 0 if len(where) == 0 else int(1 + where[-1])
    return max(1, min(int(r), len(x) - dlen))


def _corr_rank_exact(R, ctx, tn):
    """rank rule at the Z instance against the implementation called on diagonal integer matrices (LAPACK is exact there)"""
    rng = ctx['rng']
    N = 1500 if ctx['thorough'] else 260
    items = []
    dist = dict(via_matrix_svd=0, via_matrix_skeleton=0, ties=0, cap_binds=0, skipped_inexact=0)
    while len(items) < N:
        L = rng.randint(1, 6)
        s = sorted([rng.randint(0, 6) for _ in range(L)], reverse=True)
        if rng.random() < 0.7:
            s = sorted(set(s), reverse=True)           # distinct: LAPACK keeps the order
            L = len(s)
        x = [v * v for v in s]
        tails = [sum(x[j:]) for j in range(L + 1)]
        kind = rng.random()
        if kind < 0.6:      # exact tie / one above / one below a tail sum
            t = rng.choice(tails)
            sq = [q for q in range(0, 14) if q * q in (t, t + 1, t - 1)]
            e = float(rng.choice(sq)) if sq and rng.random() < 0.8 else rng.randint(0, 8) + rng.choice([0, 0.5])
        else:
            e = rng.randint(0, 9) + rng.choice([0, 0.5])
        e2 = e * e                                          # exactly representable
        r = rng.choice([0, 1, 2, L - 1, L, L + 1, 1.E+12, 1.5, 2.9])
        rcap = int(r)
        m, n = L + rng.randint(0, 2), L + rng.randint(0, 2)
        A = np.zeros((m, n))
        for j, v in enumerate(s):
            A[j, j] = v
        via = rng.choice(['svd', 'skel'])
        try:
            if via == 'svd':
                # matrix_svd sees the spectrum of A A^T or A^T A: min(m, n) weights incl. padded zeros
                with Rec(tn) as rec:
                    U, V = tn.matrix_svd(A, e, r)
                w = np.sort(np.sqrt(np.where(rec.loose['eigh'][0][1] < 0, 0, rec.loose['eigh'][0][1])))[::-1]
                spec = [float(t_) for t_ in w]
            else:
                with Rec(tn) as rec:
                    U, V = tn.matrix_skeleton(A, e, r, rel=False, give_to=rng.choice(['l', 'r', 'm']))
                spec = [float(t_) for t_ in rec.loose['svd'][0][2]]
        except Exception as ex:  # noqa
            items.append(dict(coq='(-1)%Z', impl=repr(ex), input=[s, e, r, via]))
            continue
        want = s + [0] * (min(m, n) - L) if via == 'svd' else s + [0] * (min(m, n) - L)
        if spec != [float(v) for v in want]:
            dist['skipped_inexact'] += 1
            continue
        xs = [int(v) * int(v) for v in want]
        # 4 * e2 is an integer; scale the weights by 4 so the comparison stays inside Z
        items.append(dict(coq=f'Z.of_nat (rank_select OZ {C.zlist([4 * v for v in xs])} {C.zlit(int(round(4 * e2)))} ({rcap})%Z)',
                          impl=int(U.shape[1]), input=dict(s=want, e=e, r=r, via=via, m=m, n=n)))
        dist['via_matrix_svd' if via == 'svd' else 'via_matrix_skeleton'] += 1
        dist['ties'] += int(e2 in [sum(xs[j:]) for j in range(len(xs) + 1)])
        dist['cap_binds'] += int(rcap < _rank_rule_py(xs, e2, 1e12))
        if int(V.shape[0]) != int(U.shape[1]):
            items[-1]['impl'] = ('shape', U.shape, V.shape)
    hdr = 'From Coq Require Import List ZArith.\nFrom TV Require Import Num.Ops Model.Svd.\nImport ListNotations.\nOpen Scope Z_scope.\n'
    return C.exact_corr(R, 'rank rule exact (Z instance vs matrix_svd / matrix_skeleton on integer diagonal matrices)',
                        hdr, items, chunk=200, distribution=dist)


def _gen_matrix(rng, nprng):
    m, n = rng.randint(1, 6), rng.randint(1, 6)
    fam = rng.choice(['generic', 'generic', 'decay', 'decay', 'deficient', 'zero', 'big', 'small', 'cluster'])
    kk = min(m, n)
    if fam in ('decay', 'cluster', 'deficient'):
        U, _ = np.linalg.qr(nprng.normal(size=(m, kk)))
        V, _ = np.linalg.qr(nprng.normal(size=(n, kk)))
        if fam == 'decay':
            s = 10.0 ** (-nprng.uniform(0, 2.5, size=kk).cumsum())
        elif fam == 'cluster':
            s = np.sort(np.where(nprng.random(kk) < 0.5, 1.0, 1e-2) * (1 + 1e-3 * nprng.random(kk)))[::-1]
        else:
            s = np.sort(nprng.random(kk))[::-1]
            s[rng.randrange(kk):] = 0.
        A = (U * s) @ V.T
    elif fam == 'zero':
        A = np.zeros((m, n))
    else:
        A = nprng.normal(size=(m, n))
        if fam == 'big':
            A *= 1e6
        if fam == 'small':
            A *= 1e-6
    return A, fam


def _corr_matrix(R, ctx, tn):
    rng = ctx['rng']
    nprng = np.random.default_rng(rng.randrange(2 ** 32))
    N = 900 if ctx['thorough'] else 120
    items, contract_bad, ncontract = [], [], 0
    dist = dict(matrix_svd=0, matrix_skeleton_l=0, matrix_skeleton_r=0, matrix_skeleton_m=0, rel=0, family={},
                wide=0, tall=0, truncated=0, cap_binds=0, resampled_margin=0)
    tries = 0
    while len(items) < N and tries < 20 * N:
        tries += 1
        A, fam = _gen_matrix(rng, nprng)
        m, n = A.shape
        nrm = np.linalg.norm(A)
        e = (nrm if nrm > 0 else 1.0) * 10.0 ** (-rng.uniform(0.2, 12 if rng.random() < 0.3 else 3))
        r = rng.choice([1.E+12, 1.E+12, 1, 2, min(m, n), min(m, n) + 1, 2.5])
        which = rng.choice(['svd', 'svd', 'l', 'r', 'm'])
        rel = which != 'svd' and rng.random() < 0.25 and nrm > 0
        if rel:
            e = 10.0 ** (-rng.uniform(0.2, 3))
        with Rec(tn) as rec:
            if which == 'svd':
                U, V = tn.matrix_svd(A, e, r)
            else:
                U, V = tn.matrix_skeleton(A, e, r, rel=rel, give_to=which)
        lo = rec.loose
        if which != 'svd':
            lo['steps'] = [('svd', e * (lo['svd'][0][2][0] if rel else 1.0), r, A)]
        if not _margin_ok(lo):
            dist['resampled_margin'] += 1
            continue
        ncontract += 1
        contract_bad += [dict(input=[_jm(A), which], why=w_) for w_ in _validate(lo)]
        if which == 'svd':
            Cm, w, Ue = lo['eigh'][0]
            term = (f'showM (matrix_svd OF (oE [({_fvec(w)}, {_fmat(Ue)})]) (oA [{_natl(lo["argsort"][0][1])}]) 0 '
                    f'{_fmat(A)} {_fe(e)} ({int(r)})%Z)')
            dist['matrix_svd'] += 1
        else:
            A_, Us, s_, Vs = lo['svd'][0]
            g = dict(l='GiveL', r='GiveR', m='GiveM')[which]
            term = (f'showM (matrix_skeleton OF (oS [({_fmat(Us)}, {_fvec(s_)}, {_fmat(Vs)})]) 0 '
                    f'{_fmat(A)} {_fe(e)} ({int(r)})%Z {_b(rel)} {g})')
            dist['matrix_skeleton_' + which] += 1
            dist['rel'] += int(rel)
        dist['family'][fam] = dist['family'].get(fam, 0) + 1
        dist['wide' if m <= n else 'tall'] += 1
        dist['truncated'] += int(U.shape[1] < min(m, n))
        dist['cap_binds'] += int(U.shape[1] == int(r))
        items.append(dict(coq=term, compare=_cmp_mats(np.array(U, float), np.array(V, float), max(nrm, 1e-300)),
                          input=dict(A=_jm(A), e=float(e).hex(), r=r, which=which, rel=rel, family=fam)))
    bad = _float_stream(R, 'matrix_svd / matrix_skeleton float', items, dist, chunk=40)
    return bad, contract_bad, ncontract


def _jm(A):
    return [list(A.shape), [float(x).hex() for x in np.asarray(A, float).ravel()]]


def _corr_threshold(R, ctx, tn):
    """e a relative 1e-9 above / below every threshold of the rank rule: only the decision is compared"""
    rng = ctx['rng']
    nprng = np.random.default_rng(rng.randrange(2 ** 32))
    N = 1200 if ctx['thorough'] else 160
    items = []
    dist = dict(above=0, below=0, matrix_svd=0, matrix_skeleton=0, truncate_step=0)
    while len(items) < N:
        A, fam = _gen_matrix(rng, nprng)
        if fam == 'zero' or min(A.shape) < 2:
            continue
        which = rng.choice(['svd', 'l'])
        with Rec(tn) as rec:
            if which == 'svd':
                tn.matrix_svd(A, 1e-3, 1e12)
                w = rec.loose['eigh'][0][1]
                x = np.sort(np.where(w < 0, 0., w))[::-1]
            else:
                tn.matrix_skeleton(A, 1e-3, 1e12, give_to='l')
                x = rec.loose['svd'][0][2] ** 2
        cs = np.cumsum(x[::-1])
        j = rng.randrange(len(cs))
        if not cs[j] > 0:
            continue
        side = rng.choice([1, -1])
        e = math.sqrt(cs[j]) * (1 + side * 1e-9)
        r = rng.choice([1.E+12, 1.E+12, len(cs) - j - 1, len(cs) - j])
        with Rec(tn) as rec:
            if which == 'svd':
                U, V = tn.matrix_svd(A, e, r)
            else:
                U, V = tn.matrix_skeleton(A, e, r, give_to='l')
        lo = rec.loose
        if which == 'svd':
            Cm, w, Ue = lo['eigh'][0]
            term = (f'showQ (mc (fst (matrix_svd OF (oE [({_fvec(w)}, {_fmat(Ue)})]) (oA [{_natl(lo["argsort"][0][1])}]) 0 '
                    f'{_fmat(A)} {_fe(e)} ({int(r)})%Z)))')
            dist['matrix_svd'] += 1
        else:
            A_, Us, s_, Vs = lo['svd'][0]
            term = (f'showQ (mc (fst (matrix_skeleton OF (oS [({_fmat(Us)}, {_fvec(s_)}, {_fmat(Vs)})]) 0 '
                    f'{_fmat(A)} {_fe(e)} ({int(r)})%Z false GiveL)))')
            dist['matrix_skeleton'] += 1
        dist['above' if side > 0 else 'below'] += 1
        q = int(U.shape[1])
        items.append(dict(coq=term, impl=(0, [q], []),
                          input=dict(A=_jm(A), e=float(e).hex(), r=r, which=which, side=side, j=j)))
    return C.exact_corr(R, 'threshold (e 1e-9 above / below each rank change, decision only)', HEADER, items,
                        chunk=60, norm=lambda v: (v[0], list(v[1]), list(v[2])), distribution=dist)


def _corr_truncate(R, ctx, tn):
    rng = ctx['rng']
    nprng = np.random.default_rng(rng.randrange(2 ** 32))
    N = 1500 if ctx['thorough'] else 170
    items, contract_bad, ncontract = [], [], 0
    dist = dict(d={}, family={}, flags={}, orth_false=0, cap_binds=0, really_truncated=0, resampled_margin=0, errors=0)
    tries = 0
    while len(items) < N and tries < 20 * N:
        tries += 1
        Y, fam = _rand_tt(rng, nprng)
        d = len(Y)
        e, r = _pick_e(rng), _pick_r(rng, Y)
        is_eigh, use_stab = rng.random() < 0.5, rng.random() < 0.5
        orth = rng.random() < 0.85
        if rng.random() < 0.18 and fam not in ('big', 'small'):
            # exact power-of-two rescaling of one core / of the whole tensor; without stabilisation only where the
            # squares the code forms stay representable, with stabilisation up to 2^+-1000
            kk = rng.choice([600, 1000, -600, -1000, 300, -300] if (use_stab and orth) else [200, 450, -200, -450])
            where = rng.choice(['all'] + list(range(d)))
            Y = _pow2_scaled(Y, kk, where)
            fam = fam + '*2^%d' % kk
            dist['pow2_scaled'] = dist.get('pow2_scaled', 0) + 1
        if rng.random() < 0.06:
            e = 0.0
            dist['e_zero'] = dist.get('e_zero', 0) + 1
        nrm = _fnorm(_full(Y))
        mrel = 1e-6
        if rng.random() < 0.14:
            # massive cancellation: Y = A - B, B = A + 2^-k D; the tensor is 2^-k of the size of its cores.  Model and
            # implementation round the last core differently at the level eps * (component scale), so thresholds are kept
            # away by that relative amount and values are compared at that level
            A_, D_, k_ = _gen_cancel(rng, nprng)
            A_, B_, T_, S_ = _cancel_parts(A_, D_, k_)
            if _fnorm(T_) == 0:
                continue
            Y = [np.array(G, float) for G in tn.sub(A_, B_)]
            d = len(Y)
            fam, orth, r = 'cancel 2^-%d' % k_, True, 1.E+12
            e = rng.choice([0.3, 0.1, 1e-2])
            nrm = max(_fnorm(T_), 1e-5 * S_)
            mrel = max(1e-6, 64 * 2.0 ** -53 * S_ / _fnorm(T_))
            dist['cancellation'] = dist.get('cancellation', 0) + 1
        if not orth:
            e = e * (nrm if nrm > 0 else 1.0)
        err = 0
        with Rec(tn) as rec:
            try:
                with np.errstate(all='ignore'):
                    out = rec.truncate(Y, e, r, orth, use_stab, is_eigh)
            except Exception as ex:  # noqa
                err = C.errclass(ex)
        c = rec.calls[-1]
        if err:
            dist['errors'] += 1
            continue        # property inputs are valid tensors: an exception here is reported by search()
        if not _margin_ok(c, mrel):
            dist['resampled_margin'] += 1
            continue
        ncontract += 1
        contract_bad += [dict(input=dict(Y=_jtt(Y), e=e, r=r), why=w_) for w_ in _validate(c)]
        key = f'eigh={int(is_eigh)} stab={int(use_stab)}'
        dist['flags'][key] = dist['flags'].get(key, 0) + 1
        dist['d'][d] = dist['d'].get(d, 0) + 1
        dist['family'][fam] = dist['family'].get(fam, 0) + 1
        dist['orth_false'] += int(not orth)
        dist['cap_binds'] += int(max(_ranks(out)) == int(r))
        dist['really_truncated'] += int(_ranks(out) != _ranks(Y))
        items.append(dict(coq=_trunc_term(c), compare=_cmp_tt(c['out'], 0, max(nrm, 1e-300)),
                          input=dict(Y=_jtt(Y), e=float(e).hex(), r=r, orth=orth, use_stab=use_stab, is_eigh=is_eigh,
                                     family=fam)))
    bad = _float_stream(R, 'truncate float', items, dist, chunk=25)
    return bad, contract_bad, ncontract


def _corr_add_many(R, ctx, tn):
    rng = ctx['rng']
    nprng = np.random.default_rng(rng.randrange(2 ** 32))
    N = 300 if ctx['thorough'] else 40
    items, contract_bad, ncontract = [], [], 0
    dist = dict(terms={}, freq={}, truncate_calls={}, resampled_margin=0)
    tries = 0
    while len(items) < N and tries < 20 * N:
        tries += 1
        d = rng.randint(2, 4)
        n = [rng.randint(1, 3) for _ in range(d)]
        m = rng.randint(1, 6)
        Ys = []
        for _ in range(m):
            r = [1] + [rng.randint(1, 2) for _ in range(d - 1)] + [1]
            sc = 10.0 ** (-rng.uniform(0, 3))
            Ys.append([nprng.normal(size=(r[k], n[k], r[k + 1])) * (sc if k == 0 else 1.0) for k in range(d)])
        e = 10.0 ** (-rng.uniform(0.3, 4))
        r = rng.choice([1.E+12, 1.E+12, 1, 2, 3, 5])
        freq = rng.choice([1, 1, 2, 3, 15])
        with Rec(tn) as rec:
            with np.errstate(all='ignore'):
                out = tn.add_many(Ys, e, r, freq)
        if not all(_margin_ok(c) for c in rec.calls):
            dist['resampled_margin'] += 1
            continue
        ncontract += len(rec.calls)
        for c in rec.calls:
            contract_bad += [dict(input='add_many', why=w_) for w_ in _validate(c)]
        os_ = [_oracle_terms(c) for c in rec.calls]
        term = ('showT (add_many OF oS2 (oE2 [' + '; '.join(o['eigh'] for o in os_) + ']) (oA2 [' +
                '; '.join(o['argsort'] for o in os_) + ']) (oM2 [' + '; '.join(o['qr'] for o in os_) +
                f']) (fun _ => oM []) oL2 (oP 1%float) [' + '; '.join(_ftt(Y) for Y in Ys) +
                f'] {_fe(e)} ({int(r)})%Z {freq})')
        S = sum(_full(Y) for Y in Ys)
        dist['terms'][m] = dist['terms'].get(m, 0) + 1
        dist['freq'][freq] = dist['freq'].get(freq, 0) + 1
        dist['truncate_calls'][len(rec.calls)] = dist['truncate_calls'].get(len(rec.calls), 0) + 1
        items.append(dict(coq=term, compare=_cmp_tt([np.array(G, float) for G in out], 0,
                                                    max(np.linalg.norm(S), max(np.linalg.norm(_full(Y)) for Y in Ys))),
                          input=dict(Ys=[_jtt(Y) for Y in Ys], e=float(e).hex(), r=r, freq=freq)))
    bad = _float_stream(R, 'add_many float', items, dist, chunk=10)
    return bad, contract_bad, ncontract


def correspondence(R, ctx):
    tn = C.import_teneva()
    bad = []
    bad += _corr_rank_exact(R, ctx, tn)
    b1, c1, n1 = _corr_matrix(R, ctx, tn)
    bad += _corr_threshold(R, ctx, tn)
    b2, c2, n2 = _corr_truncate(R, ctx, tn)
    b3, c3, n3 = _corr_add_many(R, ctx, tn)
    bad += b1 + b2 + b3
    cb = c1 + c2 + c3
    R.corr.append(dict(name='oracle contracts on every recorded qr / eigh / svd / argsort call', cases=n1 + n2 + n3,
                       mismatches=len(cb), comparison='residuals below 1e-11 * scale', distribution={},
                       first_mismatches=cb[:3]))
    return bad


# ----------------------------------------------------------------------------------------------------
# search: the property on the implementation, dense reference, independent of the model
# ----------------------------------------------------------------------------------------------------

def _unfold_svals(T, k):
    """singular values of the k-th unfolding (first k modes as rows)"""
    sh = T.shape
    M = T.reshape(int(np.prod(sh[:k])), -1)
    return np.linalg.svd(M, compute_uv=False)


def _check_truncate(tn, Y, e, r, use_stab, is_eigh, opt=True):
    """all clauses of the property for one call; returns a list of (clause, got, expected)"""
    fails = []
    d = len(Y)
    T = _full(Y)
    nrm = float(np.linalg.norm(T))
    try:
        with np.errstate(all='ignore'):
            Z = tn.truncate([G.copy() for G in Y], e, r, True, use_stab, is_eigh)
            Z0 = Z if r >= 1e11 else tn.truncate([G.copy() for G in Y], e, 1.E+12, True, use_stab, is_eigh)
    except Exception as ex:  # noqa
        return [('raises', repr(ex)[:200], 'a tensor')]
    # (a) shape, chain, finiteness
    shp_ok = len(Z) == d and all(G.ndim == 3 for G in Z) and _shape(Z) == _shape(Y) and \
        all(Z[k].shape[2] == Z[k + 1].shape[0] for k in range(d - 1)) and Z[0].shape[0] == 1 and Z[-1].shape[2] == 1
    if not shp_ok:
        return [('shape', [list(G.shape) for G in Z], _shape(Y))]
    if not all(np.all(np.isfinite(G)) for G in Z):
        return [('finite', 'non-finite core', 'finite')]
    rk, rk0, rin = _ranks(Z), _ranks(Z0), _ranks(Y)
    cap = max(1, int(r))
    # (c) rank caps
    if any(q > cap for q in rk):
        fails.append(('rank <= max(1, r)', rk, cap))
    if any(q > qi for q, qi in zip(rk, rin)):
        fails.append(('rank <= input rank', rk, rin))
    Tz = _full(Z)
    err = float(np.linalg.norm(T - Tz))
    # the same tight floor (rounding of the dense reference itself) in both modes
    floor2 = 1e-24 * nrm * nrm
    # floor of the rank clause (d2) only: the property text restricts it to e above the rounding floor
    floor2_rank = (1e-13 if is_eigh else 1e-24) * nrm * nrm

    def tag(excess):
        """the known sqrt(eps) loss of the eigen-decomposition mode: small excess, eigh mode only, SVD mode meets the bound"""
        if not (is_eigh and excess <= 1e-6 * nrm):
            return None
        try:
            with np.errstate(all='ignore'):
                Zs_ = tn.truncate([G.copy() for G in Y], e, r, True, use_stab, False)
            es = float(np.linalg.norm(T - _full(Zs_)))
        except Exception:  # noqa
            return None
        if _ranks(Zs_) == _ranks(tn.truncate([G.copy() for G in Y], e, 1.E+12, True, use_stab, False)) and \
                not es <= math.sqrt((e * nrm) ** 2 * (1 + 1e-6) + floor2):
            return None
        return KNOWN_EIGH
    # (b) error bound when the cap does not bind
    if rk == rk0:
        bound = math.sqrt((e * nrm) ** 2 * (1 + 1e-6) + floor2)
        if not err <= bound:
            fails.append(('error <= e*norm', err, bound, tag(err - e * nrm)))
    if opt and T.size <= 4096 and nrm > 0:
        sv = [None] + [_unfold_svals(T, k) for k in range(1, d)]
        # (d1) error <= root-sum-square of the best errors of the unfoldings at the returned ranks
        best2 = sum(float(np.sum(sv[k][rk[k]:] ** 2)) for k in range(1, d))
        b = math.sqrt(best2 * (1 + 1e-6) + floor2 * d)
        if not err <= b:
            fails.append(('error <= rss of best unfolding errors', err, b, tag(err - math.sqrt(best2))))
        # (d2) no rank above the smallest one meeting the per-unfolding budget (e above the rounding floor)
        if e >= (1e-5 if is_eigh else 1e-10) and rk == rk0:
            bud2 = (e * nrm) ** 2 / (d - 1) * (1 - 1e-6) - floor2_rank
            for k in range(1, d):
                tails = np.concatenate([np.cumsum((sv[k] ** 2)[::-1])[::-1], [0.0]])
                rho = max(1, int(np.argmax(tails <= bud2))) if np.any(tails <= bud2) else len(sv[k])
                if rk[k] > rho:
                    fails.append((f'rank {k} <= smallest rank meeting the budget', rk[k], rho))
    return fails


def _check_add_many(tn, Ys, e, r, freq):
    fails = []
    calls = []
    o_tr = tn.truncate

    def tr(Y, e_=1.E-10, r_=1.E+12, *a, **k):
        out = o_tr(Y, e_, r_, *a, **k)
        calls.append(([np.array(G, float) for G in Y], float(e_), r_, a, k, [np.array(G, float) for G in out]))
        return out
    tn.truncate = tr
    try:
        with np.errstate(all='ignore'):
            out = tn.add_many([[G.copy() for G in Y] for Y in Ys], e, r, freq)
    except Exception as ex:  # noqa
        return [('raises', repr(ex)[:200], 'a tensor')]
    finally:
        tn.truncate = o_tr
    m = len(Ys)
    want_calls = (m - 1) // freq + 1
    if len(calls) != want_calls:
        fails.append(('number of rounding steps', len(calls), want_calls))
    budget = 0.0
    for j, (Yin, e_, r_, a, k, Yout) in enumerate(calls):
        last = j == len(calls) - 1
        if e_ != e or a or k or (last and r_ != r) or (not last and r_ < 1e11):
            fails.append(('arguments of rounding step', [j, e_, r_], [e, r if last else 1e12]))
        nin = float(np.linalg.norm(_full(Yin)))
        err = float(np.linalg.norm(_full(Yin) - _full(Yout)))
        cap_free = (not last) or r >= 1e11 or max(_ranks(Yout)) < max(1, int(r))
        if cap_free:
            bound = math.sqrt((e * nin) ** 2 * (1 + 1e-6) + 1e-24 * nin * nin)
            if not err <= bound:
                # add_many always rounds in the eigen-decomposition mode: same known sqrt(eps) loss, same conditions
                tg = None
                if err - e * nin <= 1e-6 * nin:
                    Zs_ = o_tr([G.copy() for G in Yin], e, r_, True, False, False)
                    if float(np.linalg.norm(_full(Yin) - _full(Zs_))) <= bound:
                        tg = KNOWN_EIGH
                fails.append(('error of rounding step <= e*norm', [j, err], bound, tg))
            budget += max(bound, err if err - e * nin <= 1e-6 * nin else bound)
        else:
            budget = float('inf')
        if any(q > max(1, int(r_)) for q in _ranks(Yout)):
            fails.append(('rank cap of rounding step', _ranks(Yout), r_))
    S = sum(_full(Y) for Y in Ys)
    if _shape(out) != _shape(Ys[0]):
        fails.append(('shape', _shape(out), _shape(Ys[0])))
    else:
        err = float(np.linalg.norm(S - _full(out)))
        if not err <= budget * (1 + 1e-9) + 1e-12 * float(np.linalg.norm(S)):
            fails.append(('sum error <= sum of step budgets', err, budget))
    if any(q > max(1, int(r)) for q in _ranks(out)):
        fails.append(('rank <= max(1, r)', _ranks(out), r))
    return fails


def _check_matrix(tn, A, e, r, which):
    """rank rule and factor contract of matrix_svd / matrix_skeleton against a dense SVD (margin kept by the caller)"""
    fails = []
    with np.errstate(all='ignore'):
        U, V = tn.matrix_svd(A, e, r) if which == 'svd' else tn.matrix_skeleton(A, e, r, give_to=which)
    s = np.linalg.svd(A, compute_uv=False)
    tails = np.concatenate([np.cumsum((s ** 2)[::-1])[::-1], [0.0]])
    q0 = len(s) - (int(np.sum(np.cumsum((s ** 2)[::-1]) <= e * e)))
    q = max(1, min(int(r), q0))
    if U.shape != (A.shape[0], q) or V.shape != (q, A.shape[1]):
        fails.append(('matrix rank', [list(U.shape), list(V.shape)], q))
        return fails
    nrm = float(np.linalg.norm(A))
    res = float(np.linalg.norm(A - U @ V))
    floor2 = (1e-13 if which == 'svd' else 1e-24) * nrm * nrm
    if not abs(res * res - tails[q]) <= 1e-6 * max(tails[q], 0) + floor2 + 1e-300:
        fails.append(('matrix residual = tail', res, math.sqrt(tails[q])))
    if which in ('svd', 'l') and s[q - 1] > 1e-6 * max(s[0], 1e-300):
        g = np.abs(V @ V.T - np.eye(q)).max()
        if not g <= 1e-6:
            fails.append(('right factor orthonormal', float(g), 0))
    return fails



# ----------------------------------------------------------------------------------------------------
# cross-cutting families: argument forms, call histories, power-of-two scales, exact thresholds
# ----------------------------------------------------------------------------------------------------

def _same_tt(Za, Zb, tol=1e-10):
    """same ranks and the same dense tensor (relative tol on the norm); None if equal, else a message"""
    try:
        if len(Za) != len(Zb) or [tuple(G.shape) for G in Za] != [tuple(G.shape) for G in Zb]:
            return 'shapes %s vs %s' % ([tuple(G.shape) for G in Za], [tuple(G.shape) for G in Zb])
        A, B = _full([np.asarray(G, float) for G in Za]), _full([np.asarray(G, float) for G in Zb])
    except Exception as ex:  # noqa
        return 'malformed result: ' + repr(ex)[:100]
    n = _fnorm(A)
    dlt = _fnorm(A - B)
    if not dlt <= tol * max(n, 1e-300):
        return 'dense results differ by %.3e (norm %.3e)' % (dlt, n)
    return None


def _noncontig(G):
    r1, n, r2 = G.shape
    big = np.zeros((r1, 2 * n, r2), dtype=G.dtype)
    big[:, ::2, :] = G
    v = big[:, ::2, :]
    assert not v.flags['C_CONTIGUOUS'] or n == 1
    return v


def _check_forms(tn, inp):
    """every form of every argument gives the answer of the canonical call (forms outside the docstring may raise)"""
    fails = []
    e = float.fromhex(inp['e'])
    r = inp['r']
    us, ie = inp['use_stab'], inp['is_eigh']
    what = inp['routine']

    def cmp_(name, f, ref, must, same=_same_tt):
        try:
            with np.errstate(all='ignore'):
                out = f()
        except Exception as ex:  # noqa
            if must:
                fails.append((f'form {name}: raises', repr(ex)[:150], 'the answer of the canonical form'))
            return
        msg = same(ref, out)
        if msg:
            fails.append((f'form {name}: different answer', msg, 'the answer of the canonical form'))
    r_int = float(r) == int(r)
    rforms = [('r float', float(r), True), ('r np.float64', np.float64(r), True)]
    if r_int:
        rforms += [('r int', int(r), True), ('r np.int64', np.int64(int(r)), True), ('r 0-d array', np.array(int(r)), False)]
        if int(r) < 2 ** 31:
            rforms += [('r np.int32', np.int32(int(r)), False)]
    else:
        rforms += [('r int(r)', int(r), True)]
    eforms = [('e np.float64', np.float64(e), True), ('e 0-d array', np.array(e), False)]
    if float(np.float32(e)) == e:
        eforms += [('e np.float32', np.float32(e), False)]
    if what == 'truncate':
        Y = _unjtt(inp['Y'])
        cp = lambda: [G.copy() for G in Y]  # noqa
        with np.errstate(all='ignore'):
            ref = tn.truncate(cp(), e, r, True, us, ie)
        for nm, rv, must in rforms:
            cmp_(nm, lambda rv=rv: tn.truncate(cp(), e, rv, True, us, ie), ref, must)
        for nm, ev, must in eforms:
            cmp_(nm, lambda ev=ev: tn.truncate(cp(), ev, r, True, us, ie), ref, must)
        cmp_('flags 1/0', lambda: tn.truncate(cp(), e, r, 1, int(us), int(ie)), ref, True)
        cmp_('flags np.bool_', lambda: tn.truncate(cp(), e, r, np.bool_(True), np.bool_(us), np.bool_(ie)), ref, True)
        cmp_('keywords', lambda: tn.truncate(Y=cp(), e=e, r=r, orth=True, use_stab=us, is_eigh=ie), ref, True)
        if r >= 1e12 and not us and ie:
            cmp_('defaults omitted', lambda: tn.truncate(cp(), e), ref, True)
        cmp_('Y tuple', lambda: tn.truncate(tuple(cp()), e, r, True, us, ie), ref, False)
        cmp_('cores F-ordered', lambda: tn.truncate([np.asfortranarray(G) for G in Y], e, r, True, us, ie), ref, True)
        cmp_('cores non-contiguous', lambda: tn.truncate([_noncontig(G) for G in Y], e, r, True, us, ie), ref, True)
        if all(np.all(G == np.round(G)) and np.abs(G).max(initial=0) < 2 ** 20 for G in Y):
            cmp_('cores int64', lambda: tn.truncate([G.astype(np.int64) for G in Y], e, r, True, us, ie), ref, True)
            cmp_('cores int32 / float mixed',
                 lambda: tn.truncate([G.astype(np.int32) if k % 2 else G.copy() for k, G in enumerate(Y)], e, r, True, us, ie),
                 ref, True)
        if all(np.all(G.astype(np.float32).astype(float) == G) for G in Y) and e >= 1e-2:
            # float32 cores: the computation runs in single precision; same ranks are not required, the bound is
            def f32():
                Z = tn.truncate([G.astype(np.float32) for G in Y], e, 1.E+12, True, us, ie)
                T = _full(Y)
                err, nrm = _fnorm(T - _full([np.asarray(G, float) for G in Z])), _fnorm(T)
                if not err <= e * nrm * (1 + 1e-3) + 1e-5 * nrm:
                    raise AssertionError('float32 cores: error %.3e > e*norm %.3e' % (err, e * nrm))
                return ref
            try:
                f32()
            except AssertionError as ex:
                fails.append(('form cores float32: bound', str(ex), 'error <= e*norm'))
            except Exception:  # noqa
                pass
    elif what == 'matrix':
        sh, fl = inp['A']
        A = np.array([float.fromhex(x) for x in fl], float).reshape(sh)
        for fn, call in (('matrix_svd', lambda A_, e_, r_: tn.matrix_svd(A_, e_, r_)),
                         ('matrix_skeleton', lambda A_, e_, r_: tn.matrix_skeleton(A_, e_, r_, give_to='l'))):
            with np.errstate(all='ignore'):
                U, V = call(A.copy(), e, r)
            ref = [np.asarray(U @ V)[None, :, :].reshape(1, A.shape[0], A.shape[1]), np.zeros((A.shape[1], 1, 1))]
            ref[1][0, 0, 0] = U.shape[1]        # carries the rank through _same_tt
            def pack(UV, A=A):
                U_, V_ = UV
                o = [np.asarray(U_ @ V_, float).reshape(1, A.shape[0], A.shape[1]), np.zeros((A.shape[1], 1, 1))]
                o[1][0, 0, 0] = U_.shape[1]
                return o
            same = lambda a, b: (None if (np.array_equal(a[1], b[1]) and  # noqa
                                          _fnorm(a[0] - b[0]) <= 1e-10 * max(_fnorm(A), 1e-300)) else
                                 'rank %d vs %d or U V differs' % (a[1][0, 0, 0], b[1][0, 0, 0]))
            for nm, rv, must in rforms:
                cmp_(f'{fn} {nm}', lambda rv=rv: pack(call(A.copy(), e, rv)), ref, must, same)
            for nm, ev, must in eforms:
                cmp_(f'{fn} {nm}', lambda ev=ev: pack(call(A.copy(), ev, r)), ref, must, same)
            cmp_(f'{fn} A F-ordered', lambda: pack(call(np.asfortranarray(A), e, r)), ref, True, same)
            cmp_(f'{fn} A transposed view', lambda: pack(call(A.T.copy().T, e, r)), ref, True, same)
            if np.all(A == np.round(A)):
                cmp_(f'{fn} A int64', lambda: pack(call(A.astype(np.int64), e, r)), ref, True, same)
            if r >= 1e12:
                cmp_(f'{fn} r omitted', lambda: pack(tn.matrix_svd(A.copy(), e) if fn == 'matrix_svd'
                                                     else tn.matrix_skeleton(A.copy(), e, give_to='l')), ref, True, same)
    elif what == 'add_many':
        Ys = [_unjtt(Y) for Y in inp['Ys']]
        freq = inp['freq']
        cp = lambda: [[G.copy() for G in Y] for Y in Ys]  # noqa
        with np.errstate(all='ignore'):
            ref = tn.add_many(cp(), e, r, freq)
        for nm, rv, must in rforms:
            cmp_(f'add_many {nm}', lambda rv=rv: tn.add_many(cp(), e, rv, freq), ref, must)
        for nm, ev, must in eforms:
            cmp_(f'add_many {nm}', lambda ev=ev: tn.add_many(cp(), ev, r, freq), ref, must)
        cmp_('add_many trunc_freq np.int64', lambda: tn.add_many(cp(), e, r, np.int64(freq)), ref, True)
        cmp_('add_many tuple of tensors', lambda: tn.add_many(tuple(cp()), e, r, freq), ref, False)
        cmp_('add_many keywords', lambda: tn.add_many(Y_many=cp(), e=e, r=r, trunc_freq=freq), ref, True)
        if freq == 15:
            cmp_('add_many trunc_freq omitted', lambda: tn.add_many(cp(), e, r), ref, True)
        cmp_('add_many F-ordered cores', lambda: tn.add_many([[np.asfortranarray(G) for G in Y] for Y in Ys], e, r, freq), ref, True)
    return fails


def _bytes(Y):
    return [(G.dtype.str, G.shape, G.tobytes()) for G in Y]


def _check_history(tn, inp):
    """the same argument objects used 2-3 times, interleaved with other routines: identical results, arguments untouched"""
    fails = []
    e = float.fromhex(inp['e'])
    r, us, ie = inp['r'], inp['use_stab'], inp['is_eigh']
    if inp['routine'] == 'truncate':
        Y = _unjtt(inp['Y'])
        saved = [G.copy() for G in Y]
        snap = _bytes(Y)
        with np.errstate(all='ignore'):
            ref = tn.truncate([G.copy() for G in saved], e, r, True, us, ie)
            Z1 = tn.truncate(Y, e, r, True, us, ie)
            Z2 = tn.truncate(Y, e, r, True, us, ie)
            tn.orthogonalize(Y, 0)
            tn.add(Y, Y)
            Z3 = tn.truncate(Y, e, r, True, us, ie)
            Z4 = tn.truncate(Z1, e, r, True, us, ie)      # rounding a rounded tensor again, then the original once more
            Z5 = tn.truncate(Y, e, r, True, us, ie)
        if _bytes(Y) != snap:
            fails.append(('history: argument modified', 'cores of Y changed', 'bit-identical arguments'))
        for nm, Z in (('first call', Z1), ('second call', Z2), ('after orthogonalize/add', Z3), ('after rounding the result', Z5)):
            if _bytes([np.asarray(G) for G in Z]) != _bytes([np.asarray(G) for G in ref]):
                fails.append((f'history: {nm} differs from the call on a fresh copy', _same_tt(ref, Z), 'bit-identical result'))
        if any(q > q1 for q, q1 in zip(_ranks(Z4), _ranks(Z1))):
            fails.append(('history: second rounding raises a rank', _ranks(Z4), _ranks(Z1)))
    elif inp['routine'] == 'add_many':
        Ys = [_unjtt(Y) for Y in inp['Ys']]
        freq = inp['freq']
        snap = [_bytes(Y) for Y in Ys]
        n0 = len(Ys)
        with np.errstate(all='ignore'):
            ref = tn.add_many([[G.copy() for G in Y] for Y in Ys], e, r, freq)
            Z1 = tn.add_many(Ys, e, r, freq)
            tn.truncate(Ys[0], e)
            Z2 = tn.add_many(Ys, e, r, freq)
        if [_bytes(Y) for Y in Ys] != snap or len(Ys) != n0:
            fails.append(('history: add_many modified its list', 'operands changed', 'bit-identical arguments'))
        for nm, Z in (('first call', Z1), ('second call', Z2)):
            if _bytes([np.asarray(G) for G in Z]) != _bytes([np.asarray(G) for G in ref]):
                fails.append((f'history: add_many {nm} differs', _same_tt(ref, Z), 'bit-identical result'))
    elif inp['routine'] == 'matrix':
        sh, fl = inp['A']
        A = np.array([float.fromhex(x) for x in fl], float).reshape(sh)
        snap = A.tobytes()
        with np.errstate(all='ignore'):
            outs = [tn.matrix_svd(A, e, r), tn.matrix_skeleton(A, e, r, give_to='l'), tn.matrix_svd(A, e, r),
                    tn.matrix_skeleton(A, e, r, give_to='l')]
        if A.tobytes() != snap:
            fails.append(('history: matrix argument modified', 'A changed', 'bit-identical argument'))
        for a, b in ((0, 2), (1, 3)):
            if not (np.array_equal(outs[a][0], outs[b][0]) and np.array_equal(outs[a][1], outs[b][1])):
                fails.append(('history: repeated matrix factorisation differs', 'U / V changed', 'bit-identical result'))
    return fails


def _check_scale(tn, inp):
    """exact power-of-two rescaling of one core / of the whole tensor: same ranks, result rescaled by the same factor,
    and the error bound relative to the (rescaled) norm.  Failures of the plain mode (use_stab=False) are tagged with the
    known finding C02/plain-mode-sqrt-range exactly when a square the code forms leaves the normal double range
    (log2 |Y| >= 510 or <= -457) while truncate(use_stab=True) on the same input meets the bound."""
    Y = _unjtt(inp['Y'])
    e = float.fromhex(inp['e'])
    r, us, ie, k, where = inp['r'], inp['use_stab'], inp['is_eigh'], inp['k'], inp['where']
    Ys = _pow2_scaled(Y, k, where)
    T = _full(Y)
    nrm = _fnorm(T)
    fails = []

    def tag():
        if us or nrm == 0:
            return None
        L = math.log2(nrm) + k
        if not (L >= 510 or L <= -457):
            return None
        try:
            with np.errstate(all='ignore'):
                Zt = tn.truncate([G.copy() for G in Ys], e, r, True, True, ie)
                Zt0 = tn.truncate([G.copy() for G in Ys], e, 1.E+12, True, True, ie)
            if not all(np.all(np.isfinite(G)) for G in Zt):
                return None
            es = _fnorm(T - _full_shift(Zt, k))
        except Exception:  # noqa
            return None
        if _ranks(Zt) == _ranks(Zt0) and not (es <= math.sqrt((e * nrm) ** 2 * (1 + 1e-6) + 1e-24 * nrm * nrm)
                                              or (ie and es - e * nrm <= 1e-6 * nrm)):
            return None
        return KNOWN_PLAIN
    with np.errstate(all='ignore'):
        Zb = tn.truncate([G.copy() for G in Y], e, r, True, us, ie)
    try:
        with np.errstate(all='ignore'):
            Zs = tn.truncate([G.copy() for G in Ys], e, r, True, us, ie)
    except Exception as ex:  # noqa
        return [('scale 2^%d: raises' % k, repr(ex)[:150], 'a tensor', tag())]
    if not all(np.all(np.isfinite(G)) for G in Zs):
        return [('scale 2^%d: non-finite core' % k, 'nan / inf', 'finite', tag())]
    if _ranks(Zs) != _ranks(Zb):
        fails.append(('scale 2^%d: ranks change' % k, _ranks(Zs), _ranks(Zb), tag()))
    Ts = _full_shift(Zs, k)
    err = _fnorm(T - Ts)
    if _ranks(Zs) == _ranks(Zb) and not _fnorm(_full(Zb) - Ts) <= 1e-9 * max(nrm, 1e-300):
        fails.append(('scale 2^%d: result is not the rescaled result' % k, _fnorm(_full(Zb) - Ts), 1e-9 * nrm, tag()))
    try:
        with np.errstate(all='ignore'):
            Z0 = Zs if r >= 1e11 else tn.truncate([G.copy() for G in Ys], e, 1.E+12, True, us, ie)
        cap_free = _ranks(Z0) == _ranks(Zs)
    except Exception:  # noqa
        cap_free = False
    if cap_free:
        bound = math.sqrt((e * nrm) ** 2 * (1 + 1e-6) + 1e-24 * nrm * nrm)
        if not err <= bound and not (ie and err - e * nrm <= 1e-6 * nrm):
            fails.append(('scale 2^%d: error <= e*norm' % k, err, bound, tag()))
    return fails


def _check_tie(tn, inp):
    """d = 2, first core the identity, second core diag(s) with integer s and sum s^2 a power of four: every quantity the
    code forms is exact, so the rank at e exactly on / just above / just below a threshold is known from integer arithmetic"""
    from fractions import Fraction as Fr
    fails = []
    s = [int(v) for v in inp['s']]
    e = float.fromhex(inp['e'])
    us, ie, r = inp['use_stab'], inp['is_eigh'], inp['r']
    n = len(s)
    Y = [np.eye(n).reshape(1, n, n), np.diag(np.array(s, float)).reshape(n, n, 1)]
    nrm2 = sum(v * v for v in s)
    nrm = math.isqrt(nrm2)
    assert nrm * nrm == nrm2
    e_eff = e * nrm                      # exact: nrm is a power of two
    xs = sorted((v * v for v in s), reverse=True)
    e2 = Fr(e_eff) ** 2
    dl = 0
    acc = 0
    for j, v in enumerate(reversed(xs)):
        acc += v
        if acc <= e2:
            dl = j + 1
    want = max(1, min(int(r), n - dl))
    try:
        with np.errstate(all='ignore'):
            Z = tn.truncate(Y, e, r, True, us, ie)
    except Exception as ex:  # noqa
        return [('exact threshold: raises', repr(ex)[:150], 'a tensor')]
    if _ranks(Z) != [1, want, 1]:
        fails.append(('exact threshold: rank', _ranks(Z), [1, want, 1]))
    else:
        err2 = float(np.sum((_full(Y) - _full(Z)) ** 2))
        if not abs(err2 - sum(xs[want:])) <= 1e-9 * nrm2:
            fails.append(('exact threshold: error^2 = discarded energy', err2, sum(xs[want:])))
    return fails


# fixed regression cases of the known finding C02/plain-mode-sqrt-range: d = 2, identity times [[1,2],[3,4]] * 2^k
_Y22 = [[[1, 2, 2], [float(x).hex() for x in (1, 0, 0, 1)]], [[2, 2, 1], [float(x).hex() for x in (1, 2, 3, 4)]]]
REGRESSION_PLAIN = [dict(kind='scale', Y=_Y22, e=float(1e-6).hex(), r=1.E+12, use_stab=False, is_eigh=ie_, k=k_, where=1)
                    for k_ in (-600, 520) for ie_ in (True, False)]


def _crosscut_inputs(rng, nprng, deep):
    """payloads of the four cross-cutting families"""
    out = []
    dy = [0.5, 0.25, 0.125, 0.0625, 2.0 ** -7, 2.0 ** -10]          # exactly representable in float32 as well
    reps = 10 if deep else 3
    for _ in range(reps):
        for fam in ('int', 'decay', 'generic'):
            Y, _f = _rand_tt(rng, nprng, d=rng.choice([2, 3, 4]), family=fam)
            us, ie = rng.random() < 0.5, rng.random() < 0.5
            r = rng.choice([1.E+12, 1.E+12, 2, 3, 2.7, max(_ranks(Y))])
            e = rng.choice(dy)
            base = dict(Y=_jtt(Y), e=float(e).hex(), r=r, use_stab=us, is_eigh=ie)
            out.append(dict(kind='forms', routine='truncate', **base))
            out.append(dict(kind='history', routine='truncate', **base))
        A = nprng.integers(-4, 5, size=(rng.randint(1, 5), rng.randint(1, 5))).astype(float)
        if rng.random() < 0.5:
            A = A * nprng.random(A.shape)
        mb = dict(A=_jm(A), e=float(rng.choice(dy) * max(_fnorm(A), 1.0)).hex(), r=rng.choice([1.E+12, 1, 2, 3]),
                  use_stab=False, is_eigh=True)
        out.append(dict(kind='forms', routine='matrix', **mb))
        out.append(dict(kind='history', routine='matrix', **mb))
        d = rng.randint(2, 3)
        n = [rng.randint(1, 3) for _ in range(d)]
        Ys = []
        for _j in range(rng.randint(1, 5)):
            r_ = [1] + [rng.randint(1, 2) for _ in range(d - 1)] + [1]
            Ys.append([nprng.normal(size=(r_[k], n[k], r_[k + 1])) for k in range(d)])
        ab = dict(Ys=[_jtt(Y) for Y in Ys], e=float(rng.choice(dy)).hex(), r=rng.choice([1.E+12, 2, 3]),
                  freq=rng.choice([1, 2, 15]), use_stab=False, is_eigh=True)
        out.append(dict(kind='forms', routine='add_many', **ab))
        out.append(dict(kind='history', routine='add_many', **ab))
    # scales: without stabilisation only where the squares the code forms stay representable (see CLAIM)
    for _ in range(24 if deep else 8):
        Y, _f = _rand_tt(rng, nprng, d=rng.choice([2, 3, 4]), family=rng.choice(['decay', 'generic', 'cluster', 'n1']))
        us = rng.random() < 0.6
        k = rng.choice([1000, -1000, 700, -700, 520, -600] if us else [450, -450, 300, -300, 100, -100, 600, -600, 1000, -1000])
        out.append(dict(kind='scale', Y=_jtt(Y), e=float(rng.choice([0.3, 0.05, 1e-2, 1e-3, 1e-5])).hex(),
                        r=rng.choice([1.E+12, 1.E+12, 2]), use_stab=us, is_eigh=rng.random() < 0.5, k=k,
                        where=rng.choice(['all', 0, len(Y) - 1, rng.randrange(len(Y))])))
    # thresholds hit exactly / one step above / below, at tensor level
    for s_, hits in (([1, 1, 1, 1], [1, 2, 3]), ([7, 3, 2, 1, 1], [1, 2, 6, 15]), ([2, 0], [0]), ([5, 5, 3, 2, 1], [1, 5, 14, 39]),
                     ([1, 1, 1, 1, 2, 2, 2], [1, 2, 3, 4])):
        nrm = math.isqrt(sum(v * v for v in s_))
        for t in hits:
            rt = math.isqrt(t)
            if rt * rt != t:
                continue
            for side in (0.0, 2.0 ** -40, -(2.0 ** -40)):
                e = (rt / nrm) * (1 + side)
                for us in (False, True):
                    for ie in (True, False):
                        out.append(dict(kind='tie', s=s_, e=float(e).hex(), r=rng.choice([1.E+12, 1.E+12, len(s_) - 1]),
                                        use_stab=us, is_eigh=ie))
    return out


# ----------------------------------------------------------------------------------------------------
# massive cancellation: Y = A - B with B = A + 2^-k D (integer cores A, D): cores of size O(1), tensor of size 2^-k,
# exact dense reference from integer arithmetic
# ----------------------------------------------------------------------------------------------------

def _cancel_parts(A, D, k):
    """(Y as teneva builds it, exact dense Y, component scale S)"""
    A = [np.array(G, float) for G in A]
    D = [np.array(G, float) for G in D]
    B = [a + np.ldexp(dd, -k) for a, dd in zip(A, D)]
    Ai = [np.array(np.ldexp(G, k).astype(np.int64).tolist(), dtype=object) for G in A]
    Bi = [a + np.array(Dg.astype(np.int64).tolist(), dtype=object) for a, Dg in zip(Ai, D)]

    def full(Yo):
        Z = Yo[0][0]
        for G in Yo[1:]:
            Z = np.tensordot(Z, G, axes=([-1], [0]))
        return Z[..., 0]
    F = full(Ai) - full(Bi)
    den = 2 ** (k * len(A))
    T = np.array([int(x) / den for x in F.ravel()], float).reshape(F.shape)
    S = _fnorm(_full(A)) + _fnorm(_full(B))
    return A, B, T, S


def _gen_cancel(rng, nprng):
    d = rng.randint(2, 4)
    n = [rng.randint(2, 4) for _ in range(d)]
    r = [1] + [rng.randint(1, 3) for _ in range(d - 1)] + [1]
    A = [nprng.integers(-3, 4, size=(r[j], n[j], r[j + 1])).astype(float) for j in range(d)]
    D = [nprng.integers(-3, 4, size=(r[j], n[j], r[j + 1])).astype(float) for j in range(d)]
    return A, D, rng.choice([20, 27, 33, 40])


def _check_cancel(tn, inp):
    """error <= e*|Y| against the EXACT |Y|, shape, and the minimal-rank clause, for Y = sub(A, B), B almost equal to A"""
    fails = []
    A = [np.array(fl, float).reshape(sh) for sh, fl in inp['A']]
    D = [np.array(fl, float).reshape(sh) for sh, fl in inp['D']]
    k, us, ie = inp['k'], inp['use_stab'], inp['is_eigh']
    e = float.fromhex(inp['e'])
    A, B, T, S = _cancel_parts(A, D, k)
    nY = _fnorm(T)
    if nY == 0:
        return []
    d = len(A)
    try:
        with np.errstate(all='ignore'):
            Y = tn.sub([G.copy() for G in A], [G.copy() for G in B])
            Z = tn.truncate(Y, e, 1.E+12, True, us, ie)
    except Exception as ex:  # noqa
        return [('cancellation: raises', repr(ex)[:150], 'a tensor')]
    if _shape(Z) != _shape(A) or not all(np.all(np.isfinite(G)) for G in Z):
        return [('cancellation: shape / finiteness', [list(G.shape) for G in Z], _shape(A))]
    fl = 256 * 2.0 ** -53 * S              # rounding of the representation itself (component scale)
    err = _fnorm(T - _full(Z))
    bound = e * nY * (1 + 1e-6) + fl
    if not err <= bound:
        fails.append(('cancellation: error <= e*norm (exact norm)', [err, err / nY], bound))
    rk = _ranks(Z)
    bud2 = max((e * nY) ** 2 / (d - 1) * (1 - 1e-3) - (d * fl) ** 2 - 2 * d * fl * e * nY, 0.0)
    for j in range(1, d):
        sv = _unfold_svals(T, j)
        tails = np.concatenate([np.cumsum((sv ** 2)[::-1])[::-1], [0.0]])
        rho = max(1, int(np.argmax(tails <= bud2))) if np.any(tails <= bud2) else len(sv)
        if rk[j] > rho:
            fails.append((f'cancellation: rank {j} <= smallest rank meeting the budget', rk[j], rho))
    return fails


def _fail(what, kind, **inp):
    f = dict(what=f'C02 {kind}: {what[0]}', input=dict(kind=kind, **inp), got=what[1], expected=what[2])
    if len(what) > 3 and what[3]:
        f['finding_key'] = what[3]
    return f


# fixed regression case of the known finding C02/eigh-mode-sqrt-eps-floor: d = 2, second core Q diag(1, 2e-9) P, e = 1e-9
REGRESSION_EIGH = dict(
    kind='truncate',
    Y=[[[1, 2, 2], ['0x1.0000000000000p+0', '0x0.0p+0', '0x0.0p+0', '0x1.0000000000000p+0']],
       [[2, 2, 1], ['0x1.bbbcacce5a426p-2', '-0x1.b3eb15127489dp-1', '0x1.128723cb1e507p-3', '-0x1.0db0cee7e87e3p-2']]],
    e=float(1e-9).hex(), r=1.E+12, use_stab=False, is_eigh=True)


def _run_payload(tn, inp):
    kind = inp['kind']
    if kind == 'truncate':
        return _check_truncate(tn, _unjtt(inp['Y']), float.fromhex(inp['e']), inp['r'], inp['use_stab'], inp['is_eigh'])
    if kind == 'add_many':
        return _check_add_many(tn, [_unjtt(Y) for Y in inp['Ys']], float.fromhex(inp['e']), inp['r'], inp['freq'])
    if kind == 'matrix':
        sh, fl = inp['A']
        A = np.array([float.fromhex(x) for x in fl], float).reshape(sh)
        return _check_matrix(tn, A, float.fromhex(inp['e']), inp['r'], inp['which'])
    if kind == 'forms':
        return _check_forms(tn, inp)
    if kind == 'history':
        return _check_history(tn, inp)
    if kind == 'scale':
        return _check_scale(tn, inp)
    if kind == 'tie':
        return _check_tie(tn, inp)
    if kind == 'cancel':
        return _check_cancel(tn, inp)
    return []


def search(R, ctx, deep, hints):
    tn = C.import_teneva()
    rng = C.Rng(ctx['seed'] + 77)
    nprng = np.random.default_rng(ctx['seed'] + 78)
    fails = []      # untagged: real violations
    known = []      # tagged with the key of a known finding
    nev = 0

    def run(inp):
        nonlocal nev
        nev += 1
        try:
            fs = _run_payload(tn, inp)
        except Exception as ex:  # noqa  (an exception escaping from the implementation is a failure of that input)
            fs = [('raises', repr(ex)[:200], 'a tensor')]
        for f in fs[:2]:
            ff = _fail(f, inp['kind'], **{k: v for k, v in inp.items() if k != 'kind'})
            (known if 'finding_key' in ff else fails).append(ff)
        return fs

    run(REGRESSION_EIGH)
    for inp in REGRESSION_PLAIN:
        run(inp)
    def t_inp(Y, e, r, use_stab, is_eigh):
        return dict(kind='truncate', Y=_jtt(Y), e=float(e).hex(), r=r, use_stab=use_stab, is_eigh=is_eigh)
    # hints from the correspondence first
    for h in hints[:10]:
        inp = h.get('input') if isinstance(h, dict) else None
        if isinstance(inp, dict) and 'Y' in inp and 'is_eigh' in inp:
            run(t_inp(_unjtt(inp['Y']), float.fromhex(inp['e']), inp['r'], inp['use_stab'], inp['is_eigh']))
        elif isinstance(inp, dict) and 'Ys' in inp:
            run(dict(kind='add_many', Ys=inp['Ys'], e=inp['e'], r=inp['r'], freq=inp['freq']))
        elif isinstance(inp, dict) and 'A' in inp and inp.get('which') in ('svd', 'l', 'r', 'm') and not inp.get('rel'):
            run(dict(kind='matrix', A=inp['A'], e=inp['e'], r=inp['r'], which=inp['which']))
    # cross-cutting families: argument forms, call histories, power-of-two scales, exact thresholds
    n_cc = 0
    for inp in _crosscut_inputs(rng, nprng, deep):
        if len(fails) >= 8:
            break
        run(inp)
        n_cc += 1
    # massive cancellation (tensor far smaller than its cores), exact reference
    for _ in range(40 if deep else 12):
        if len(fails) >= 8:
            break
        A_, D_, k_ = _gen_cancel(rng, nprng)
        for us_, ie_ in ((False, True), (False, False), (True, rng.random() < 0.5)):
            run(dict(kind='cancel', A=[[list(G.shape), G.ravel().tolist()] for G in A_],
                     D=[[list(G.shape), G.ravel().tolist()] for G in D_], k=k_,
                     e=float(rng.choice([0.3, 0.1, 1e-2] + ([1e-3] if k_ <= 27 else []))).hex(), use_stab=us_, is_eigh=ie_))
            n_cc += 1
    # degenerate families first, all four flag combinations
    fams = ['zero', 'rank1', 'n1', 'overranked', 'deficient', 'cluster', 'big', 'small', 'int', 'decay', 'generic']
    reps = 6 if deep else 2
    for fam in fams:
        for _ in range(reps):
            for d in ([2, 3, 4] if deep else [2, rng.randint(3, 4)]):
                Y, _f = _rand_tt(rng, nprng, d=d, family=fam)
                for is_eigh in (True, False):
                    for use_stab in (False, True):
                        e = rng.choice([0.5, 0.1, 1e-2, 1e-3, 1e-5, 1e-8, 0.3, 0.03])
                        run(t_inp(Y, e, _pick_r(rng, Y), use_stab, is_eigh))
                        if len(fails) >= 6:
                            break
    # random structured tensors
    for _ in range(600 if deep else 60):
        if len(fails) >= 6:
            break
        Y, fam = _rand_tt(rng, nprng)
        run(t_inp(Y, _pick_e(rng), _pick_r(rng, Y), rng.random() < 0.5, rng.random() < 0.5))
    n_tr = nev
    # matrices: rank rule away from thresholds, factor contract
    for _ in range(300 if deep else 60):
        if len(fails) >= 8:
            break
        A, fam = _gen_matrix(rng, nprng)
        nrm = np.linalg.norm(A)
        if nrm == 0:
            continue
        s = np.linalg.svd(A, compute_uv=False)
        cs = np.cumsum((s ** 2)[::-1])
        which = rng.choice(['svd', 'l', 'r', 'm'])
        e = nrm * 10.0 ** (-rng.uniform(0.1, 3 if which == 'svd' else 6))
        if rng.random() < 0.5 and len(cs) > 1:
            j = rng.randrange(len(cs))
            e = math.sqrt(cs[j]) * (1 + rng.choice([1, -1]) * 1e-4)
        if which == 'svd' and e < 1e-4 * nrm:
            continue
        if np.any(np.abs(cs - e * e) <= 1e-5 * e * e + (1e-12 if which == 'svd' else 1e-24) * nrm * nrm):
            continue
        run(dict(kind='matrix', A=_jm(A), e=float(e).hex(), r=rng.choice([1.E+12, 1, 2, len(s)]), which=which))
    # add_many
    for _ in range(120 if deep else 25):
        if len(fails) >= 10:
            break
        d = rng.randint(2, 4)
        n = [rng.randint(1, 3) for _ in range(d)]
        m = rng.randint(1, 7)
        Ys = []
        for _j in range(m):
            r_ = [1] + [rng.randint(1, 2) for _ in range(d - 1)] + [1]
            Ys.append([nprng.normal(size=(r_[k], n[k], r_[k + 1])) for k in range(d)])
        run(dict(kind='add_many', Ys=[_jtt(Y) for Y in Ys], e=float(10.0 ** (-rng.uniform(0.3, 4))).hex(),
                 r=rng.choice([1.E+12, 1, 2, 3]), freq=rng.choice([1, 2, 3, 15])))
    # the driver reports a broken proof / correspondence as a violation only when search() returns nothing:
    # known-finding hits must not mask it
    broken = (R.build_ok is False) or bool(R.forbidden) or any(not o['ok'] for o in R.obligations) or \
        any(c.get('mismatches') for c in R.corr)
    R.search.append(dict(name='truncate / matrix factorisations / add_many on the implementation vs dense SVD reference '
                              '(shape, caps, error <= e*norm when the cap does not bind, Eckart-Young clauses, per-step bound)',
                         evaluations=nev, truncate_calls_checked=n_tr, crosscut_cases=n_cc, failures=len(fails),
                         known_finding_hits=len(known), deep=deep))
    kn, seen = [], {}
    for f in known:
        seen[f['finding_key']] = seen.get(f['finding_key'], 0) + 1
        if seen[f['finding_key']] <= 2:
            kn.append(f)
    if fails:
        return fails + kn
    return [] if broken else kn


def replay(data):
    tn = C.import_teneva()
    p = data.get('payload', {})
    inp = p.get('input') if isinstance(p, dict) else None
    if not isinstance(inp, dict) or 'kind' not in inp:
        print('replay: no failing input recorded in this file')
        return 1
    try:
        fs = _run_payload(tn, inp)
    except Exception as ex:  # noqa
        fs = [('raises', repr(ex)[:200], 'a tensor')]
    for f in fs:
        print('still fails:', f)
    return 1 if fs else 0
