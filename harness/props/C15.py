"""C15 — optimum search (optima_tt_beam, optima_tt_max, optima_tt, optima_qtt, optima_func_tt_beam)."""
import itertools
import math
import warnings
import numpy as np
from harness import common as C

THEOREMS = 'Properties/C15.v'
CLAIM = dict(
    text=('Proved in Coq (Properties/C15.v) about the model Model/Optima.v of optima_tt_beam / optima_tt_max / optima_tt / optima_qtt, '
          'for every d >= 2, every shape without empty mode, every rank profile, both sweep directions: '
          '(1) C15_beam_inv [any commutative ring, ANY selection returned by argsort]: every row of the index table is inside the '
          'tensor bounds and the carried entry equals s^d times the tensor entry at that row (Kronecker bookkeeping of old and new '
          'indices); C15_beam_first_inb: for k >= 1 the returned first row exists and is in bounds. '
          '(2) C15_beam_full_exact [reals]: if k >= number of elements nothing is pruned and the returned index has maximal modulus; '
          'C15_beam_rank1_exact [reals]: for TT-rank 1 and ANY k >= 1 the returned index has maximal modulus. '
          '(3) C15_optima_tt_max_exact: optima_tt_max returns an in-bounds index, the value is the tensor entry there, and it has '
          'maximal modulus when k >= number of elements or the tensor has rank 1. '
          '(4) C15_optima_tt_values: for every k >= 1 optima_tt returns in-bounds indices, values equal to the entries there, and '
          'y_min <= y_max. (5) C15_minmax_from_absmax + C15_optima_tt_exact_full: with k >= number of elements the reported minimum '
          'and maximum are the true ones (any sign pattern, ties, constant tensors). '
          '(6) C15_qtt_agrees / C15_optima_qtt_exact_full: optima_qtt is optima_tt on the quantised tensor with indices mapped back by '
          'ind_qtt_to_tt; in-bounds, values are entries of Y, exact for k >= number of elements GIVEN that the quantisation preserves the '
          'values (contract qtt_ok_at; the parameter e of optima_qtt is an ABSOLUTE accuracy, default 1e-12, so tensors of small magnitude '
          'need a smaller e, and with a coarse e or a rank cap r the quantisation is lossy: then only bounds, values-are-entries, min <= max and '
          'the agreement with optima_tt on the same quantised tensor are claimed, not optimality (C15_optima_qtt_ordered proves values-are-entries '
          'and min <= max for EVERY quantisation, the swap of commit 285e9fd; bounds and agreement are checked numerically); it is applied to every TT-core separately -- checked numerically with e = 0 and e = 1e-12*min(1, scale) for scales 2^-498..2^498); rejected shapes give ValueError. '
          'REFUTED on the code and listed as known finding C15/rank1-minmax-second-beam: "for every rank-1 tensor with any k the '
          'reported minimum AND maximum are the true ones" -- only the maximum-modulus one is (theorem 3); the opposite-sign optimum '
          'comes from a second beam on the squared shifted tensor of rank up to 4 (C15_rank1_minmax_refuted is a concrete exact '
          'counterexample on the model; the search replays it on the implementation). '
          'Second known finding C15/optima_tt-squared-shift-underflow (floating point, outside the real-number theorems): when the entries are '
          'below ~1e-154 or above ~1e+154 the squared shifted tensor underflows / overflows and optima_tt reports a wrong opposite-sign '
          'optimum (or raises) even for k >= number of elements; the maximum-modulus search is unaffected. '
          '(7) functional variant (Model/OptimaFunc.v: _find_poly_max, the point bookkeeping of _step_top_k, and the rank-1 path in full): '
          'C15_func_cand_absmax [reals, extreme value theorem + Fermat from Coq Ranalysis]: the candidate list (end points + real roots '
          'of the derivative in [-1,1]) carries a maximiser of |p| over [-1,1]; '
          'C15_func_rank1_exact (cond: polyroots returns every real root in [-1,1] of the derivatives of the squared scaled factors, '
          'both argsorts sort, k >= 1, k_loc >= 1): for a rank-1 coefficient tensor the returned point has d coordinates, lies in '
          '[-1,1]^d and the interpolant attains its maximum modulus over the cube there (every d, every degree); '
          'PARTIAL for general rank: C15_func_points_in_cube_partial: all coordinates of every returned point lie in [-1,1] whatever '
          'polyroots / argsort / the linear algebra return; C15_func_points_dim: exactly d coordinates when the argsort over all '
          'candidates indexes into its argument and there is one squared interpolant per kept point; C15_func_constant_poly: a constant '
          'squared interpolant yields the candidates -1, 1 without consulting polyroots (commit 7bc82cb). '
          'Validated numerically only: that the factor f_s of the rank-1 model is the Chebyshev interpolant of the coefficient core of the '
          'ARGUMENT up to the scalar of orthogonalize (cheb2poly, computed by the harness from the original core; the polynomials (g f_s)^2 of the model are compared with those handed to '
          '_find_poly_max on every run), completeness of numpy polyroots, and the floating-point effects of orthogonalize / 2**(p/d) '
          '(oracles with contracts, checked on every recorded call).'),
    note=('Order arguments are at Coq reals (no NaN: the zero tensor, where numpy computes 0/0 norms, is covered by the theorems because '
          'every index is then optimal). External routines are Section variables with contracts: argsort (a permutation that sorts '
          'ascending), orthogonalize(use_stab=True) (same shape, a fixed multiple of the same tensor, rank 1 stays rank 1), 2**(p/d) '
          '(non-zero), x**(1/d) in const (d-th power gives x back), tt_to_qtt (value preservation under ind_qtt_to_tt). '
          'Observation (not a violation: undocumented input form, fails loudly): optima_func_tt_beam raises UFuncTypeError for coefficient cores of '
          'integer dtype; the TT routines accept integer dtype, tuples, Fortran order and numpy-integer k unchanged. '
          'Non-vacuity: C15_contracts_satisfiable, C15_example_* (C15_example_func_rank1: factor x^2 - 1/4 with the explicit root oracle [0, 1/2, -1/2]).'),
    technique='Coq proof (beam invariant by induction over the visited cores, order arguments at R) + '
              'model/implementation correspondence with replayed oracles + brute-force oracle on the dense tensor')
TRUSTED = ['Coq 8.16.1 kernel; Reals axioms (Print Assumptions per theorem in the evidence)',
           'oracle contract argsort_ok: np.argsort returns a permutation sorting ascending (checked on every recorded call against the model norms)',
           'oracle contract orth_ok: orthogonalize(Y, piv, use_stab=True) keeps the shape, denotes Y / 2^p, keeps rank 1 (checked numerically on every recorded call, 1e-9)',
           'oracle contract droot_ok: (x**(1/d))**d = x inside teneva.const (float rounding; model vs implementation dense squared-shifted tensor compared at 1e-9)',
           'oracle contract qtt_ok: tt_to_qtt preserves values under the index map (C17; checked on every recorded call)',
           'oracle contract roots_ok_on (rank-1 functional theorem): polyroots + the 1e-4 imaginary filter return every real root in [-1,1] of a polynomial that is not identically zero (not checkable exactly; the search compares the result with a fine grid)',
           'oracles of the functional variant for general rank (polyroots, both argsort calls, the squared partial interpolants) are unconstrained in the partial theorems and replayed in the correspondence',
           'hand-written models Model/Optima.v, Model/OptimaFunc.v tied to /repo by the correspondence streams of this check on every run',
           'floating point: theorems are over exact reals; ties within rounding error are excluded from the correspondence by a 1e-6 margin filter']
TIME_LIMIT = {'quick': 900, 'thorough': 5400}

HEADER = r'''From Coq Require Import List ZArith QArith Qcanon Floats.
From TV Require Import Num.Ops Num.InstF Lin.Tab Lin.Mat TT.Chain Model.ActOne Model.GridInd Model.Optima Model.OptimaFunc.
Import ListNotations.
Definition showQ (q : Qc) : Z * Z := (Qnum (this q), Zpos (Qden (this q))).
Definition OUT := (list (list nat) * list (list (Z * Z)))%type.
Definition showF (Ix : list (list nat)) (tr : list (list float)) : OUT := (Ix, map (map F_show) tr).
Definition showQc (Ix : list (list nat)) (tr : list (list Qc)) : OUT := (Ix, map (map showQ) tr).
Definition rep {A} (l : list A) (d : A) : nat -> A := fun c => nth c l d.
Definition noorthF : nat -> list (core float) -> nat -> list (core float) * Z := fun _ Y _ => (Y, 0%Z).
Definition noorthQ : nat -> list (core Qc) -> nat -> list (core Qc) * Z := fun _ Y _ => (Y, 0%Z).
Definition show4F (r : list nat * float * list nat * float) : OUT :=
  let '(i1, y1, i2, y2) := r in ([i1; i2], [[F_show y1; F_show y2]]).
Definition show4RF (r : result (list nat * float * list nat * float)) : OUT :=
  match r with Ok x => let '(a, b) := show4F x in ([0%nat] :: a, b) | Err e => ([[Z.to_nat (err_code e)]], []) end.
(* all multi-indices, C order (as teneva.full(Y).ravel()) *)
Definition allidx (ns : list nat) : list (list nat) :=
  fold_right (fun n acc => flat_map (fun i => map (cons i) acc) (seq 0 n)) [[]] ns.
Definition sortF : nat -> list float -> list nat := fun _ l => argsort_ins OF l.
Definition show4D (r : list nat * float * list nat * float) (dense : list float) : OUT :=
  let '(i1, y1, i2, y2) := r in ([i1; i2], [[F_show y1; F_show y2]; map F_show dense]).
Definition fvals (rts : nat -> nat -> list float -> list float) (s i : nat) (p : list float) : list float :=
  map (fun x => oabs OF (polyval OF p x)) (cand_points OF rts s i p).
(* rows of X, an empty row, then the values handed to argsort inside _find_poly_max, in call order *)
Definition showFn rts as1 as2 (polys : list (list (list float))) (d k kl : nat) : OUT :=
  ([], map (map F_show) (optima_func_all OF rts as1 as2 (fun s => nth s polys []) d k kl) ++ [[]] ++
       concat (map (fun s => map (fun i => map F_show (fvals rts s i (nth i (nth s polys []) [])))
                                 (seq 0 (length (nth s polys [])))) (seq 0 d))).
Fixpoint r1_trace (rts : nat -> nat -> list float -> list float) as1 as2 (s : nat) (fs : list (list float))
    (kept : list (list float * float)) (k kl : nat) : list (list float) :=
  match fs with
  | [] => []
  | f :: fs' => map (fun e => sq_poly_r1 OF (snd e) f) kept ++
                r1_trace rts as1 as2 (S s) fs' (func_step_r1 OF rts as1 as2 s f kept k kl) k kl
  end.
(* points of the rank-1 model, an empty row, then the polynomials (g f_s)^2 it hands to _find_poly_max, in call order *)
Definition showR1 rts as1 as2 (fs : list (list float)) (k kl : nat) : OUT :=
  ([], map (map F_show) (optima_func_r1_all OF rts as1 as2 fs k kl) ++ [[]] ++
       map (map F_show) (r1_trace rts as1 as2 0 fs [([], 1%float)] k kl)).
Definition dummyorth : nat -> list (core float) -> nat -> list (core float) * Z := fun _ _ _ => ([], 0%Z).
'''


# ----------------------------------------------------------------------------------------------
# literals
# ----------------------------------------------------------------------------------------------

def F(x):
    return f'({C.flit(float(x))})%float'


def Q(x):
    return C.qlit(int(x))


def Nl(xs):
    return '[' + '; '.join(str(int(x)) for x in xs) + ']%nat'


def NNl(xss):
    return '[' + '; '.join(Nl(x) for x in xss) + ']'


def core_lit(G, leaf):
    r1, n, r2 = G.shape
    return f'(mk_core {r1}%nat {n}%nat {r2}%nat {C.nested(G.tolist(), leaf)})'


def tt_lit(Y, leaf):
    return '[' + '; '.join(core_lit(G, leaf) for G in Y) + ']'


def bl(b):
    return 'true' if b else 'false'


# ----------------------------------------------------------------------------------------------
# generators
# ----------------------------------------------------------------------------------------------

def rand_tt(rng, ns, rs, kind):
    """TT cores; kind: 'float' generic doubles in (-1, 1); 'int' small integers (ties are frequent);
    'pos' / 'neg' one-signed; 'const' constant tensor of rank profile rs (sum of equal rank-1 terms)."""
    d = len(ns)
    Y = []
    for k in range(d):
        sh = (rs[k], ns[k], rs[k + 1])
        m = sh[0] * sh[1] * sh[2]
        if kind == 'float':
            v = [rng.uniform(-1, 1) for _ in range(m)]
        elif kind == 'int':
            v = [rng.randint(-3, 3) for _ in range(m)]
        elif kind == 'int2':
            v = [rng.choice([-2, -1, 1, 2]) for _ in range(m)]
        elif kind == 'pos':
            v = [rng.randint(1, 4) for _ in range(m)]
        elif kind == 'zero':
            v = [0] * m
        else:
            raise ValueError(kind)
        Y.append(np.array(v, dtype=float).reshape(sh))
    return Y


def rand_shape(rng, dmax=4, nmax=4, rmax=3, nelem=40, d=None):
    while True:
        dd = d or rng.randint(2, dmax)
        ns = [rng.randint(1, nmax) for _ in range(dd)]
        if np.prod(ns) <= nelem and np.prod(ns) >= 2:
            break
    rs = [1] + [rng.randint(1, rmax) for _ in range(dd - 1)] + [1]
    return ns, rs


def nelem(Y):
    return int(np.prod([G.shape[1] for G in Y]))


def copy_tt(Y):
    return [G.copy() for G in Y]


# ----------------------------------------------------------------------------------------------
# adversarial families
# ----------------------------------------------------------------------------------------------

def sum_rank1(terms, d):
    """TT cores of sum_t w_t * v_t1 x ... x v_td (direct sum of rank-1 terms; weight on the first core)"""
    Rk = len(terms)
    Y = []
    for j in range(d):
        n = len(terms[0][1][j])
        G = np.zeros((1 if j == 0 else Rk, n, 1 if j == d - 1 else Rk))
        for t, (w, vs) in enumerate(terms):
            G[0 if j == 0 else t, :, 0 if j == d - 1 else t] = np.asarray(vs[j], dtype=float) * (w if j == 0 else 1.0)
        Y.append(G)
    return Y


def misleading_tt(rng, ns, bs, bg, blk, peak, jitter=0.004):
    """'block plus isolated peak': background bg, the block prod_j [0, bs_j) at level blk, one entry at the far corner at level
    peak (TT-rank 3).  The fibres through the block have a larger norm than the fibre through the peak, so a pruned sweep (from
    either side) follows the block and misses the entry of maximum modulus.  A small multiplicative jitter removes exact ties."""
    d = len(ns)
    jit = lambda n: np.array([1.0 + jitter * rng.uniform(-1, 1) for _ in range(n)])
    ones = [jit(n) for n in ns]
    ind = [jit(n) * np.array([1.0 if i < b else 0.0 for i in range(n)]) for n, b in zip(ns, bs)]
    e = [np.eye(n)[n - 1] for n in ns]
    # entries: bg*ones + (blk-bg)*ind + (peak-bg)*e  (up to the jitter)
    return sum_rank1([(bg, ones), (blk - bg, ind), (peak - bg, e)], d)


# (shape, block sizes): found by search to mislead both sweep directions for k up to about the block size
MISLEADING_SMALL = [([4, 1, 4], [3, 1, 3]), ([4, 2, 4], [3, 2, 3]), ([3, 2, 2, 3], [2, 2, 2, 2])]
MISLEADING_MORE = [([4, 3, 4], [3, 2, 3]), ([5, 2, 5], [4, 1, 4]), ([4, 4, 4], [3, 3, 3]), ([4, 2, 2, 4], [3, 1, 1, 3]), ([3, 3, 3, 3], [2, 2, 2, 2])]
# (background, block, peak): positive, negated, sign-mixed
MISLEADING_LEVELS = [(1.5, 2.0, 2.6), (-1.5, -2.0, -2.6), (1.5, 2.0, 3.0), (1.5, 2.0, -2.6), (-1.5, 2.0, 2.75), (1.5, -2.0, 2.6)]


def hidden_tt(rng, ns, bs, bg, blk, peak, top, jitter=0.004):
    """block plus isolated peak plus one entry `top` of opposite sign and maximum modulus (TT-rank 4): after the shift by `top`
    the squared tensor is again 'block plus peak', so the peak (the other extremum) sits in low-norm fibres of the SECOND search"""
    d = len(ns)
    jit = lambda n: np.array([1.0 + jitter * rng.uniform(-1, 1) for _ in range(n)])
    ones = [jit(n) for n in ns]
    ind = [jit(n) * np.array([1.0 if i < b else 0.0 for i in range(n)]) for n, b in zip(ns, bs)]
    e = [np.eye(n)[n - 1] for n in ns]
    t = [np.eye(n)[n - 1 if j == 0 else 0] for j, n in enumerate(ns)]
    return sum_rank1([(bg, ones), (blk - bg, ind), (peak - bg, e), (top - bg, t)], d)


# more than 100 partial multi-indices in both sweep directions (N = 512, 1331, 1296)
BIG_SHAPES = [([8, 8, 8], [7, 7, 7]), ([11, 11, 11], [10, 10, 10]), ([6, 6, 6, 6], [5, 5, 5, 5])]
HIDDEN_LEVELS = [(-1.5, -2.0, -3.0, 3.2), (1.5, 2.0, 3.0, -3.2), (-1.5, -2.0, -3.9, 4.0)]


def structured_func_tensors():
    """rank-1 Chebyshev coefficient tensors whose univariate factors put the optimum at special places: exactly even factors
    peaking at x = 0 (the derivative has an exactly zero constant term, polyroots returns exactly 0.0), optimum at an end point
    (one end, or both ends tied), a repeated critical point (triple root of the derivative, at 0 and away from 0), a critical
    point at |x| ~ 1e-8, and sign variants.  Coefficients are in the Chebyshev basis, low order first."""
    col = lambda v: np.array(v, dtype=float).reshape(1, -1, 1)
    F_ = dict(
        even_peak0=[0.75, 0.0, -0.25],                  # 1 - x^2/2
        even_peak0_neg=[-0.75, 0.0, 0.25],
        even4_peak0=[1.0, 0.0, -0.5, 0.0, 0.1],
        flat_peak0=[0.625, 0.0, -0.5, 0.0, -0.125],     # 1 - x^4: triple critical point at 0
        flat_peak02=None,                               # 1 - (x - 0.2)^4: triple critical point at 0.2 (filled below)
        even_ends=[0.5, 0.0, 0.5],                      # x^2: both end points tie, minimum at 0
        end_plus=[0.3, 1.0, 0.2], end_minus=[0.3, -1.0, 0.2],
        tiny_root=None,                                 # 1 - (x - 1e-8)^2/2
        double_root=None,                               # (x - 0.3)^2
        generic=[0.2, -0.7, 0.4, 0.1])
    P2C = np.polynomial.chebyshev.poly2cheb
    F_['flat_peak02'] = [float(c) for c in P2C(np.polynomial.polynomial.polysub([1.0], np.polynomial.polynomial.polypow([-0.2, 1.0], 4)))]
    F_['tiny_root'] = [float(c) for c in P2C([1.0 - 0.5e-16, 1e-8, -0.5])]
    F_['double_root'] = [float(c) for c in P2C(np.polynomial.polynomial.polypow([-0.3, 1.0], 2))]
    out = []
    for name in ('even_peak0', 'even_peak0_neg', 'even4_peak0', 'flat_peak0', 'flat_peak02', 'even_ends', 'end_plus', 'end_minus',
                 'tiny_root', 'double_root'):
        out.append((name + '|end_plus', [col(F_[name]), col(F_['end_plus'])]))
        out.append(('generic|' + name, [col(F_['generic']), col(F_[name])]))
    out.append(('even|even|even', [col(F_['even_peak0']), col(F_['even4_peak0']), col(F_['flat_peak0'])]))
    out.append(('even|n1|even', [col(F_['even_peak0_neg']), col([2.0]), col(F_['even_peak0'])]))
    out.append(('tiny|ends|double', [col(F_['tiny_root']), col(F_['even_ends']), col(F_['double_root'])]))
    return out


def aliased_tensors(rng):
    """tensors with repeated cores (to be passed with form_alias): functional rank-1 coefficient tensors whose factor has two
    opposite-signed extrema of similar size, and TT tensors of rank 1 and 2 (also power-of-two shapes for optima_qtt)"""
    col = lambda v: np.array(v, dtype=float).reshape(1, -1, 1)
    facs = [[0.35, -1.0, -1.0], [0.3, 1.0, -0.9], [-0.2, 0.8, 1.0, 0.1], [0.1, -0.9, 0.2, 0.7]]
    func = []
    for c in facs:
        func += [[col(c)] * 2, [col(c)] * 3, [col([0.4, 0.3, -0.6]), col(c), col(c), col([1.0, -0.5])]]
    G2 = np.array([rng.uniform(-1, 1) for _ in range(2 * 3 * 2)]).reshape(2, 3, 2)
    A2 = np.array([rng.uniform(-1, 1) for _ in range(3 * 2)]).reshape(1, 3, 2)
    B2 = np.array([rng.uniform(-1, 1) for _ in range(2 * 3)]).reshape(2, 3, 1)
    Gq = np.array([rng.uniform(-1, 1) for _ in range(2 * 2 * 2)]).reshape(2, 2, 2)
    Aq = np.array([rng.uniform(-1, 1) for _ in range(2 * 2)]).reshape(1, 2, 2)
    Bq = np.array([rng.uniform(-1, 1) for _ in range(2 * 2)]).reshape(2, 2, 1)
    tt = [[col([1, -2, 1.5])] * 3, [col([2, -1, 0.5, -2.5])] * 2, [A2, G2, G2, B2], [A2, G2, G2, G2, B2],
          [col([1.5, -1, 2, -2.5])] * 2, [Aq, Gq, Gq, Bq]]
    return func, tt


def _oracle_alias(tn, Y, k, func=False):
    """the same array object in several positions of the argument: every routine must return what it returns for independent
    copies of the cores, and must leave the (shared) arrays unchanged"""
    inp = dict(Y=[np.asarray(G).tolist() for G in Y], k=k, alias=True, func=func)
    if func:
        inp = dict(A=inp['Y'], k=k, alias=True, func=True)
    lst = lambda r: [np.asarray(x).tolist() for x in r] if isinstance(r, tuple) else np.asarray(r).tolist()
    routines = [('optima_func_tt_beam', lambda T: tn.optima_func_tt_beam(T, k)),
                ('optima_func_tt_beam(ret_all)', lambda T: tn.optima_func_tt_beam(T, k, None, True))] if func else \
               [('optima_tt_beam', lambda T: tn.optima_tt_beam(T, k)), ('optima_tt_beam(r2l)', lambda T: tn.optima_tt_beam(T, k, l2r=False)),
                ('optima_tt_max', lambda T: tn.optima_tt_max(T, k)), ('optima_tt', lambda T: tn.optima_tt(T, k))]
    ns = [np.asarray(G).shape[1] for G in Y]
    if not func and len(set(ns)) == 1 and ns[0] in (2, 4):
        routines.append(('optima_qtt', lambda T: tn.optima_qtt(T, k)))
    obj = form_alias(Y)
    try:
        for name, f in routines:
            got, ref = lst(_quiet(f, obj)), lst(_quiet(f, copy_tt(Y)))
            if got != ref:
                return dict(what='%s: an argument with the same array object in several positions gives a different result than '
                                 'independent copies of the cores' % name, input=inp, got=got, expected=ref)
    except Exception as e:  # noqa
        return dict(what='optimum search raised on an argument with repeated core objects: ' + repr(e)[:160], input=inp)
    if not _same_arg(obj, Y, form_alias):
        return dict(what='the optimum search modified its argument (repeated core objects)', input=inp)
    return None


def zero_onesigned_tensors():
    """one-signed tensors containing exact zeros: non-negative / non-positive, rank 1 and rank 2 with a zero slice"""
    one = lambda v: np.array(v, dtype=float).reshape(1, -1, 1)
    out = []
    base = [[one([0, 1, 2]), one([3, 0, 1])], [one([2, 0]), one([1, 3, 0]), one([0, 2])], [one([1, 0, 4]), one([2, 5]), one([0, 3, 1])],
            [one([0, 0, 1]), one([1, 2])], [one([1, 2, 0, 3]), one([0, 1, 1, 2])]]
    for Y in base:
        out.append(('zeros-nonneg-r1', Y))
        for j in range(len(Y)):          # a single negated core: non-positive tensor; the sign sits in a different core
            out.append(('zeros-nonpos-r1', [(-G if t == j else G.copy()) for t, G in enumerate(Y)]))
        if len(Y) >= 2:
            out.append(('zeros-nonneg-r1-2neg', [(-G if t < 2 else G.copy()) for t, G in enumerate(Y)]))
    r2 = [sum_rank1([(1.0, [[0, 1, 2], [1, 0, 3]]), (2.0, [[0, 2, 1], [2, 0, 1]])], 2),
          sum_rank1([(1.0, [[1, 0, 2], [1, 3], [0, 1, 1]]), (0.5, [[3, 0, 1], [2, 1], [0, 2, 4]])], 3),
          sum_rank1([(1.0, [[1, 2], [0, 3, 1], [1, 1]]), (3.0, [[2, 1], [0, 1, 2], [0, 1]])], 3)]
    for Y in r2:
        out.append(('zeros-nonneg-r2', Y))
        out.append(('zeros-nonpos-r2', [-Y[0]] + [G.copy() for G in Y[1:]]))
        out.append(('zeros-nonpos-r2-last', [G.copy() for G in Y[:-1]] + [-Y[-1]]))
    return out


# ----------------------------------------------------------------------------------------------
# recorders (installed on module attributes looked up at call time by optima.py)
# ----------------------------------------------------------------------------------------------

class Rec:
    def __init__(self, tn):
        self.tn = tn

    def __enter__(self):
        tn = self.tn
        self.orth, self.sort, self.const, self.qtt = [], [], [], []
        self._o, self._a, self._c, self._q = tn.orthogonalize, np.argsort, tn.const, tn.tt_to_qtt
        rec = self

        def orth(Y, k=None, use_stab=False):
            inp = copy_tt(Y)
            res = rec._o(Y, k, use_stab=use_stab)
            if use_stab:
                rec.orth.append(dict(inp=inp, k=k, out=copy_tt(res[0]), p=int(res[1])))
            return res

        def argsort(a, *args, **kw):
            out = rec._a(a, *args, **kw)
            rec.sort.append(dict(inp=np.array(a, dtype=float).copy(), out=np.array(out).tolist()))
            return out

        def const(n, v=1., *args, **kw):
            out = rec._c(n, v, *args, **kw)
            rec.const.append(dict(n=list(n), v=float(v), out=copy_tt(out)))
            return out

        def tt_to_qtt(Y, *args, **kw):
            out = rec._q(Y, *args, **kw)
            rec.qtt.append(dict(inp=copy_tt(Y), out=copy_tt(out)))
            return out
        tn.orthogonalize, np.argsort, tn.const, tn.tt_to_qtt = orth, argsort, const, tt_to_qtt
        self._w = warnings.catch_warnings()
        self._w.__enter__()
        warnings.simplefilter('ignore')
        self._e = np.seterr(all='ignore')
        return self

    def __exit__(self, *a):
        tn = self.tn
        tn.orthogonalize, np.argsort, tn.const, tn.tt_to_qtt = self._o, self._a, self._c, self._q
        np.seterr(**self._e)
        self._w.__exit__(*a)
        return False


def orth_contract(tn, o):
    """C04 contract of one recorded orthogonalize(Y, k, use_stab=True) call: same mode sizes, and
    2^p * Z denotes the same tensor as Y (1e-9 relative to max |Y|)."""
    if [G.shape[1] for G in o['inp']] != [G.shape[1] for G in o['out']]:
        return 'mode sizes changed'
    if all(G.shape[0] == 1 and G.shape[2] == 1 for G in o['inp']) and not all(G.shape[0] == 1 and G.shape[2] == 1 for G in o['out']):
        return 'rank-1 input, output of higher rank'
    A = tn.full(o['inp'])
    Bf = tn.full(o['out']) * 2.0 ** o['p']
    sc = float(np.max(np.abs(A))) if A.size else 0.0
    if not np.all(np.isfinite(Bf)) and np.all(np.isfinite(A)):
        return 'non-finite output'
    if np.max(np.abs(A - Bf)) > 1e-9 * max(sc, 1e-300):
        return 'dense tensors differ by %g (scale %g)' % (float(np.max(np.abs(A - Bf))), sc)
    return None


def orth_lit(recs, leaf, ty):
    """replayed orthogonalize: call number -> (Z, p)"""
    items = '; '.join(f'({tt_lit(o["out"], leaf)}, ({o["p"]})%Z)' for o in recs)
    return f'(fun c (_ : list (core {ty})) (_ : nat) => nth c [{items}] ([], 0%Z))'


def sort_lit(recs, ty):
    return f'(fun c (_ : list {ty}) => nth c {NNl([s["out"] for s in recs])} [])'


def dec_pair(p, qc=False):
    if qc:
        return p[0] / p[1]
    return C.float_of_show(p)


def close(a, b, tol=1e-9, scale=1.0):
    if math.isnan(a) or math.isnan(b):
        return math.isnan(a) and math.isnan(b)
    if math.isinf(a) or math.isinf(b):
        return a == b
    return abs(a - b) <= tol * max(scale, abs(a), abs(b))


# ----------------------------------------------------------------------------------------------
# correspondence
# ----------------------------------------------------------------------------------------------

def _beam_cases(tn, rng, thorough):
    """streams A (float, orthogonalize + argsort replayed) and B (Qc exact, to_orth=False, p=0)."""
    shapes = []
    # degenerate families first
    shapes += [([2, 3], [1, 1, 1], 'int'), ([2, 2], [1, 2, 1], 'zero'), ([3, 2, 2], [1, 1, 1, 1], 'int2'),
               ([1, 3], [1, 2, 1], 'float'), ([3, 1, 2], [1, 2, 2, 1], 'float'), ([2, 2, 2], [1, 2, 2, 1], 'int'),
               ([2, 2, 2, 2], [1, 2, 1, 2, 1], 'float'), ([4, 3], [1, 3, 1], 'pos')]
    for _ in range(16 if thorough else 5):
        ns, rs = rand_shape(rng, nelem=64 if thorough else 30)
        shapes.append((ns, rs, rng.choice(['float', 'float', 'int', 'int2'])))
    A, B = [], []
    for ns, rs, kind in shapes:
        Y = rand_tt(rng, ns, rs, kind)
        N = nelem(Y)
        ks = list(range(1, N + 2))
        if len(ks) > 14 and not thorough:
            ks = sorted(set([1, 2, 3, N - 1, N, N + 1] + rng.sample(ks, 8)))
        for l2r in (True, False):
            for k in ks:
                Yobj = copy_tt(Y)       # ONE object for both calls (history); it must come back unchanged
                with Rec(tn) as rec:
                    Ix = tn.optima_tt_beam(Yobj, k, l2r=l2r, ret_all=True)
                    i0 = tn.optima_tt_beam(Yobj, k, l2r=l2r)
                touched = not _same_arg(Yobj, Y, None)
                o = rec.orth[0]
                d = len(Y)
                s = 2 ** (o['p'] / d)
                nsort = len(rec.sort) // 2
                A.append(dict(
                    coq=(f'(let asr := {sort_lit(rec.sort[:nsort], "float")} in let ort := {orth_lit(rec.orth[:1], F, "float")} in '
                         f'let p2 := (fun (_ : Z) (_ : nat) => {F(s)}) in let Y := {tt_lit(Y, F)} in '
                         f'showF (beam_all OF asr ort p2 0 0 Y {k} {bl(l2r)} true None) '
                         f'(beam_norm_trace OF asr ort p2 0 0 Y {k} {bl(l2r)} true None))'),
                    table=np.asarray(Ix).tolist(), first=np.asarray(i0).tolist(), sort=rec.sort[:nsort],
                    orth_bad=('argument modified' if touched else orth_contract(tn, o)), Y=Y,
                    input=dict(stream='A', ns=ns, rs=rs, kind=kind, k=k, l2r=l2r, Y=[G.tolist() for G in Y])))
                if kind in ('int', 'int2', 'pos', 'zero'):
                    with Rec(tn) as rec:
                        Ix = tn.optima_tt_beam(copy_tt(Y), k, l2r=l2r, ret_all=True, to_orth=False, p=0)
                    B.append(dict(
                        coq=(f'(let asr := {sort_lit(rec.sort, "Qc")} in let p2 := (fun (_ : Z) (_ : nat) => Q2Qc 1) in '
                             f'let Y := {tt_lit(Y, Q)} in '
                             f'showQc (beam_all OQc asr noorthQ p2 0 0 Y {k} {bl(l2r)} false (Some 0%Z)) '
                             f'(beam_norm_trace OQc asr noorthQ p2 0 0 Y {k} {bl(l2r)} false (Some 0%Z)))'),
                        table=np.asarray(Ix).tolist(), sort=rec.sort, Y=Y,
                        input=dict(stream='B', ns=ns, rs=rs, kind=kind, k=k, l2r=l2r, Y=[G.tolist() for G in Y])))
    return A, B


def _check_beam(R, name, items, qc, tol, distribution):
    vals = C.run_cases(f'C15_{name}', HEADER, [it['coq'] for it in items], chunk=40)
    bad = []
    for it, (table, trace) in zip(items, vals):
        R.add_distinct((name, it['input']))
        why = None
        if table != it['table']:
            why = 'index table differs'
        elif 'first' in it and (table[0] if table else None) != it['first']:
            why = 'ret_all=False result is not the first row of the table'
        elif len(trace) != len(it['sort']):
            why = 'number of argsort calls differs'
        else:
            for tr, s in zip(trace, it['sort']):
                mv = [dec_pair(p, qc) for p in tr]
                iv = [float(x) for x in s['inp'].ravel()]
                if qc and all(math.isnan(x) for x in iv):
                    continue        # q_max = 0: numpy divides 0/0 (NaN); a field has no value for it
                if len(mv) != len(iv) or not all(close(a, b, tol) for a, b in zip(mv, iv)):
                    why = 'norms handed to argsort differ'
                    break
                # the replayed permutation must sort the model's own norms (argsort contract on the model side)
                perm = s['out']
                if sorted(perm) != list(range(len(mv))):
                    why = 'recorded argsort output is not a permutation'
                    break
                if not any(math.isnan(x) for x in mv):
                    if any(mv[perm[j]] > mv[perm[j + 1]] + tol * max(1.0, abs(mv[perm[j]])) for j in range(len(perm) - 1)):
                        why = 'recorded argsort output does not sort the model norms'
                        break
        if why is None and it.get('orth_bad'):
            why = 'recorded orthogonalize call violates its contract: ' + it['orth_bad']
        it['model'] = [table, trace]
        if why:
            bad.append(dict(stream=name, why=why, input=it['input'], model=table, impl=it['table']))
    R.corr.append(dict(name=name, cases=len(items), mismatches=len(bad),
                       comparison='index table exact; norms handed to argsort %g; replayed permutation sorts model norms' % tol,
                       distribution=distribution, first_mismatches=bad[:3]))
    if items:
        R.samples.append(dict(stream=name, input=items[0]['input'], model=items[0]['model'][0], impl=items[0]['table']))
    return bad


def correspondence(R, ctx):
    tn = C.import_teneva()
    rng = ctx['rng']
    bad = []
    A, B = _beam_cases(tn, rng, ctx['thorough'])
    dist = lambda items: dict(cases=len(items), shapes=sorted({str(it['input']['ns']) for it in items}),
                              kinds=sorted({it['input']['kind'] for it in items}),
                              k_range=[min(it['input']['k'] for it in items), max(it['input']['k'] for it in items)])
    bad += _check_beam(R, 'beam_float_replay', A, False, 1e-9, dist(A))
    bad += _check_beam(R, 'beam_Qc_exact', B, True, 1e-12, dist(B))
    Cc, sk = _pipeline_cases(tn, rng, ctx['thorough'])
    bad += _check_pipeline(R, 'optima_tt_pipeline', Cc, sk, dict(cases=len(Cc), shapes=sorted({str(it['input']['ns']) for it in Cc})))
    D, sk = _qtt_cases(tn, rng, ctx['thorough'])
    bad += _check_pipeline(R, 'optima_qtt', D, sk, dict(cases=len(D), malformed=sum(1 for it in D if 'err' in it)))
    Fc = _func_cases(tn, rng, ctx['thorough'])
    bad += _check_func(R, 'optima_func_points', Fc, dict(cases=len(Fc), shapes=sorted({str(it['input']['ns']) for it in Fc}),
                                                          constant_poly=sum(1 for it in Fc if 1 in it['input']['ns'])))
    Fr = _func_r1_cases(tn, rng, ctx['thorough'])
    bad += _check_func_r1(R, 'optima_func_rank1', Fr, dict(cases=len(Fr), shapes=sorted({str(it['input']['ns']) for it in Fr})))
    return bad


def margins_ok(sorts, rel=1e-6):
    """every vector handed to argsort is free of NaN and of near-ties (relative margin)"""
    for srec in sorts:
        v = sorted(float(x) for x in srec['inp'].ravel())
        if any(math.isnan(x) for x in v):
            return False
        sc = max(1e-300, abs(v[-1]))
        if any(v[j + 1] - v[j] <= rel * sc for j in range(len(v) - 1)):
            return False
    return True


def p2_lit(orths, d):
    """2**(p / d) as a function of p, for the exponents that occur in the recorded calls"""
    t = 'nan'
    for pp in sorted({o['p'] for o in orths}):
        t = f'if Z.eqb p ({pp})%Z then {F(2 ** (pp / d))} else {t}'
    return f'(fun (p : Z) (_ : nat) => {t})'


def far(a, b, rel=1e-6):
    return abs(a - b) > rel * max(abs(a), abs(b), 1e-300)


def _tt_case(tn, rng, Y, k):
    """one optima_tt run with recorders; returns None when a decision of the run is within 1e-6 of a tie"""
    d = len(Y)
    with Rec(tn) as rec:
        r = tn.optima_tt(copy_tt(Y), k)
        if len(rec.orth) != 4 or len(rec.sort) != 4 * (d - 1) or len(rec.const) != 1:
            return dict(broken='unexpected oracle call counts %d %d %d' % (len(rec.orth), len(rec.sort), len(rec.const)))
        Zs = rec.orth[2]['inp']
        cand = [[tn.optima_tt_beam(copy_tt(T), k, l2r=b) for b in (True, False)] for T in (Y, Zs)]
    if not margins_ok(rec.sort):
        return None
    for T, (ia, ib) in zip((Y, Zs), cand):
        ya, yb = float(tn.get(T, ia)), float(tn.get(T, ib))
        if list(ia) != list(ib) and not far(abs(ya), abs(yb)):
            return None
    i_min, y_min, i_max, y_max = r
    if list(i_min) != list(i_max) and not far(float(y_min), float(y_max)):
        return None
    return dict(rec=rec, r=r, Zs=Zs)


DIRECTION_FAMILY = [
    [[[[3.0, 0.0], [0.0, 2.0]]], [[[3.0, 1.0, 0.0], [-2.0, -1.0, -3.0], [-3.0, -2.0, 0.0]], [[-2.0, -1.0, 2.0], [0.0, 3.0, 2.0], [3.0, -1.0, 0.0]]],
     [[[1.0], [3.0], [0.0]], [[1.0], [-1.0], [1.0]], [[1.0], [0.0], [1.0]]]],
    [[[[-2.0, 2.0], [0.0, -1.0]]], [[[-3.0, 2.0, 1.0]], [[-1.0, 2.0, 3.0]]], [[[-1.0, -3.0]], [[-2.0, 1.0]], [[-2.0, 2.0]]],
     [[[-3.0], [-3.0], [0.0]], [[0.0], [1.0], [0.0]]]],
    [[[[-3.0, 1.0, -1.0]]], [[[1.0, 3.0, 2.0], [-2.0, 3.0, 3.0]], [[-1.0, -3.0, -1.0], [0.0, -1.0, 0.0]], [[2.0, -1.0, -3.0], [-3.0, 1.0, 0.0]]],
     [[[1.0, -3.0], [1.0, 1.0], [3.0, 2.0]], [[1.0, 3.0], [3.0, -3.0], [-2.0, 3.0]], [[-3.0, -1.0], [-1.0, -2.0], [1.0, 3.0]]],
     [[[0.0], [-2.0], [3.0]], [[1.0], [2.0], [-3.0]]]],
]


def _pipeline_cases(tn, rng, thorough):
    """stream C: optima_tt end to end (float; reference argsort inside the model; orthogonalize, 2**(p/d) and the
    d-th root replayed), plus the dense 'squared shifted' tensor of the model."""
    items, skipped = [], 0

    def add(ns, rs, Y, ks):
        nonlocal skipped
        for k in ks:
            c = _tt_case(tn, rng, Y, k)
            if c is None:
                skipped += 1
                continue
            if 'broken' in c:
                items.append(dict(coq='(([] : list (list nat)), ([] : list (list (Z * Z))))', broken=c['broken'],
                                  input=dict(stream='C', ns=ns, rs=rs, k=k, Y=[G.tolist() for G in Y])))
                continue
            rec, r = c['rec'], c['r']
            d = len(Y)
            rho = float(rec.const[0]['out'][0][0, 0, 0])
            env = (f'let ort := {orth_lit(rec.orth, F, "float")} in let p2 := {p2_lit(rec.orth, d)} in '
                   f'let dr := (fun (_ : float) (_ : nat) => {F(rho)}) in let Y := {tt_lit(Y, F)} in ')
            coq = (f'({env} let r := optima_tt OF sortF ort p2 dr 0 0 Y {k} in '
                   f'let y1 := snd (optima_tt_max OF sortF ort p2 0 0 Y {k}) in '
                   f'show4D r (map (get OF (shifted_sq OF dr Y y1)) (allidx {Nl(ns)})))')
            items.append(dict(coq=coq, r=[np.asarray(r[0]).tolist(), float(r[1]), np.asarray(r[2]).tolist(), float(r[3])],
                              dense=tn.full(c['Zs']).ravel().tolist(),
                              orth_bad=[orth_contract(tn, o) for o in rec.orth],
                              input=dict(stream='C', ns=ns, rs=rs, k=k, Y=[G.tolist() for G in Y])))
    # fixed family: the two sweep directions find entries of different modulus at k = 1 (left-to-right better in the first
    # and the last tensor, right-to-left better in the second), so "best of both directions" is exercised
    for cores in DIRECTION_FAMILY:
        Y = [np.array(G, dtype=float) for G in cores]
        add([G.shape[1] for G in Y], [1] + [G.shape[2] for G in Y], Y, [1])
    # adversarial family: block plus isolated peak (positive, negated, and in the thorough tier sign-mixed), every k up to N/4:
    # the pruned first search misses the entry of maximum modulus, the second search finds it
    for ns, bs in MISLEADING_SMALL + (MISLEADING_MORE[:2] if thorough else []):
        for lv in (MISLEADING_LEVELS if thorough else MISLEADING_LEVELS[:2]):
            Y = misleading_tt(rng, ns, bs, *lv)
            add(ns, [1] + [3] * (len(ns) - 1) + [1], Y, list(range(1, max(2, nelem(Y) // 4) + 1)))
    # scale family (exact powers of two): a maximum modulus below the 1e-16 threshold of teneva.const, and large scales
    for pw in ((-63, -100, -498, 63, 332) if thorough else (-63, -100, 100)):
        ns, rs = rand_shape(rng, dmax=3, nmax=3, rmax=2, nelem=18)
        Y = rand_tt(rng, ns, rs, 'float')
        Y[0] = Y[0] * 2.0 ** pw
        add(ns, rs, Y, [nelem(Y), nelem(Y) + 1, 2])
    n_t = 60 if thorough else 14
    while len(items) < (400 if thorough else 120) and n_t > 0:
        n_t -= 1
        ns, rs = rand_shape(rng, dmax=4, nmax=3, rmax=2, nelem=24)
        Y = rand_tt(rng, ns, rs, 'float')
        if rng.random() < 0.3:       # one-signed tensors (all negative / all positive entries)
            Y = [np.abs(G) for G in Y]
            if rng.random() < 0.5:
                Y[0] = -Y[0]
        N = nelem(Y)
        add(ns, rs, Y, sorted(set([1, 2, N, N + 1] + [rng.randint(1, N) for _ in range(3)])))
    return items, skipped


def _qtt_cases(tn, rng, thorough):
    """stream D: optima_qtt (tt_to_qtt, orthogonalize, 2**(p/d), d-th root replayed; reference argsort in the model),
    and the three rejection branches."""
    items, skipped = [], 0
    todo = [(2, 1), (2, 2), (3, 1), (2, 1), (3, 1), (2, 2)] + ([(3, 2), (2, 3), (4, 1), (2, 2)] if thorough else [])
    todo = [t + (None, None) for t in todo]
    # lossy quantisation (coarse e, rank cap r): the recorded QTT tensor is replayed, so the model follows it; the ordering swap
    # after the re-evaluation on Y (commit 285e9fd) is exercised
    todo += [(2, 2, 0.1, 1), (3, 1, 0.3, 1), (2, 2, 0.05, 2), (2, 2, 0.2, 1), (3, 1, 0.1, 1)] + ([(2, 3, 0.1, 1), (3, 2, 0.1, 2)] if thorough else [])
    for d, q, e_, r_ in todo:
        n = 2 ** q
        rs = [1] + [rng.randint(1, 2) for _ in range(d - 1)] + [1]
        Y = rand_tt(rng, [n] * d, rs, 'float')
        N = nelem(Y)
        for k in sorted(set([1, 2, N + 1, rng.randint(1, N)])):
            with Rec(tn) as rec:
                r = tn.optima_qtt(copy_tt(Y), k) if e_ is None else tn.optima_qtt(copy_tt(Y), k, e_, r_)
            if len(rec.qtt) != 1 or len(rec.orth) != 4 or len(rec.const) != 1:
                items.append(dict(coq='(([] : list (list nat)), ([] : list (list (Z * Z))))', broken='oracle call counts',
                                  input=dict(stream='D', d=d, q=q, k=k, Y=[G.tolist() for G in Y])))
                continue
            Zq = rec.qtt[0]['out']
            # value-preservation contract of tt_to_qtt (C17) on this call, and the tie filter on the QTT tensor
            A = tn.full(Y).ravel()
            Bq = np.array([tn.get(Zq, np.asarray(tn.ind_tt_to_qtt(list(i), n))) for i in itertools.product(range(n), repeat=d)])
            qtt_bad = None if np.max(np.abs(A - Bq)) <= 1e-9 * max(1e-300, np.max(np.abs(A))) else 'tt_to_qtt changed the values'
            if e_ is not None:
                qtt_bad = None          # lossy on purpose: no value-preservation contract
            c = _tt_case(tn, rng, Zq, k)
            if c is not None and not far(float(r[1]), float(r[3])) and np.asarray(r[0]).tolist() != np.asarray(r[2]).tolist():
                c = None                # the swap decision is within rounding
            if c is None:
                skipped += 1
                continue
            dq = len(Zq)
            rho = float(rec.const[0]['out'][0][0, 0, 0])
            env = (f'let ort := {orth_lit(rec.orth, F, "float")} in let p2 := {p2_lit(rec.orth, dq)} in '
                   f'let dr := (fun (_ : float) (_ : nat) => {F(rho)}) in let Y := {tt_lit(Y, F)} in '
                   f'let tq := (fun (_ : list (core float)) => {tt_lit(Zq, F)}) in ')
            items.append(dict(coq=f'({env} show4RF (optima_qtt OF sortF ort p2 dr tq 0 0 Y {k}))',
                              r=[np.asarray(r[0]).tolist(), float(r[1]), np.asarray(r[2]).tolist(), float(r[3])],
                              orth_bad=[orth_contract(tn, o) for o in rec.orth] + [qtt_bad], ok=True,
                              input=dict(stream='D', d=d, q=q, k=k, e=e_, r=r_, Y=[G.tolist() for G in Y])))
    # rejection branches: unequal mode sizes, not a power of two, mode size 1
    for ns in ([2, 4], [4, 4, 2], [3, 3], [6, 6], [5, 5, 5], [1, 1], [1, 1, 1], [12, 12]):
        Y = rand_tt(rng, ns, [1] + [2] * (len(ns) - 1) + [1], 'float')
        got = C.call_impl(tn.optima_qtt, copy_tt(Y), 3)
        dr = '(fun (x : float) (_ : nat) => x)'
        items.append(dict(coq=(f'(show4RF (optima_qtt OF sortF dummyorth (fun _ _ => 1%float) {dr} (fun Y => Y) 0 0 '
                               f'{tt_lit(Y, F)} 3))'), err=got[0], ok=False,
                          input=dict(stream='D', ns=ns, k=3, malformed=True, Y=[G.tolist() for G in Y])))
    return items, skipped


def _check_pipeline(R, name, items, skipped, distribution):
    vals = C.run_cases(f'C15_{name}', HEADER, [it['coq'] for it in items], chunk=12)
    bad = []
    for it, (idx, num) in zip(items, vals):
        R.add_distinct((name, it['input']))
        why = None
        if 'broken' in it:
            why = it['broken']
        elif 'err' in it:
            if idx != [[it['err']]]:
                why = 'rejection differs: model %r, implementation error code %r' % (idx, it['err'])
        else:
            if it.get('ok'):
                if idx[:1] != [[0]]:
                    why = 'model rejects, implementation accepts'
                idx = idx[1:]
            if why is None:
                r = it['r']
                ys = [C.float_of_show(p) for p in num[0]]
                sc = max(abs(r[1]), abs(r[3]), 1e-300)
                if idx != [r[0], r[2]]:
                    why = 'returned multi-indices differ'
                elif not (close(ys[0], r[1], 1e-9, sc) and close(ys[1], r[3], 1e-9, sc)):
                    why = 'returned values differ'
                elif 'dense' in it:
                    dm = [C.float_of_show(p) for p in num[1]]
                    sc = max([abs(x) for x in it['dense']] + [1e-300])
                    if len(dm) != len(it['dense']) or not all(abs(a - b) <= 1e-9 * sc for a, b in zip(dm, it['dense'])):
                        why = 'squared shifted tensor differs'
                if why is None and any(it.get('orth_bad') or []):
                    why = 'recorded oracle call violates its contract: %r' % [x for x in it['orth_bad'] if x]
        it['model'] = [idx, num[:1]]
        if why:
            bad.append(dict(stream=name, why=why, input=it['input'], model=[idx, num[:1]], impl=it.get('r', it.get('err'))))
    R.corr.append(dict(name=name, cases=len(items), mismatches=len(bad), skipped_near_ties=skipped,
                       comparison='multi-indices exact, values 1e-9 relative, dense squared-shifted tensor 1e-9; '
                                  'error class exact on the malformed inputs',
                       distribution=distribution, first_mismatches=bad[:3]))
    if items:
        R.samples.append(dict(stream=name, input=items[0]['input'], model=items[0]['model'], impl=items[0].get('r')))
    return bad



# ----------------------------------------------------------------------------------------------
# functional variant: model Model/OptimaFunc.v (candidate points, selection, assembly of the points)
# ----------------------------------------------------------------------------------------------

class RecFunc:
    """records, per mode s: the polynomial handed to every _find_poly_max call, the numerically real roots that
    polyroots returned for it (None when polyroots was not called), the argsort inside it, and the argsort over all_y"""

    def __init__(self, tn):
        import sys
        self.G = tn.optima_func_tt_beam.__globals__     # the namespace this teneva instance really uses (survives re-imports)
        self.tn = tn

    def __enter__(self):
        G_ = self.G
        self.steps, self.orth = [], []
        self._orth = self.tn.orthogonalize
        self._step, self._fpm, self._roots, self._sort = G_['_step_top_k'], G_['_find_poly_max'], np.polynomial.polynomial.polyroots, np.argsort
        rec = self

        def orth(Y, *a, **kw):
            out = rec._orth(Y, *a, **kw)
            if isinstance(out, list):
                rec.orth.append(copy_tt(out))
            return out
        self.tn.orthogonalize = orth

        def step(*a, **kw):
            rec.steps.append(dict(cands=[], sort2=None, y=None))
            return rec._step(*a, **kw)

        def fpm(p, *a, **kw):
            rec.steps[-1]['cands'].append(dict(p=[float(c) for c in p], roots=None, sort1=None, vals=None))
            return rec._fpm(p, *a, **kw)

        def roots(dp):
            out = rec._roots(dp)
            x0 = np.asarray(out)
            rec.steps[-1]['cands'][-1]['roots'] = [float(x) for x in x0[np.abs(np.imag(x0)) < 1e-4].real]
            return out

        def argsort(a, *args, **kw):
            out = rec._sort(a, *args, **kw)
            st = rec.steps[-1]
            c = st['cands'][-1] if st['cands'] else None
            if c is not None and c['sort1'] is None:
                c['sort1'], c['vals'] = np.asarray(out).tolist(), [float(x) for x in np.asarray(a, dtype=float).ravel()]
            else:
                st['sort2'], st['y'] = np.asarray(out).tolist(), [float(x) for x in np.asarray(a, dtype=float).ravel()]
            return out
        G_['_step_top_k'], G_['_find_poly_max'] = step, fpm
        np.polynomial.polynomial.polyroots, np.argsort = roots, argsort
        self._w = warnings.catch_warnings()
        self._w.__enter__()
        warnings.simplefilter('ignore')
        self._e = np.seterr(all='ignore')
        return self

    def __exit__(self, *a):
        G_ = self.G
        G_['_step_top_k'], G_['_find_poly_max'] = self._step, self._fpm
        np.polynomial.polynomial.polyroots, np.argsort = self._roots, self._sort
        self.tn.orthogonalize = self._orth
        np.seterr(**self._e)
        self._w.__exit__(*a)
        return False


def Fl(xs):
    return '[' + '; '.join(F(x) for x in xs) + ']'


def _func_cases(tn, rng, thorough):
    items = []
    shapes = [([1, 3], [1, 1, 1]), ([3, 1], [1, 2, 1]), ([2, 2], [1, 1, 1]), ([1, 1], [1, 1, 1]), ([3, 2, 1], [1, 2, 1, 1])]
    for _ in range(30 if thorough else 9):
        d = rng.randint(2, 3)
        shapes.append(([rng.randint(1, 4) for _ in range(d)], [1] + [rng.randint(1, 2) for _ in range(d - 1)] + [1]))
    # rank-2 coefficient tensors that are exactly even in every mode (sums of two even rank-1 terms): critical points exactly at 0
    ev = [[0.75, 0.0, -0.25], [1.0, 0.0, -0.5, 0.0, 0.1], [0.625, 0.0, -0.5, 0.0, -0.125], [0.5, 0.0, 0.5], [-0.2, 0.0, 0.9]]
    fixed = [sum_rank1([(1.0, [ev[0], ev[3][:3]]), (0.7, [ev[4], ev[0]])], 2),
             sum_rank1([(1.0, [ev[1], ev[0], ev[2]]), (-0.4, [ev[2], ev[4], ev[1]])], 3)]
    tensors = [([G.shape[1] for G in A], [G.shape[0] for G in A] + [1], A) for A in fixed] + \
              [(ns, rs, rand_tt(rng, ns, rs, 'float')) for ns, rs in shapes]
    for ns, rs, A in tensors:
        for k, k_loc in [(1, None), (3, None), (4, 2)]:
            d = len(ns)
            inp = dict(stream='F', ns=ns, rs=rs, k=k, k_loc=k_loc, A=[G.tolist() for G in A], func=True)
            try:
                Aobj = copy_tt(A)       # ONE object for both calls (history); it must come back unchanged
                with RecFunc(tn) as rec:
                    X = np.asarray(tn.optima_func_tt_beam(Aobj, k, k_loc, ret_all=True), dtype=float)
                    x0 = np.asarray(tn.optima_func_tt_beam(Aobj, k, k_loc), dtype=float)
                if not _same_arg(Aobj, A, None):
                    raise RuntimeError('optima_func_tt_beam modified its argument')
            except Exception as e:  # noqa
                items.append(dict(coq='(([] : list (list nat)), ([] : list (list (Z * Z))))', broken='implementation raised ' + repr(e)[:200], input=inp))
                continue
            steps = rec.steps[:d]
            polys = '[' + '; '.join('[' + '; '.join(Fl(c['p']) for c in st['cands']) + ']' for st in steps) + ']'
            rts = '[' + '; '.join('[' + '; '.join(Fl(c['roots'] or []) for c in st['cands']) + ']' for st in steps) + ']'
            s1 = '[' + '; '.join(NNl([c['sort1'] or [] for c in st['cands']]) for st in steps) + ']'
            s2 = NNl([st['sort2'] or [] for st in steps])
            coq = (f'(let rts := (fun s i (_ : list float) => nth i (nth s {rts} []) []) in '
                   f'let as1 := (fun s i (_ : list float) => nth i (nth s {s1} []) []) in '
                   f'let as2 := (fun s (_ : list float) => nth s {s2} []) in '
                   f'showFn rts as1 as2 {polys} {d} {k} {k if k_loc is None else k_loc})')
            items.append(dict(coq=coq, X=X.tolist(), x0=x0.tolist(), steps=steps, input=inp))
    return items


def _check_func(R, name, items, distribution):
    vals = C.run_cases(f'C15_{name}', HEADER, [it['coq'] for it in items], chunk=12)
    bad = []
    for it, (_, rows) in zip(items, vals):
        R.add_distinct((name, it['input']))
        why = None
        if 'broken' in it:
            why = it['broken']
        else:
            cut = rows.index([]) if [] in rows else len(rows)
            Xm = [[C.float_of_show(p) for p in r] for r in rows[:cut]]
            tr = [[C.float_of_show(p) for p in r] for r in rows[cut + 1:]]
            iv = [c for st in it['steps'] for c in st['cands']]
            if Xm != it['X']:
                why = 'returned points differ'
            elif (Xm[0] if Xm else None) != it['x0']:
                why = 'ret_all=False result is not the first point'
            elif any(not (-1.0 <= x <= 1.0) for r in it['X'] for x in r):
                why = 'returned point outside the cube'
            elif len(tr) != len(iv):
                why = 'number of _find_poly_max calls differs'
            else:
                for mv, c in zip(tr, iv):
                    sc = max([abs(x) for x in c['vals']] + [1e-300])
                    if len(mv) != len(c['vals']) or not all(abs(a - b) <= 1e-9 * sc for a, b in zip(mv, c['vals'])):
                        why = 'candidate values handed to argsort differ'
                        break
            it['model'] = Xm
        if why:
            bad.append(dict(stream=name, why=why, input=it['input'], model=it.get('model'), impl=it.get('X')))
    R.corr.append(dict(name=name, cases=len(items), mismatches=len(bad),
                       comparison='returned points exact (polyroots, argsort and the squared partial interpolants replayed); '
                                  'candidate values handed to argsort 1e-9',
                       distribution=distribution, first_mismatches=bad[:3]))
    if items:
        R.samples.append(dict(stream=name, input=items[0]['input'], model=items[0].get('model'), impl=items[0].get('X')))
    return bad


def _func_r1_cases(tn, rng, thorough):
    """rank-1 coefficient tensors: the fully modelled path func_step_r1.  The factor f_s handed to the model is cheb2poly of
    the orthogonalised core with the sqrt(2) scaling of the first coefficient undone; polyroots and both argsorts are replayed."""
    items = []
    shapes = [[1, 3], [3, 1], [2, 2], [3, 3], [2, 3, 2], [4, 1, 3], [3, 4]]
    for _ in range(24 if thorough else 7):
        shapes.append([rng.randint(1, 5) for _ in range(rng.randint(2, 4))])
    tensors = [([G.shape[1] for G in A], A) for _, A in structured_func_tensors()] + \
              [([G.shape[1] for G in A], A) for A in aliased_tensors(rng)[0]] + \
              [(ns, rand_tt(rng, ns, [1] * (len(ns) + 1), 'float')) for ns in shapes]
    for ns, A in tensors:
        d = len(ns)
        for k, k_loc in ([(1, None), (3, None)] if len(items) < 2 * len(structured_func_tensors()) else [(1, None), (2, 1), (3, None), (5, 2)]):
            inp = dict(stream='R1', ns=ns, k=k, k_loc=k_loc, A=[G.tolist() for G in A], func=True)
            try:
                Aobj = form_alias(A)    # equal cores are ONE array object; the same list is used a second time below
                with RecFunc(tn) as rec:
                    X = np.asarray(tn.optima_func_tt_beam(Aobj, k, k_loc, ret_all=True), dtype=float)
                    X2 = np.asarray(tn.optima_func_tt_beam(Aobj, k, k_loc, ret_all=True), dtype=float)
                if X2.tolist() != X.tolist() or not _same_arg(Aobj, A, form_alias):
                    raise RuntimeError('optima_func_tt_beam: second call on the same object differs / argument modified')
            except Exception as e:  # noqa
                items.append(dict(coq='(([] : list (list nat)), ([] : list (list (Z * Z))))', broken='implementation raised ' + repr(e)[:200], input=inp))
                continue
            # the factor handed to the model comes from the ORIGINAL coefficient core: for rank 1 orthogonalize only rescales, so
            # Z_s must be lam_s times (A_s with its first coefficient times sqrt 2) and f_s = lam_s * cheb2poly(A_s)
            Z = rec.orth[0]
            fs, pre_bad = [], None
            for Gz, Ga in zip(Z, A):
                z, a0 = np.array(Gz[0, :, 0], dtype=float), np.array(Ga[0, :, 0], dtype=float)
                bq = a0.copy()
                bq[0] *= 2 ** 0.5
                lam = float(z @ bq) / float(bq @ bq) if float(bq @ bq) > 0 else 0.0
                if np.max(np.abs(z - lam * bq)) > 1e-9 * max(float(np.max(np.abs(z))), 1e-300):
                    pre_bad = 'the orthogonalised core is not a multiple of the sqrt(2)-scaled coefficient core of the argument'
                fs.append([float(x) for x in lam * np.polynomial.chebyshev.cheb2poly(a0)])
            steps = rec.steps[:d]
            rts = '[' + '; '.join('[' + '; '.join(Fl(c['roots'] or []) for c in st['cands']) + ']' for st in steps) + ']'
            s1 = '[' + '; '.join(NNl([c['sort1'] or [] for c in st['cands']]) for st in steps) + ']'
            s2 = NNl([st['sort2'] or [] for st in steps])
            coq = (f'(let rts := (fun s i (_ : list float) => nth i (nth s {rts} []) []) in '
                   f'let as1 := (fun s i (_ : list float) => nth i (nth s {s1} []) []) in '
                   f'let as2 := (fun s (_ : list float) => nth s {s2} []) in '
                   f'showR1 rts as1 as2 [{"; ".join(Fl(f) for f in fs)}] {k} {k if k_loc is None else k_loc})')
            items.append(dict(coq=coq, X=X.tolist(), polys=[c['p'] for st in steps for c in st['cands']], pre_bad=pre_bad, input=inp))
    return items


def _check_func_r1(R, name, items, distribution):
    vals = C.run_cases(f'C15_{name}', HEADER, [it['coq'] for it in items], chunk=12)
    bad = []
    for it, (_, rows) in zip(items, vals):
        R.add_distinct((name, it['input']))
        why = None
        if 'broken' in it:
            why = it['broken']
        else:
            cut = rows.index([]) if [] in rows else len(rows)
            Xm = [[C.float_of_show(p) for p in r] for r in rows[:cut]]
            tr = [[C.float_of_show(p) for p in r] for r in rows[cut + 1:]]
            if it.get('pre_bad'):
                why = it['pre_bad']
            elif Xm != it['X']:
                why = 'returned points differ'
            elif len(tr) != len(it['polys']):
                why = 'number of _find_poly_max calls differs'
            else:
                # numpy trims trailing zero coefficients (a partial interpolant that vanishes gives [0.0]) and the scalar g of the
                # model carries its own rounding: pad with zeros, tolerance relative to the largest coefficient of the run
                sc = max([abs(x) for ip in it['polys'] for x in ip] + [1e-300])
                for mp, ip in zip(tr, it['polys']):
                    m = max(len(mp), len(ip))
                    mp, ip = mp + [0.0] * (m - len(mp)), ip + [0.0] * (m - len(ip))
                    if not all(abs(a - b) <= 1e-9 * sc for a, b in zip(mp, ip)):
                        why = 'squared partial interpolant (g f_s)^2 differs from the polynomial handed to _find_poly_max'
                        break
            it['model'] = Xm
        if why:
            bad.append(dict(stream=name, why=why, input=it['input'], model=it.get('model'), impl=it.get('X')))
    R.corr.append(dict(name=name, cases=len(items), mismatches=len(bad),
                       comparison='returned points exact (polyroots and argsort replayed); polynomials (g f_s)^2 of the model vs the '
                                  'coefficient lists handed to _find_poly_max 1e-9',
                       distribution=distribution, first_mismatches=bad[:3]))
    if items:
        R.samples.append(dict(stream=name, input=items[0]['input'], model=items[0].get('model'), impl=items[0].get('X')))
    return bad

# ----------------------------------------------------------------------------------------------
# property-level oracle on the implementation (independent of the model): brute force on the dense tensor
# ----------------------------------------------------------------------------------------------

# argument forms (the property quantifies over inputs, not over their representation)
def form_tuple(T):
    return tuple(np.array(G, dtype=float) for G in T)


def form_int(T):
    return [np.array(G).astype(int) for G in T]


def form_fortran(T):
    return [np.asfortranarray(np.array(G, dtype=float)) for G in T]


def form_float32(T):
    return [np.array(G, dtype=np.float32) for G in T]


def kform_int64(k):
    return np.int64(k)


def kform_int32(k):
    return np.int32(k)


def form_alias(T):
    """cores that are equal arrays become ONE array object used in several positions of the list ([G]*d, [A, G, G, B])"""
    out = []
    for G in T:
        G = np.array(G, dtype=float)
        for H in out:
            if H.shape == G.shape and np.array_equal(H, G):
                out.append(H)
                break
        else:
            out.append(G)
    return out


FORMS = dict(form_alias=form_alias, form_tuple=form_tuple, form_int=form_int, form_fortran=form_fortran, form_float32=form_float32)
KFORMS = dict(kform_int64=kform_int64, kform_int32=kform_int32)


def _argmaker(Y, k, form, kform, shared):
    """-> (mk, kk, obj): mk() yields the tensor argument of the next call (a fresh one, or always the same object when
    shared), kk the candidate count in the requested integer type, obj the shared object (None when not shared)"""
    build = (lambda: form(Y)) if form else (lambda: copy_tt(Y))
    kk = kform(k) if kform else k
    if shared:
        obj = build()
        return (lambda: obj), kk, obj
    return build, kk, None


def _same_arg(obj, Y, form):
    ref = form(Y) if form else copy_tt(Y)
    return len(obj) == len(ref) and all(np.asarray(a).dtype == np.asarray(b).dtype and np.array_equal(np.asarray(a), np.asarray(b))
                                        for a, b in zip(obj, ref))


def _quiet(f, *a, **k):
    with warnings.catch_warnings():
        warnings.simplefilter('ignore')
        old = np.seterr(all='ignore')
        try:
            return f(*a, **k)
        finally:
            np.seterr(**old)


def _value_is_entry(tn, Y, i, y):
    """'values equal the tensor entries at the returned indices', exactly: every routine returns teneva.get(Y, i) itself, so the
    value must reproduce it bitwise (1e-14 relative is tolerated)"""
    ref = float(_quiet(tn.get, copy_tt(Y), np.asarray(i)))
    y = float(y)
    return y == ref or abs(y - ref) <= 1e-14 * max(abs(ref), abs(y))


def _inb(i, ns):
    i = np.asarray(i)
    return i.ndim == 1 and len(i) == len(ns) and all(int(a) == a and 0 <= int(a) < n for a, n in zip(i, ns))


def _oracle_tt(tn, Y, k, rank1=None, form=None, kform=None, shared=False):
    """all clauses of C15 that concern optima_tt_beam / optima_tt_max / optima_tt on one (Y, k);
    returns a failure dict or None"""
    ns = [G.shape[1] for G in Y]
    N = int(np.prod(ns))
    Fd = _quiet(tn.full, Y)
    sc = max(float(np.max(np.abs(Fd))), 1e-300)
    tol = 1e-9 * sc
    exact = (k >= N) or (rank1 if rank1 is not None else all(G.shape[0] == 1 and G.shape[2] == 1 for G in Y))
    inp = dict(Y=[np.asarray(G, dtype=float).tolist() for G in Y], k=k, form=getattr(form, '__name__', None),
               kform=getattr(kform, '__name__', None), shared=shared)
    mk, kk, obj = _argmaker(Y, k, form, kform, shared)

    def fail(what, got=None, expected=None):
        return dict(what=what, input=inp, got=got, expected=expected)
    stage = 'max-modulus'
    # known finding K2: the entries are so small / large that (Y - y1)^2 leaves the normal double range (underflow to 0 or
    # overflow to inf): only the second pass of optima_tt is affected, the maximum-modulus search itself is right
    out_of_range = (sc * sc < 2.3e-308) or not np.isfinite(4.0 * sc * sc)
    try:
        # beam, both directions, single result and whole table
        for l2r in (True, False):
            i = _quiet(tn.optima_tt_beam, mk(), kk, l2r=l2r)
            if not _inb(i, ns):
                return fail('optima_tt_beam returns a multi-index outside the tensor bounds (l2r=%s)' % l2r, np.asarray(i).tolist(), ns)
            Ia = np.asarray(_quiet(tn.optima_tt_beam, mk(), kk, l2r=l2r, ret_all=True))
            if Ia.ndim != 2 or not all(_inb(r, ns) for r in Ia):
                return fail('optima_tt_beam(ret_all) returns rows outside the tensor bounds (l2r=%s)' % l2r, Ia.tolist(), ns)
            if len(Ia) > k or len({tuple(r) for r in Ia.tolist()}) != len(Ia):
                return fail('optima_tt_beam(ret_all) returns more than k rows or repeated rows (l2r=%s)' % l2r, Ia.tolist(), k)
            if list(Ia[0]) != list(np.asarray(i)):
                return fail('optima_tt_beam: single result is not the first row of the table', np.asarray(i).tolist(), Ia[0].tolist())
            if exact and abs(abs(Fd[tuple(int(a) for a in i)]) - sc) > tol and np.max(np.abs(Fd)) > 0:
                return fail('optima_tt_beam misses the maximum modulus although %s (l2r=%s)'
                            % ('k >= number of elements' if k >= N else 'the tensor has rank 1', l2r),
                            float(Fd[tuple(int(a) for a in i)]), sc)
        i, y = _quiet(tn.optima_tt_max, mk(), kk)
        if not _inb(i, ns):
            return fail('optima_tt_max returns a multi-index outside the tensor bounds', np.asarray(i).tolist(), ns)
        if abs(float(y) - Fd[tuple(int(a) for a in i)]) > tol or not _value_is_entry(tn, Y, i, y):
            return fail('optima_tt_max value is not the tensor entry at the returned index', float(y), float(Fd[tuple(int(a) for a in i)]))
        if exact and abs(abs(float(y)) - float(np.max(np.abs(Fd)))) > tol:
            return fail('optima_tt_max misses the maximum modulus', float(y), float(np.max(np.abs(Fd))))
        for l2r in (True, False):       # best of both sweep directions
            ib = _quiet(tn.optima_tt_beam, mk(), kk, l2r=l2r)
            if abs(float(y)) < abs(float(Fd[tuple(int(a) for a in ib)])) - tol:
                return fail('optima_tt_max returns a smaller modulus than the beam of one sweep direction (l2r=%s)' % l2r,
                            float(y), float(Fd[tuple(int(a) for a in ib)]))
        stage = 'optima_tt'
        i_min, y_min, i_max, y_max = _quiet(tn.optima_tt, mk(), kk)
        if not (_inb(i_min, ns) and _inb(i_max, ns)):
            return fail('optima_tt returns a multi-index outside the tensor bounds', [np.asarray(i_min).tolist(), np.asarray(i_max).tolist()], ns)
        if abs(float(y_min) - Fd[tuple(int(a) for a in i_min)]) > tol or abs(float(y_max) - Fd[tuple(int(a) for a in i_max)]) > tol \
                or not (_value_is_entry(tn, Y, i_min, y_min) and _value_is_entry(tn, Y, i_max, y_max)):
            return fail('optima_tt values are not the tensor entries at the returned indices',
                        [float(y_min), float(y_max)], [float(Fd[tuple(int(a) for a in i_min)]), float(Fd[tuple(int(a) for a in i_max)])])
        if not (float(y_min) <= float(y_max)):
            return fail('optima_tt reports y_min > y_max', [float(y_min), float(y_max)])
        if exact and (abs(float(y_min) - float(Fd.min())) > tol or abs(float(y_max) - float(Fd.max())) > tol):
            f = fail('optima_tt misses the true minimum / maximum although %s'
                     % ('k >= number of elements' if k >= N else 'the tensor has rank 1'),
                     [float(y_min), float(y_max)], [float(Fd.min()), float(Fd.max())])
            # known finding K1: rank-1 input, k < N, the maximum-modulus optimum is right and only the opposite-sign one
            # (found by the second beam on the squared shifted tensor of rank up to 4) is wrong.  Anything else stays a violation.
            r1 = all(G.shape[0] == 1 and G.shape[2] == 1 for G in Y)
            big, big_true = ((y_max, Fd.max()) if abs(float(y_max)) >= abs(float(y_min)) else (y_min, Fd.min()))
            if out_of_range and abs(abs(float(big)) - sc) <= tol and abs(float(big) - float(big_true)) <= tol:
                f['what'] = ('optima_tt: the squared shifted tensor (Y - y1)^2 leaves the normal double range, the opposite-sign optimum '
                             'is not the true one')
                f['finding_key'] = 'C15/optima_tt-squared-shift-underflow'
            elif r1 and k < N and abs(abs(float(big)) - sc) <= tol and abs(float(big) - float(big_true)) <= tol:
                f['what'] = ('optima_tt on a rank-1 tensor with k < number of elements: the opposite-sign optimum (second beam on '
                             'the squared shifted tensor) is not the true one')
                f['finding_key'] = 'C15/rank1-minmax-second-beam'
            return f
    except Exception as e:  # noqa
        f = fail('optimum search raised on a valid tensor: ' + repr(e)[:200])
        if out_of_range and stage == 'optima_tt' and isinstance(e, (OverflowError, ValueError, FloatingPointError)):
            f['what'] = 'optima_tt raises: the squared shifted tensor (Y - y1)^2 overflows the double range: ' + repr(e)[:120]
            f['finding_key'] = 'C15/optima_tt-squared-shift-underflow'
        return f
    if obj is not None and not _same_arg(obj, Y, form):
        return fail('the optimum search modified its argument (repeated calls on the same tensor object)')
    return None


def _oracle_qtt(tn, Y, k, form=None, kform=None, shared=False, e=None, r=None, truncating=False):
    ns = [G.shape[1] for G in Y]
    n = ns[0]
    q = n.bit_length() - 1
    N = int(np.prod(ns))
    Fd = _quiet(tn.full, Y)
    sc = max(float(np.max(np.abs(Fd))), 1e-300)
    tol = 1e-9 * sc
    inp = dict(Y=[np.asarray(G, dtype=float).tolist() for G in Y], k=k, qtt=True, form=getattr(form, '__name__', None),
               kform=getattr(kform, '__name__', None), shared=shared, e=e, r=r, truncating=truncating)
    ea = () if e is None else ((e,) if r is None else (e, r))      # e is the ABSOLUTE accuracy of the quantisation (default 1e-12)
    mk, kk, obj = _argmaker(Y, k, form, kform, shared)

    def fail(what, got=None, expected=None):
        return dict(what=what, input=inp, got=got, expected=expected)
    try:
        i_min, y_min, i_max, y_max = _quiet(tn.optima_qtt, mk(), kk, *ea)
        if not (_inb(i_min, ns) and _inb(i_max, ns)):
            return fail('optima_qtt returns a multi-index outside the tensor bounds', [np.asarray(i_min).tolist(), np.asarray(i_max).tolist()], ns)
        if abs(float(y_min) - Fd[tuple(int(a) for a in i_min)]) > tol or abs(float(y_max) - Fd[tuple(int(a) for a in i_max)]) > tol \
                or not (_value_is_entry(tn, Y, i_min, y_min) and _value_is_entry(tn, Y, i_max, y_max)):
            return fail('optima_qtt values are not the tensor entries at the returned indices', [float(y_min), float(y_max)])
        if float(y_min) > float(y_max):
            return fail('optima_qtt reports y_min > y_max', [float(y_min), float(y_max)])
        # agreement with optima_tt on the quantised tensor, indices mapped back (little-endian bits, by hand)
        Zq = _quiet(tn.tt_to_qtt, copy_tt(Y), 1.E-12 if e is None else e, 100 if r is None else r)
        b_min, _, b_max, _ = _quiet(tn.optima_tt, Zq, k)
        back = lambda b: [sum(int(b[j * q + t]) << t for t in range(q)) for j in range(len(ns))]
        e_min, e_max = back(b_min), back(b_max)
        if float(_quiet(tn.get, copy_tt(Y), np.asarray(e_min))) > float(_quiet(tn.get, copy_tt(Y), np.asarray(e_max))):
            e_min, e_max = e_max, e_min         # re-ordered after the re-evaluation on Y (only a lossy quantisation gets here)
        if e_min != np.asarray(i_min).tolist() or e_max != np.asarray(i_max).tolist():
            return fail('optima_qtt does not agree with optima_tt on the quantised tensor after mapping indices back',
                        [np.asarray(i_min).tolist(), np.asarray(i_max).tolist()], [e_min, e_max])
        # a coarse e / a rank cap make the quantisation lossy: the indices may then be suboptimal, only the clauses above apply
        if k >= N and not truncating and (abs(float(y_min) - float(Fd.min())) > tol or abs(float(y_max) - float(Fd.max())) > tol):
            return fail('optima_qtt misses the true minimum / maximum although k >= number of elements',
                        [float(y_min), float(y_max)], [float(Fd.min()), float(Fd.max())])
        if shared:      # history: a second call on the same object must give the same answer
            j_min, z_min, j_max, z_max = _quiet(tn.optima_qtt, mk(), kk, *ea)
            if np.asarray(j_min).tolist() != np.asarray(i_min).tolist() or np.asarray(j_max).tolist() != np.asarray(i_max).tolist():
                return fail('optima_qtt: a second call on the same tensor object gives a different result',
                            [np.asarray(j_min).tolist(), np.asarray(j_max).tolist()], [np.asarray(i_min).tolist(), np.asarray(i_max).tolist()])
    except Exception as e:  # noqa
        return fail('optima_qtt raised on a valid power-of-two tensor: ' + repr(e)[:200])
    if obj is not None and not _same_arg(obj, Y, form):
        return fail('optima_qtt modified its argument (repeated calls on the same tensor object)')
    return None


def _cheb_dense(A, m=401):
    """values of the rank-1 interpolant factors on a fine grid: list of arrays p_j(grid)"""
    g = np.cos(np.linspace(0, np.pi, m))
    return g, [np.polynomial.chebyshev.chebval(g, G[0, :, 0]) for G in A]


def _oracle_func(tn, A, k, k_loc=None, form=None, kform=None, shared=False, reps=1):
    """functional variant on a rank-1 coefficient tensor: point in the cube, maximum modulus vs a fine grid; with shared=True
    the same tensor object is handed to `reps` consecutive calls and every call is judged against the saved copy"""
    inp = dict(A=[np.asarray(G, dtype=float).tolist() for G in A], k=k, k_loc=k_loc, func=True, form=getattr(form, '__name__', None),
               kform=getattr(kform, '__name__', None), shared=shared, reps=reps)
    d = len(A)
    mk, kk, obj = _argmaker(A, k, form, kform, shared)
    Af = [np.asarray(G, dtype=float) for G in A]
    g, Pg = _cheb_dense(Af)
    best = float(np.prod([np.max(np.abs(p)) for p in Pg]))
    for rep in range(reps):
        try:
            x = np.asarray(_quiet(tn.optima_func_tt_beam, mk(), kk, k_loc), dtype=float)
        except Exception as e:  # noqa
            return dict(what='optima_func_tt_beam raises on a rank-1 coefficient tensor' + (' (call %d on the same object)' % (rep + 1) if rep else ''),
                        input=inp, got=repr(e)[:200])
        if x.shape != (d,) or not np.all(np.isfinite(x)) or np.any(x < -1) or np.any(x > 1):
            return dict(what='optima_func_tt_beam returns a point outside the cube [-1, 1]^d', input=inp, got=x.tolist())
        val = float(np.prod([np.polynomial.chebyshev.chebval(xx, G[0, :, 0]) for xx, G in zip(x, Af)]))
        if abs(val) < best * (1 - 1e-6) - 1e-300:
            return dict(what='optima_func_tt_beam: the interpolant does not attain its maximum modulus at the returned point'
                             + (' (call %d on the same tensor object)' % (rep + 1) if rep else ''),
                        input=inp, got=[x.tolist(), abs(val)], expected=best)
    if obj is not None and not _same_arg(obj, A, form):
        return dict(what='optima_func_tt_beam modified its argument', input=inp)
    return None



def _oracle_cross(tn, A, k):
    """one tensor object used by the functional variant, then by optima_tt, then by the functional variant again"""
    inp = dict(A=[G.tolist() for G in A], k=k, func=True, cross=True)
    obj = copy_tt(A)
    try:
        x1 = np.asarray(_quiet(tn.optima_func_tt_beam, obj, k), dtype=float)
        r = _quiet(tn.optima_tt, obj, k)
        x2 = np.asarray(_quiet(tn.optima_func_tt_beam, obj, k), dtype=float)
        ref = _quiet(tn.optima_tt, copy_tt(A), k)
    except Exception as e:  # noqa
        return dict(what='optimum search raised on a valid tensor (functional variant and optima_tt on one object): ' + repr(e)[:160], input=inp)
    if x1.tolist() != x2.tolist():
        return dict(what='optima_func_tt_beam gives a different point when called again on the same tensor object', input=inp,
                    got=x2.tolist(), expected=x1.tolist())
    if np.asarray(r[0]).tolist() != np.asarray(ref[0]).tolist() or np.asarray(r[2]).tolist() != np.asarray(ref[2]).tolist():
        return dict(what='optima_tt gives a different result on a tensor object that optima_func_tt_beam used before', input=inp,
                    got=[np.asarray(r[0]).tolist(), np.asarray(r[2]).tolist()], expected=[np.asarray(ref[0]).tolist(), np.asarray(ref[2]).tolist()])
    if not _same_arg(obj, A, None):
        return dict(what='the optimum search modified its argument', input=inp)
    return None


def _oracle_order(tn, Y, k):
    """the clauses that hold for EVERY k: indices in bounds, values are the entries there, reported minimum <= reported maximum,
    optima_tt_max value is an entry and at least as large in modulus as either sweep direction"""
    ns = [G.shape[1] for G in Y]
    Fd = _quiet(tn.full, Y)
    tol = 1e-9 * max(float(np.max(np.abs(Fd))), 1e-300)
    inp = dict(Y=[G.tolist() for G in Y], k=k, order_only=True)
    fail = lambda what, got=None, expected=None: dict(what=what, input=inp, got=got, expected=expected)
    try:
        i, y = _quiet(tn.optima_tt_max, copy_tt(Y), k)
        if not _inb(i, ns):
            return fail('optima_tt_max returns a multi-index outside the tensor bounds', np.asarray(i).tolist(), ns)
        if abs(float(y) - Fd[tuple(int(a) for a in i)]) > tol or not _value_is_entry(tn, Y, i, y):
            return fail('optima_tt_max value is not the tensor entry at the returned index', float(y), float(Fd[tuple(int(a) for a in i)]))
        i_min, y_min, i_max, y_max = _quiet(tn.optima_tt, copy_tt(Y), k)
        if not (_inb(i_min, ns) and _inb(i_max, ns)):
            return fail('optima_tt returns a multi-index outside the tensor bounds', [np.asarray(i_min).tolist(), np.asarray(i_max).tolist()], ns)
        if abs(float(y_min) - Fd[tuple(int(a) for a in i_min)]) > tol or abs(float(y_max) - Fd[tuple(int(a) for a in i_max)]) > tol \
                or not (_value_is_entry(tn, Y, i_min, y_min) and _value_is_entry(tn, Y, i_max, y_max)):
            return fail('optima_tt values are not the tensor entries at the returned indices',
                        [float(y_min), float(y_max)], [float(Fd[tuple(int(a) for a in i_min)]), float(Fd[tuple(int(a) for a in i_max)])])
        if not (float(y_min) <= float(y_max)):
            return fail('optima_tt reports y_min > y_max', [float(y_min), float(y_max)])
    except Exception as e:  # noqa
        return fail('optimum search raised on a valid tensor: ' + repr(e)[:200])
    return None


def _search_tensors(rng, deep):
    """degenerate families first, then random structured tensors"""
    out = []
    one = lambda v: np.array(v, dtype=float).reshape(1, -1, 1)
    # rank 1: sign patterns, ties, zeros, constants
    out += [('rank1-signs', [one([1, -2, 2]), one([-1, 1])]), ('rank1-ties', [one([2, 2, -2]), one([3, -3]), one([1, 1])]),
            ('rank1-zeros', [one([0, 1, -2]), one([0, 3])]), ('rank1-allneg', [one([-1, -1, -2]), one([1, 3])]),
            ('rank1-allpos', [one([1, 4, 2]), one([1, 3]), one([2, 5])]), ('zero', [one([0, 0]), one([0, 0, 0])]),
            ('zero-r2', [np.zeros((1, 2, 2)), np.zeros((2, 3, 1))]),
            ('rank1-onezero-mode', [one([0, 0]), one([1, 2])]), ('n1', [one([3]), one([-2])]), ('n1-mid', [one([1, -2]), one([2]), one([1, 3])])]
    # known finding K1 (C15/rank1-minmax-second-beam): k = 1 reports the maximum 9 instead of 12
    out.append(('rank1-known-K1', [one([1, -2, 1]), one([-3, 1]), one([2, -3, -2])]))
    for ns in ([2, 3], [2, 2, 2], [3, 1, 2], [4, 4]):
        for v in (5.0, -5.0, 1.0, -0.25, 1e-20, 0.0):
            out.append(('const', [np.full((1, n, 1), 1.0) for n in ns[:-1]] + [np.full((1, ns[-1], 1), v)]))
    # constant tensor of rank 2 (sum of two equal rank-1 terms) and one-signed tensors of higher rank
    out.append(('const-r2', [np.ones((1, 2, 2)), np.array([[[1.], [1.]], [[2.], [2.]]])]))
    for _ in range(40 if deep else 8):
        ns, rs = rand_shape(rng, nelem=36)
        kind = rng.choice(['int', 'int2', 'pos', 'float'])
        Y = rand_tt(rng, ns, rs, kind)
        if kind == 'pos' and rng.random() < 0.5:
            Y[-1] = -Y[-1]
        out.append((kind, Y))
    for _ in range(30 if deep else 6):
        ns, _ = rand_shape(rng, nelem=60, nmax=5)
        kind = rng.choice(['int', 'int2', 'float', 'pos'])
        Y = rand_tt(rng, ns, [1] * (len(ns) + 1), kind)
        if rng.random() < 0.3:
            Y[rng.randrange(len(Y))] *= -1
        out.append(('rank1-' + kind, Y))
    return out


def search(R, ctx, deep, hints):
    tn = C.import_teneva()
    rng = ctx['rng']
    fails, n_eval = [], 0
    seen = set()

    def push(f):
        if f and f['what'] not in seen:
            seen.add(f['what'])
            fails.append(f)
    fam = {}
    # hints from the correspondence first
    cand = []
    for h in hints[:20]:
        inp = h.get('input', {})
        if 'Y' in inp and 'k' in inp:
            cand.append(('hint', [np.array(G, dtype=float) for G in inp['Y']], [inp['k']]))
    for name, Y in _search_tensors(rng, deep):
        N = nelem(Y)
        ks = sorted(set([1, 2, 3, max(1, N - 1), N, N + 1, 100] + ([rng.randint(1, N) for _ in range(4)] if deep else [])))
        cand.append((name, Y, ks))
    for name, Y, ks in cand:
        ns = [G.shape[1] for G in Y]
        for k in ks:
            n_eval += 1
            fam[name] = fam.get(name, 0) + 1
            push(_oracle_tt(tn, Y, k))
        if len(set(ns)) == 1 and ns[0] >= 2 and ns[0] & (ns[0] - 1) == 0 and len(ns) * (ns[0].bit_length() - 1) <= 8:
            for k in ks[:3] + [nelem(Y) + 1]:
                n_eval += 1
                fam['qtt'] = fam.get('qtt', 0) + 1
                push(_oracle_qtt(tn, Y, k))
    # one-signed tensors with exact zeros: every k, all clauses (rank 1: exact for every k; rank 2: exact for k >= N)
    for name, Y in zero_onesigned_tensors():
        for k in range(1, nelem(Y) + 2):
            n_eval += 1
            fam[name] = fam.get(name, 0) + 1
            push(_oracle_tt(tn, Y, k))
    # block plus isolated peak, its negation and sign-mixed variants: every k from 1 to N/4, the clauses that hold for every k;
    # all clauses at k = N
    for ns, bs in MISLEADING_SMALL + MISLEADING_MORE:
        for lv in MISLEADING_LEVELS:
            Y = misleading_tt(rng, ns, bs, *lv)
            N = nelem(Y)
            for k in range(1, max(2, N // 4) + 1):
                n_eval += 1
                fam['misleading'] = fam.get('misleading', 0) + 1
                push(_oracle_order(tn, Y, k))
            n_eval += 1
            push(_oracle_tt(tn, Y, N))
    one = lambda v: np.array(v, dtype=float).reshape(1, -1, 1)
    base = [('r1', [one([1, -2, 1.5]), one([-3, 1]), one([2, -3, -2.5])]), ('r2', rand_tt(rng, [3, 2, 3], [1, 2, 2, 1], 'int2')),
            ('r2f', rand_tt(rng, [2, 3, 2], [1, 2, 2, 1], 'float')), ('q', rand_tt(rng, [4, 4], [1, 2, 1], 'int2')),
            ('q3', rand_tt(rng, [2, 2, 2], [1, 2, 2, 1], 'float'))]
    isq = lambda Y: len({G.shape[1] for G in Y}) == 1 and Y[0].shape[1] in (2, 4)
    # (a) HISTORY: every routine is called repeatedly on ONE tensor object (beam l2r/r2l, ret_all, optima_tt_max, optima_tt in a
    # row; optima_qtt twice; the functional variant three times; the functional variant again after optima_tt used the object);
    # every call is judged against the dense reference of a saved copy and the argument must be unchanged afterwards
    for name, Y in base:
        N = nelem(Y)
        for k in (1, 2, N):
            n_eval += 1
            fam['history'] = fam.get('history', 0) + 1
            push(_oracle_tt(tn, Y, k, shared=True))
        if isq(Y):
            n_eval += 1
            push(_oracle_qtt(tn, Y, N + 1, shared=True))
    hist_func = [[one([0.3, -1.2, 0.7]), one([0.5, 0.25, -1.0])], [one([1.0, 0.5]), one([-0.4, 0.9, 0.3]), one([0.2, -0.7])],
                 [np.array([rng.uniform(-1, 1) for _ in range(n)]).reshape(1, n, 1) for n in (4, 3)]]
    for A in hist_func:
        for k in (1, 3):
            n_eval += 1
            fam['history'] = fam.get('history', 0) + 1
            push(_oracle_func(tn, A, k, None, shared=True, reps=3))
            push(_oracle_cross(tn, A, k))
    # (b) SCALE: exact powers of two (the dense reference scales exactly); rank 1 with any k for the maximum modulus, k >= N for
    # everything.  Ranges: optima_tt squares the shifted entries, so 2^-498 .. 2^498 (1e-150 .. 1e150; outside: known finding K2);
    # optima_qtt with the DEFAULT e = 1e-12 (an absolute accuracy) only for scales >= 1, with an adequate e at every scale (below).
    for pw in (-63, -100, -498, 63, 100, 332, 498):
        for name, Y in base:
            Ys = copy_tt(Y)
            Ys[0] = Ys[0] * 2.0 ** pw
            N = nelem(Ys)
            for k in ([1, 2, N, N + 1] if name == 'r1' else [N, N + 1]):
                n_eval += 1
                fam['scale'] = fam.get('scale', 0) + 1
                push(_oracle_tt(tn, Ys, k))
            if isq(Ys) and pw > 0:
                n_eval += 1
                fam['scale'] = fam.get('scale', 0) + 1
                push(_oracle_qtt(tn, Ys, N + 1))
    # optima_qtt with an ADEQUATE accuracy: e is the absolute accuracy of tt_to_qtt (default 1e-12), so for a scaled tensor the
    # caller passes e = 0 or e = 1e-12 * min(1, scale); then k >= N must give the true minimum / maximum at every scale
    for pw in (-498, -100, -63, -20, 0, 63, 100, 332, 498):
        for name, Y in base:
            if not isq(Y):
                continue
            Ys = copy_tt(Y)
            Ys[0] = Ys[0] * 2.0 ** pw
            # tt_to_qtt applies e to every TT-core separately (absolute); the scale sits in the first core only, so an adequate e
            # is 1e-12 times the smaller of 1 and the scale
            for e in (0.0, 1e-12 * min(1.0, 2.0 ** pw)):
                for k in (nelem(Ys), nelem(Ys) + 1):
                    n_eval += 1
                    fam['scale-qtt-e'] = fam.get('scale-qtt-e', 0) + 1
                    push(_oracle_qtt(tn, Ys, k, e=e))
    # known finding K2 (C15/optima_tt-squared-shift-underflow): fixed regression inputs, underflow (2^-996: wrong opposite-sign
    # optimum) and overflow (2^600: optima_tt raises); the oracle tags exactly this family
    for pw in (-996, 600):
        Ys = copy_tt(base[0][1])
        Ys[0] = Ys[0] * 2.0 ** pw
        n_eval += 1
        fam['scale-K2'] = fam.get('scale-K2', 0) + 1
        push(_oracle_tt(tn, Ys, nelem(Ys) + 1))
    # (c) ARGUMENT FORMS: tuple instead of list, integer dtype cores, Fortran-ordered cores, numpy integer k
    for name, Y in base[:2] + base[3:4]:
        N = nelem(Y)
        for fname, form in (('form_tuple', form_tuple), ('form_int', form_int), ('form_fortran', form_fortran)):
            if fname == 'form_int' and not all(np.all(G == np.round(G)) for G in Y):
                continue
            for kname, kform in ((None, None), ('kform_int64', kform_int64), ('kform_int32', kform_int32)):
                for k in (2, N + 1):
                    n_eval += 1
                    fam['forms'] = fam.get('forms', 0) + 1
                    push(_oracle_tt(tn, Y, k, form=form, kform=kform))
                if isq(Y):
                    n_eval += 1
                    push(_oracle_qtt(tn, Y, N + 1, form=form, kform=kform))
    for A in hist_func[:2]:
        for form in (form_tuple, form_fortran):
            for kform in (None, kform_int64):
                n_eval += 1
                fam['forms'] = fam.get('forms', 0) + 1
                push(_oracle_func(tn, A, 3, None, form=form, kform=kform))
    # LARGE misleading tensors (N = 512 .. 1331 > the default k = 100): k = 101, 150 (clauses that hold for every k) and k = N, N + 1
    # (everything: an explicit k > 100 must reach BOTH searches of optima_tt)
    for ns, bs in BIG_SHAPES:
        big = [misleading_tt(rng, ns, bs, *MISLEADING_LEVELS[0]), misleading_tt(rng, ns, bs, *MISLEADING_LEVELS[1])] + \
              [hidden_tt(rng, ns, bs, *lv) for lv in HIDDEN_LEVELS]
        for Y in big:
            N = nelem(Y)
            for k in (101, 150):
                n_eval += 1
                fam['big'] = fam.get('big', 0) + 1
                push(_oracle_order(tn, Y, k))
            for k in (N, N + 1):
                n_eval += 1
                fam['big'] = fam.get('big', 0) + 1
                push(_oracle_tt(tn, Y, k))
    # optima_qtt with a LOSSY quantisation (coarse e, rank cap r): indices in bounds, values EXACTLY the entries of Y at the
    # returned indices, min <= max, agreement with optima_tt on the same quantised tensor; every k
    # first the fixed regression input of the repaired defect (commit 285e9fd): optima_qtt(Y, 1, 0.1, 1) returned
    # i_min=[2,3], y_min=3.0, i_max=[3,3], y_max=1.0
    lossy = [[np.array([[[2, -3], [1, 0], [3, 3], [-1, -2]]], dtype=float), np.array([[[2], [-1], [2], [3]], [[-3], [-2], [1], [-2]]], dtype=float)],
             rand_tt(rng, [4, 4], [1, 2, 1], 'float'), rand_tt(rng, [2, 2, 2], [1, 2, 2, 1], 'float'),
             rand_tt(rng, [4, 4, 4], [1, 3, 3, 1], 'float'), rand_tt(rng, [8, 8], [1, 3, 1], 'float')]
    for Y in lossy:
        for e in (1e-1, 1e-2, 1e-4):
            for r in (1, 2, 100):
                for k in (1, 3, nelem(Y) + 1):
                    n_eval += 1
                    fam['qtt-lossy'] = fam.get('qtt-lossy', 0) + 1
                    push(_oracle_qtt(tn, Y, k, e=e, r=r, truncating=True))
    # ALIASED arguments: the same array object in several positions ([G]*d, [A, G, G, B])
    al_func, al_tt = aliased_tensors(rng)
    for A in al_func:
        for k, k_loc in [(1, None), (3, None), (5, 2)]:
            n_eval += 1
            fam['alias'] = fam.get('alias', 0) + 1
            push(_oracle_func(tn, A, k, k_loc, form=form_alias))
        push(_oracle_alias(tn, A, 3, func=True))
    for Y in al_tt:
        N = nelem(Y)
        for k in (1, 2, N):
            n_eval += 1
            fam['alias'] = fam.get('alias', 0) + 1
            push(_oracle_tt(tn, Y, k, form=form_alias))
            push(_oracle_alias(tn, Y, k))
        if len({G.shape[1] for G in Y}) == 1 and Y[0].shape[1] in (2, 4):
            n_eval += 1
            push(_oracle_qtt(tn, Y, N + 1, form=form_alias))
    # quantised variant on power-of-two shapes
    for _ in range(24 if deep else 6):
        d, q = rng.choice([(2, 1), (2, 2), (3, 1), (3, 2), (2, 3), (4, 1)])
        rs = [1] + [rng.randint(1, 3) for _ in range(d - 1)] + [1]
        Y = rand_tt(rng, [2 ** q] * d, rs, rng.choice(['float', 'int', 'pos']))
        for k in [1, 3, nelem(Y), nelem(Y) + 1]:
            n_eval += 1
            fam['qtt'] = fam.get('qtt', 0) + 1
            push(_oracle_qtt(tn, Y, k))
    # functional variant, rank-1 coefficient tensors
    nfun = 0
    # fixed regression inputs (repaired defect F11: constant polynomial handed to polyroots): a mode of size 1, and a
    # kept candidate at which the partial interpolant vanishes exactly (first mode linear, k = 3)
    col = lambda v: np.array(v, dtype=float).reshape(1, -1, 1)
    for A, k in [([col([1, 1, 1]), col([1])], 3), ([col([1]), col([0.5, -1, 2])], 2), ([col([2]), col([-3])], 1),
                 ([col([0.12573022, -0.13210486]), col([0.64042265, 0.10490012])], 3),
                 ([col([0.34558419, 0.82161814]), col([0.33043708, -1.30315723])], 3),
                 ([col([1, 2]), col([1, -4]), col([0, 1, 1])], 5), ([col([0, 1]), col([1, 1])], 3)]:
        n_eval += 1
        nfun += 1
        push(_oracle_func(tn, A, k, None))
    for t in range(60 if deep else 16):
        d = rng.randint(2, 4)
        ns = [rng.randint(1 if t % 4 == 0 else 2, 6) for _ in range(d)]
        A = [np.array([rng.uniform(-1, 1) for _ in range(n)]).reshape(1, n, 1) for n in ns]
        for k, k_loc in [(1, None), (3, None), (5, 2), (10, None)]:
            n_eval += 1
            nfun += 1
            push(_oracle_func(tn, A, k, k_loc))
    for name, A in structured_func_tensors():
        for k, k_loc in [(1, None), (3, None), (5, 2)]:
            n_eval += 1
            nfun += 1
            fam['func-structured'] = fam.get('func-structured', 0) + 1
            push(_oracle_func(tn, A, k, k_loc))
    fam['func-rank1'] = nfun
    R.search.append(dict(name='brute force on the dense tensor / fine grid', evaluations=n_eval, failures=len(fails), deep=deep,
                         families=fam))
    # ./check reports a broken proof / correspondence only when the search returns nothing; the known finding must not
    # mask it: when something else is broken, hand back only the failures that are not the known finding
    broken = (R.build_ok is False) or bool(R.forbidden) or any(not o.get('ok') for o in R.obligations) or \
        any(c.get('mismatches') for c in R.corr)
    if broken:
        fails = [f for f in fails if not f.get('finding_key')]
    return fails


def replay(data):
    tn = C.import_teneva()
    p = data['payload']
    inp = p.get('input', {})
    print(data['what'])
    f = None
    fk = dict(form=FORMS.get(inp.get('form')), kform=KFORMS.get(inp.get('kform')), shared=bool(inp.get('shared')))
    if inp.get('alias'):
        T = [np.array(G, dtype=float) for G in inp.get('A', inp.get('Y'))]
        f = _oracle_alias(tn, T, inp['k'], func=bool(inp.get('func')))
        print('replayed:', f)
        return 1 if f else 0
    if 'A' in inp and inp.get('cross'):
        f = _oracle_cross(tn, [np.array(G, dtype=float) for G in inp['A']], inp['k'])
    elif 'A' in inp:
        f = _oracle_func(tn, [np.array(G, dtype=float) for G in inp['A']], inp['k'], inp.get('k_loc'), reps=inp.get('reps', 1), **fk)
    elif 'Y' in inp and inp.get('qtt'):
        f = _oracle_qtt(tn, [np.array(G, dtype=float) for G in inp['Y']], inp['k'], e=inp.get('e'), r=inp.get('r'), truncating=bool(inp.get('truncating')), **fk)
    elif 'Y' in inp and inp.get('order_only'):
        f = _oracle_order(tn, [np.array(G, dtype=float) for G in inp['Y']], inp['k'])
    elif 'Y' in inp:
        f = _oracle_tt(tn, [np.array(G, dtype=float) for G in inp['Y']], inp['k'], **fk)
    else:
        print('no failing input recorded (broken proof / correspondence):', p.get('broken'))
        return 1
    print('replayed:', f)
    return 1 if f else 0
