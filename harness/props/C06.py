"""C06 — TT-cross honours its evaluation budget, index domain and stop contract."""
import numpy as np

from harness import common as C
from harness import lib_cross as L

THEOREMS = 'Properties/C06.v'
CLAIM = dict(
    text='Coq theorems (Properties/C06.v, 19 theorems + 6 non-vacuity examples) about the small-step model Model/Cross.v of '
         'teneva.cross (whole driver: argument validation, _func Kronecker batches, both branches of _func_eval, cache, '
         '_maxvol wrapper, _iter index update, both pre-iteration passes, both half sweeps with their early-return '
         'branches, post-sweep block, _info_appr), for every dimension d >= 1, mode sizes, ranks, rank-growth window, '
         'objective (incl. None at any call), callback, budget, initial cache and numeric kernel, proved by one '
         'inductive invariant (Proofs/CrossInvC.v: Inv = geometry + control + accounting + request domain + progress) '
         'over every reachable state: '
         '[C06_requests_in_domain(_anytime)] every request assembled by _func and every batch handed to the objective is '
         'a non-empty list of pairwise distinct rows of width d with entry k < n_k; '
         '[C06_budget(_anytime), C06_asked_within_budget] info.m = number of indices handed to the objective in calls that returned values, '
         'info.m <= m_max, everything ever handed to the objective (incl. the batch of a call answered None) fits into m_max, number of calls, info.m_cache = number of requested indices served from the cache; '
         '[C06_budget_nocache_anytime] without cache every requested index is handed over, m_cache = 0; '
         '[C06_budget_cache_anytime] with cache (objective returning arrays of the requested length) each request is '
         'split exactly into known indices (initial cache or evaluated earlier) and new ones, only the new ones reach '
         'the objective, so every index is evaluated at most once and never if initially cached; the cache holds exactly '
         'the initial keys + evaluated indices, each with the value returned for it; '
         '[C06_stop_contract, C06_stop_e, C06_stop_priority, C06_hit_spec, C06_stop_func_m_iff, C06_nswp_bound] a finished run reports '
         'exactly one reason: m => budget set, newest request refused because m + new indices > m_max, objective not '
         'called for it; func <=> newest request is a call that returned None (nothing is requested after a None or a '
         'refusal); nswp => info.nswp = nswp exactly (never more sweeps than nswp); e => 0 <= info.e <= e finite; '
         'e_vld => 0 <= info.e_vld <= e_vld finite for the reported value, or (partial, see note) the criterion was met '
         'right after the pre-iteration; cb => the callback returned true for this sweep and conv did not fire; conv => '
         'm_cache > scale*m; priority e_vld > e > nswp after at least one sweep; '
         '[C06_interrupted_wf] at every exit (normal, budget / None at any call of either half sweep, callback) the '
         'result has d cores of the original mode sizes, boundary ranks 1, matching neighbour ranks; '
         '[C06_args_rejected] missing criteria => ValueError, independent of the objective; '
         '[C06_terminates_nswp / _m / _m_nocache] the run returns within fuel > nswp sweeps, within fuel > (scale+1)*m '
         'sweeps when a positive budget m is given (with or without cache, whatever the objective answers), within '
         'fuel > m without cache. '
         '[C06_e_only_never_returns] KNOWN FINDING C06/zero-objective-e-only-never-stops, proved on the model: with e as the '
         'only stop argument (no budget / nswp / e_vld / callback / cache), an objective that always answers and an accuracy '
         'value that never meets the criterion (the sentinel -1 of accuracy for the zero tensor; _info_appr needs info.e >= 0) '
         'the run never returns, for every fuel; on the implementation the search exhibits the finite witness (identical '
         'complete loop state at the end of three consecutive sweeps, info.e = -1, no stop pending) for the regression input '
         'cross(zeros, rand([3,3,3], 1, seed=1), e=1e-6) and a family around it (d 2..4, with / without cache, e together '
         'with m / nswp must stop normally); any other non-terminating combination is a violation. '
         'The model is tied to cross.py / utils.py by exact replay of the recorded _maxvol picks / erank / accuracy '
         'values on every run: same sequence of requests and batches, counters, stop reason, sweep count, cache '
         'contents, core shapes; plus fault enumeration (every budget, every None position, every callback sweep), a '
         'stream with several criteria met by the same sweep, and a degenerate-objective family (delta tensor, '
         'block-sparse, identically zero, zero unless i_0 = 0; with / without cache, dr_min 0..2, d 2..4, small budgets) '
         'on which the maxvol contract is validated on every recorded call (a miss breaks the check) and the '
         'independent recount oracle runs (distinct rows per batch, each index evaluated at most once, info.m = recount).',
    note='Partial / runtime-only parts: (1) the numeric payload of cores is opaque in the model (theorems hold for every '
         'numeric kernel), so "finite entries" of the result is checked at run time only (search oracle). (2) e_vld '
         'pending from the pre-iteration: when e_vld is already met after the pre-iteration the driver still evaluates '
         'one batch, folds the unit factor into core 0 and recomputes info.e_vld; the theorem then states the threshold '
         'for the value computed on the tensor entering the first sweep, the equality of the recomputed number with it '
         'is a numeric fact checked at run time (oracle: reported e_vld <= threshold). (3) for runs with only e / e_vld '
         'termination is not a property of the code: theorems speak about cross_m fuel = Ok s. (4) the maxvol contract '
         '(valid, distinct rows, count within the dr window) is a hypothesis (property C08), validated on every '
         'recorded call. (5) the cache theorems assume the objective returns arrays of the requested length (Python '
         'raises IndexError otherwise; the model truncates). (6) Cross-cutting families run in correspondence and search: argument '
         'forms (m as int / float / np.int64 / np.int32 / np.float64; nswp, dr_min, dr_max, e, e_vld, k0, m_cache_scale as NumPy '
         'scalars; Y0 F-ordered / strided / int64 cores / tuple; objective returning list / tuple / float32 / int array / column '
         'vector; objective scribbling on the batch it is handed (without cache); info / cache passed vs omitted; I_vld / y_vld '
         'as lists / int32) each compared with its canonical twin; histories of 2-3 calls on the same Y0 / info / cache objects '
         '(also the module-level default info), each call judged against a recount from the cache contents at its entry, Y0 '
         'bit-identical; edges (budget = cumulative batch size -1 / 0 / +1, m = 1, nswp 0 / 1, mode size 1, d = 2, saturated '
         'ranks with dr_min >= 1, e equal to a reported value and one ulp below / above, objective x 2^-1000..2^500, Y0 x '
         '2^-300..2^100). The callback stops the run iff its answer is TRUE-ish '
         '(True / 1 / np.bool_(True) / non-empty list / non-empty str / non-zero np.float64 stop; False / 0 / np.bool_(False) / '
         'None / empty str / 0.0 do not): strict part of correspondence and search since the repair d12f1ba (`if cb(...)`); the '
         'model callback is the truthiness of the answer. Documented exclusions: an objective that modifies its batch in place '
         'WITH a cache is user misuse (cross raises KeyError, _func_eval reads I_new after the call) - observation only, enabled '
         'by VERIF_C06_STRICT_FORMS=1; exact rescalings are kept within 2^+-500 (objective; down to 2^-1000) and 2^-150..2^100 per '
         'core (Y0; 2^150 per core already overflows for d = 4): beyond that teneva.accuracy / core_stab overflow (root cause of the C04 / C16 known findings) and cross '
         'raises OverflowError, which is outside the clauses of C06.',
    technique='Coq proof (inductive invariant over a small-step machine, schedule of the program counter, progress '
              'measure m + m_cache) + exact replay correspondence + fault enumeration (every budget / every None '
              'position / every callback sweep) + independent recount oracle on the implementation')
TRUSTED = ['Coq 8.16.1 kernel + vm_compute (case evaluation only)',
           'hand-written model Model/Cross.v tied to cross.py / utils.py by exact replay correspondence',
           'maxvol / maxvol_rect contract: row numbers valid, pairwise distinct, count in [r+dr_min, min(n, r+dr_max)] '
           '(validated on every recorded call)',
           'numpy semantics of kron / hstack / reshape(order=F) / fancy indexing as transcribed in batch / inew',
           'harness recorders on teneva._maxvol, teneva.erank, teneva.accuracy, teneva.accuracy_on_data, '
           'teneva.cross._func_eval (module attributes, looked up at call time)']
ASSUMPTIONS = ['Y0 is a well-formed TT-tensor with d >= 1, mode sizes >= 1, ranks >= 1',
               'the objective returns an array of the requested length or None',
               'the callback does not modify Y / info']
TIME_LIMIT = {'quick': 900, 'thorough': 5400}


# ------------------------------------------------------------------------------------------------ correspondence

def _item(tn, cfg, tag):
    o = L.run_impl(tn, cfg)
    return dict(coq=L.coq_term(cfg, o), impl=L.impl_result(cfg, o), input=[tag, L.describe(cfg)], _o=o)


def _check_maxvol_contract(cfg, o, main_from):
    """validate the oracle contract on every recorded _maxvol call (tall case)"""
    bad = []
    for k, (pk, (shpA, args, shpB)) in enumerate(zip(o['rec']['picks'], o['rec']['mv_args'])):
        N, r = shpA
        if k < main_from:
            drmin = drmax = 0
        else:
            drmin, drmax = cfg['dr_min'], cfg['dr_max']
        if N <= r:
            ok = pk == list(range(N))
        else:
            dmax = min(drmax, N - r)
            dmin = min(drmin, dmax)
            ok = (r + dmin <= len(pk) <= r + dmax and len(set(pk)) == len(pk) and all(0 <= x < N for x in pk))
        if not ok:
            bad.append(dict(call=k, shape=[N, r], pick=pk, dr=[drmin, drmax]))
    return bad


def fault_family(tn, cfg0, every=1):
    """every budget, every None position, every callback sweep for one configuration (nswp-bounded)"""
    base = dict(cfg0, m=None, kNone=None, kcb=None)
    try:
        o = L.run_impl(tn, base)
    except L.TooLong:
        return [base]          # the caller runs it again and records "run did not stop"
    out = []
    if o['exc'] is not None:
        return out
    M = int(o['info']['m'])
    for m in range(1, M + 2, every):
        out.append(dict(base, m=m))
    for k in range(0, o['ncall'] + 1, every):
        out.append(dict(base, kNone=k))
    for s in range(1, int(o['info']['nswp']) + 2):
        out.append(dict(base, kcb=s))
    return out


def correspondence(R, ctx):
    tn = C.import_teneva()
    rng = ctx['rng']
    thorough = ctx['thorough']
    items, dist = [], dict(kinds={}, d={}, cache=0, vld=0, faults=0, rejected=0, stops={})
    cfgs = []
    for _ in range(1500 if thorough else 260):
        c = L.gen_cfg(rng)
        if c.get('kcb') is not None and rng.random() < 0.6:
            c['forms'] = dict(cb=rng.choice(CB_FORM_NAMES))
        cfgs.append(('rand', c))
    # degenerate objectives (exactly zero fibres): delta / block-sparse / zero / zero unless i_0 = 0
    for fam in ('delta', 'block', 'zero', 'i0'):
        for cache in (True, False):
            for dr_min in (0, 1, 2):
                for _ in range(6 if thorough else 1):
                    cfgs.append(('degen', L.gen_degen(rng, fam=fam, cache=cache, dr_min=dr_min)))
    for _ in range(200 if thorough else 24):
        cfgs.append(('degen', L.gen_degen(rng)))
    # several criteria met by the same sweep: priority e_vld > e > nswp
    for _ in range(120 if thorough else 16):
        cfgs.append(('prio', L.gen_prio(rng)))
    # fault enumeration: every budget / None position / callback sweep
    for j in range(30 if thorough else 3):
        c0 = L.gen_cfg(rng, small=True, kind='nswp')
        c0['nswp'] = rng.choice([1, 2])
        if j % 2:
            c0['cache'] = []
        fam = fault_family(tn, c0)
        for c in fam:
            if c.get('kcb') is not None:
                c['forms'] = dict(cb=rng.choice(CB_FORM_NAMES))
        dist['faults'] += len(fam)
        cfgs += [('fault', c) for c in fam]
    # argument validation: every combination of missing criteria
    for hasI in (False, True):
        for hasy in (False, True):
            for e_vld in (None, 1e-3):
                for crit in (None, 'm', 'e', 'nswp'):
                    c = L.gen_cfg(rng, small=True, kind='nswp')
                    c.update(m=None, e=None, nswp=None, hasI=hasI, hasy=hasy, e_vld=e_vld, kNone=None, kcb=None)
                    if crit == 'm':
                        c['m'] = 20
                    elif crit == 'e':
                        c['e'] = 10.0
                        c['m'] = None
                    elif crit == 'nswp':
                        c['nswp'] = 1
                    if crit is None and hasI and hasy and e_vld is not None:
                        c['e_vld'] = 1e9      # e_vld alone is a legal criterion: make it fire
                    cfgs.append(('args', c))
    # cross-cutting families: argument forms (with their canonical twins), histories on shared objects, edges
    form_pairs, form_bad, form_inc = [], [], 0
    for which in DOCUMENTED_FORMS + UNDOCUMENTED_FORMS + (STRICT_ONLY_FORMS if STRICT_FORMS else []):
        for _ in range(3 if thorough else 1):
            name, cf, canon = gen_forms(rng, which)
            cfgs.append(('form:' + name, cf))
            form_pairs.append((cf, canon))
    for _ in range(8 if thorough else 3):
        for c in gen_edges(tn, rng):
            cfgs.append(('edge', c))
    hist_items, hist_fail = [], []
    for _ in range(60 if thorough else 10):
        runs, fl = run_history(tn, gen_history(rng))
        hist_fail += fl
        for k, (ck, o) in enumerate(runs):
            hist_items.append(dict(coq=L.coq_term(ck, o), impl=L.impl_result(ck, o), input=['history call %d' % k, L.describe(ck)]))
    contract_bad, toolong = [], []
    for tag, cfg in cfgs:
        try:
            it = _item(tn, cfg, tag)
        except L.TooLong:
            # every generated configuration has a criterion that bounds the run (or must be rejected): a run that
            # exceeds the call limit is a disagreement with the model (termination theorems), never skipped
            toolong.append(dict(stream='cross_replay', input=[tag, L.describe(cfg)], model='terminates / ValueError',
                                impl='run did not stop (more than 4000 objective calls / 6000 requests / 60 s)'))
            continue
        o = it.pop('_o')
        if o['exc'] is not None and (cfg.get('forms') or {}).get('undocumented'):
            continue        # an undocumented form that raises: nothing to replay
        items.append(it)
        dist['kinds'][tag] = dist['kinds'].get(tag, 0) + 1
        dist['d'][len(cfg['ns'])] = dist['d'].get(len(cfg['ns']), 0) + 1
        dist['cache'] += cfg['cache'] is not None
        dist['vld'] += bool(cfg['hasI'] and cfg['hasy'])
        if o['exc'] is not None:
            dist['rejected'] += 1
        else:
            st = str(o['info']['stop'])
            dist['stops'][st] = dist['stops'].get(st, 0) + 1
            for b in _check_maxvol_contract(cfg, o, 2 * len(cfg['ns'])):
                contract_bad.append(dict(input=L.describe(cfg), **b))
    dist['kinds']['history'] = len(hist_items)
    items += hist_items
    bad = C.exact_corr(R, 'cross_replay', L.HEADER, items, chunk=max(4, len(items) // 32), norm=L.norm_model_full,
                       distribution=dist)
    for cf, canon in form_pairs:
        try:
            g = same_answer(cf, L.run_impl(tn, cf), L.run_impl(tn, canon))
        except L.TooLong:
            g = dict(what='C06 forms: run did not stop', input=L.describe(cf))
        if g == 'incomparable':
            form_inc += 1
        elif g:
            form_bad.append(g)
    R.corr.append(dict(name='argument forms vs canonical form', cases=len(form_pairs), mismatches=len(form_bad),
                       comparison='same batches, counters, stop reason, sweeps, result shapes, cache (when the maxvol picks agree)',
                       distribution=dict(incomparable=form_inc, forms=[w[0] for w in DOCUMENTED_FORMS + UNDOCUMENTED_FORMS]),
                       first_mismatches=form_bad[:3]))
    R.corr.append(dict(name='histories on shared Y0 / info / cache objects', cases=len(hist_items), mismatches=len(hist_fail),
                       comparison='every call judged against a recount from the cache contents at its entry; Y0 bit-identical',
                       distribution={}, first_mismatches=hist_fail[:3]))
    bad = form_bad + hist_fail + bad
    R.corr.append(dict(name='maxvol contract on recorded calls', cases=len(items), mismatches=len(contract_bad),
                       comparison='contract (valid distinct rows, count window) on every recorded _maxvol call, incl. '
                                  'the degenerate-objective family; the C06 theorems are conditional on it, so a miss '
                                  'breaks the check (the search then looks for the property-level consequence)',
                       distribution=dict(violations=len(contract_bad)), first_mismatches=contract_bad[:3]))
    R.corr.append(dict(name='runs that exceed the call limit', cases=len(cfgs), mismatches=len(toolong),
                       comparison='the model terminates (C06_terminates_*) or rejects the arguments', distribution={},
                       first_mismatches=toolong[:3]))
    bad = toolong + bad
    if contract_bad:
        R.notes.append(f'maxvol contract violated on {len(contract_bad)} recorded calls (C08 territory): '
                       f'{contract_bad[0]}')
    return bad



# ------------------------------------------------------------------------------------------------ cross-cutting families
import os
STRICT_FORMS = bool(os.environ.get('VERIF_C06_STRICT_FORMS'))

# (name, forms dict, extra requirements on the configuration)
DOCUMENTED_FORMS = [
    ('m=float', dict(m='float'), 'm'), ('m=np.int64', dict(m='np.int64'), 'm'), ('m=np.int32', dict(m='np.int32'), 'm'),
    ('m=np.float64', dict(m='np.float64'), 'm'), ('np scalars', dict(np_scalars=True), None),
    ('np scalars + m=np.float64', dict(np_scalars=True, m='np.float64'), 'm'),
    ('Y0 F-ordered', dict(Y0='F'), None), ('Y0 non-contiguous', dict(Y0='noncontig'), None),
    ('Y0 int64 cores', dict(Y0='int', Y0int=True), None),
    ('objective returns list', dict(ret='list'), None), ('objective returns float32', dict(ret='float32'), None),
    ('objective returns int array', dict(ret='int'), None),
    ('objective zeroes its batch (no cache)', dict(mutate='zero'), 'nocache'),
    ('objective increments its batch (no cache)', dict(mutate='inc'), 'nocache'),
    ('info omitted', dict(info='omitted'), None), ('cache omitted', dict(cache='omitted'), 'nocache'),
    ('I_vld / y_vld lists', dict(vld='list'), 'vld'), ('I_vld int32', dict(vld='int32'), 'vld'),
    # the callback stops the run iff its answer is true (docstring: "returns a true value"; repaired in d12f1ba)
    ('cb returns 1 / 0', dict(cb='1'), 'cb'), ('cb returns np.bool_', dict(cb='np.bool_'), 'cb'),
    ('cb returns non-empty list / None', dict(cb='obj'), 'cb'), ('cb returns str / empty str', dict(cb='str'), 'cb'),
    ('cb returns np.float64 2.5 / 0.0', dict(cb='np.float64'), 'cb'),
]
CB_FORM_NAMES = ['True', '1', 'np.bool_', 'obj', 'str', 'np.float64']
UNDOCUMENTED_FORMS = [      # may raise, must never silently return something else
    ('Y0 tuple', dict(Y0='tuple', undocumented=True), None),
    ('objective returns tuple', dict(ret='tuple', undocumented=True), None),
    ('objective returns column vector', dict(ret='col', undocumented=True), None),
]
# documented exclusions (lead's decision): an objective that modifies its batch in place with a cache is user misuse
# (cross raises KeyError) - observation only, enabled by VERIF_C06_STRICT_FORMS (see CLAIM note)
STRICT_ONLY_FORMS = [
    ('objective zeroes its batch (cache)', dict(mutate='zero'), 'cache'),
    ('objective increments its batch (cache)', dict(mutate='inc'), 'cache'),
]


def gen_forms(rng, which=None):
    """one configuration in a non-canonical argument form + its canonical twin (same values, canonical forms)"""
    pool = DOCUMENTED_FORMS + UNDOCUMENTED_FORMS + (STRICT_ONLY_FORMS if STRICT_FORMS else [])
    name, forms, need = which or rng.choice(pool)
    cfg = L.gen_cfg(rng, kind=rng.choice(['nswp', 'm', 'cb', 'func', 'mix']))
    if need == 'm':
        cfg['m'] = rng.choice([1, 7, 30, 100, 1000])
        if cfg['nswp'] is None and cfg['cache'] is None and cfg['m'] == 1000:
            cfg['nswp'] = 3
    elif need == 'nocache':
        cfg['cache'] = None
    elif need == 'cache':
        cfg['cache'] = []
    elif need == 'vld':
        cfg['hasI'] = cfg['hasy'] = True
    elif need == 'cb':
        cfg['kcb'] = rng.choice([1, 2])
        cfg['nswp'] = 4
        cfg['kNone'] = None
    canon = dict(cfg, forms=({'Y0int': True} if forms.get('Y0int') else None))
    return name, dict(cfg, forms=dict(forms)), canon


def same_answer(cfg, o, oc):
    """a documented form must give the same answer as the canonical form (compared when the maxvol picks agree; they
    are float decisions that an F-ordered / strided input may legitimately flip in a tie)"""
    def fail(what, **kw):
        return dict(what='C06 forms: ' + what, input=L.describe(cfg), **kw)
    if (o['exc'] is None) != (oc['exc'] is None):
        if (cfg.get('forms') or {}).get('undocumented') and o['exc'] is not None:
            return None
        return fail('the form raises / the canonical form does not (or vice versa)', got=repr(o['exc']), expected=repr(oc['exc']))
    if o['exc'] is not None:
        return None
    if o['rec']['picks'] != oc['rec']['picks']:
        return 'incomparable'
    a = [[b['ok']] + b['I'].tolist() for b in o['rec']['batches']]
    b = [[b['ok']] + b['I'].tolist() for b in oc['rec']['batches']]
    if a != b:
        return fail('the objective receives different batches than with canonical arguments', got=len(a), expected=len(b))
    for k in ('m', 'm_cache', 'nswp', 'stop', 'm_max'):
        if o['info'][k] != oc['info'][k]:
            return fail(f'info[{k}] differs from the canonical form', got=o['info'][k], expected=oc['info'][k])
    if [np.shape(G) for G in o['Y']] != [np.shape(G) for G in oc['Y']]:
        return fail('result shapes differ from the canonical form')
    if o['cache'] != oc['cache']:
        return fail('cache contents differ from the canonical form')
    return None


def gen_history(rng):
    """2-3 calls of cross sharing the SAME Y0 list, info dict and cache dict; criteria change from call to call"""
    base = L.gen_cfg(rng, small=rng.random() < 0.5, kind='nswp')
    base.update(kNone=None, kcb=None, e=None, e_vld=None)
    share_cache = rng.random() < 0.6
    base['cache'] = [] if share_cache else None
    info_mode = rng.choice(['shared', 'shared', 'omitted'])
    calls = []
    for k in range(rng.choice([2, 3])):
        c = dict(base)
        kind = rng.choice(['nswp', 'm', 'func', 'cb'])
        c['nswp'] = rng.choice([0, 1, 2])
        if kind == 'm':
            c['m'] = rng.choice([1, 5, 20, 60])
            c['nswp'] = rng.choice([None, 2]) if not share_cache else 2
            if c['nswp'] is None and c['m'] is None:
                c['nswp'] = 2
        elif kind == 'func':
            c['kNone'] = rng.randint(0, 6)
        elif kind == 'cb':
            c['kcb'] = rng.choice([1, 2])
            c['nswp'] = 3
        if info_mode == 'omitted':
            c['forms'] = dict(info='omitted')
        calls.append(c)
    return dict(base=base, calls=calls, share_cache=share_cache, info_mode=info_mode)


def run_history(tn, hist):
    """runs the calls on shared objects; returns [(cfg_k with the cache contents at entry, observation)], failures"""
    base = hist['base']
    Y0 = L.make_Y0(base)
    Y0_saved = [G.copy() for G in Y0]
    info = {}
    cache = {} if hist['share_cache'] else None
    runs, fails = [], []
    for k, c in enumerate(hist['calls']):
        ck = dict(c, cache=(None if cache is None else [(list(i), v) for i, v in cache.items()]))
        shared = dict(info=info)
        if cache is not None:
            shared['cache'] = cache
        try:
            o = L.run_impl(tn, ck, Y0=Y0, shared=shared)
        except L.TooLong:
            fails.append(dict(what=f'C06 history: call {k} did not stop', input=[L.describe(x) for x in hist['calls']]))
            break
        o['info'] = dict(o['info'])
        if o['cache'] is not None:
            o['cache'] = dict(o['cache'])
        runs.append((ck, o))
        f = judge(ck, o)
        if f:
            f['what'] = f['what'].replace('C06:', f'C06 history (call {k} of {len(hist["calls"])} on shared Y0 / info / cache):')
            f['history'] = [L.describe(x) for x in hist['calls']]
            fails.append(f)
        if not (len(Y0) == len(Y0_saved) and all(G.shape == H.shape and G.tobytes() == H.tobytes()
                                                 for G, H in zip(Y0, Y0_saved))):
            fails.append(dict(what=f'C06 history: call {k} modified the initial tensor Y0 it was given',
                              input=[L.describe(x) for x in hist['calls']]))
            break
    return runs, fails


def gen_edges(tn, rng):
    """degenerate shapes and thresholds hit exactly: budgets equal to / one below the cumulative batch sizes, m = 1,
    nswp = 0 / 1, mode size 1, d = 2, ranks at saturation with dr_min >= 1, e equal to a reported value / one ulp below,
    exact power-of-two rescalings of the objective and of Y0"""
    out = []
    shape_kind = rng.choice(['ones', 'some ones', 'd2', 'saturated', 'plain'])
    d = 2 if shape_kind == 'd2' else rng.choice([2, 3, 4])
    ns = [rng.randint(2, 4) for _ in range(d)]
    if shape_kind == 'ones':
        ns = [1] * d
    elif shape_kind == 'some ones':
        ns = [rng.choice([1, 1, 3]) for _ in range(d)]
    prod = lambda xs: int(np.prod(xs)) if xs else 1
    r0 = [1] + [rng.randint(1, 3) for _ in range(d - 1)] + [1]
    if shape_kind == 'saturated':
        r0 = [1] + [min(prod(ns[:k]), prod(ns[k:])) for k in range(1, d)] + [1]
    drs = rng.choice([(0, 0), (1, 1), (1, 2), (2, 2)])
    base = dict(ns=ns, r0=r0, seedY=rng.randrange(10 ** 6), m=None, e=None, nswp=2, e_vld=None, hasI=False, hasy=False,
                dr_min=drs[0], dr_max=drs[1], scale=5, cache=rng.choice([None, []]), kNone=None, kcb=None,
                a=[rng.randint(0, 5) for _ in range(d)], b=[rng.randint(0, 3) for _ in range(d)],
                p=rng.choice([5, 7, 11]), kind='edge:' + shape_kind)
    try:
        o = L.run_impl(tn, base)
    except L.TooLong:
        return [base]
    if o['exc'] is not None:
        return [base]
    out += [dict(base, nswp=0), dict(base, nswp=1), dict(base, m=1, nswp=None if base['cache'] is None else 2)]
    sizes = np.cumsum([len(b['I']) for b in o['rec']['batches']]).tolist()
    for c in sizes[:3] + sizes[-1:]:
        for mm in (c - 1, c, c + 1):
            if mm >= 1:
                out.append(dict(base, m=int(mm), nswp=3))
    acs = [v for v in o['rec']['ac'][:int(o['info']['nswp'])] if np.isfinite(v) and v > 0]
    for v in acs[:2]:
        out += [dict(base, e=float(v), nswp=4), dict(base, e=float(np.nextafter(v, 0)), nswp=4),
                dict(base, e=float(np.nextafter(v, np.inf)), nswp=4)]
    # exact power-of-two rescalings; beyond about 2^+520 (objective) / 2^+150 per core (Y0) teneva.accuracy overflows in
    # its elementwise squares (the stabilised-arithmetic finding family of C04 / C16), so cross raises OverflowError:
    # reported to the lead, kept out of the families
    for k in rng.sample([-1000, -500, -100, -30, 30, 100, 500], 3):
        out.append(dict(base, sc2=k))
    out.append(dict(base, sc2Y=rng.choice([-150, -100, 100])))     # +150 per core already overflows accuracy for d = 4
    return out


# ------------------------------------------------------------------------------------------------ e-only runs that cycle
FINDING_ZERO_E_ONLY = 'C06/zero-objective-e-only-never-stops'


def cycle_probe(tn, spec, kmax=6):
    """Runs cross with the stop arguments of spec (dict: ns r seed obj('zero'|'box') box e m nswp cache dr_min dr_max) and a
    callback that snapshots the complete loop state at the end of every sweep (cores bitwise, Ir / Ic, info[e], pending
    stop, increment of info[m], the batches requested during the sweep) and returns True at sweep kmax at the latest.
    Returns dict(stopped=reason or None, cycle=k or None, all_zero=bool, ...).  cycle = k means: the state at the end of
    sweeps k, k+1 and k+2 is identical, info[e] == -1 and no stop reason is pending - by determinism of the driver the run
    then repeats that sweep forever (finite witness of non-termination)."""
    import warnings
    import time as _time
    t0 = _time.time()
    ns, d = spec['ns'], len(spec['ns'])
    Y0 = tn.rand(ns, spec['r'], seed=spec['seed'])
    box = spec.get('box')
    vals, sweep_batches, snaps = [], [[]], []
    ncall = [0]

    def f(I):
        ncall[0] += 1
        if ncall[0] > 4000:
            raise L.TooLong()
        I = np.asarray(I)
        sweep_batches[-1].append(I.tobytes())
        if spec['obj'] == 'zero':
            y = np.zeros(len(I))
        else:
            lo, hi = np.array(box[0]), np.array(box[1])
            y = np.where(((I >= lo) & (I < hi)).all(axis=1), 1.0 + I.sum(axis=1), 0.0)
        vals.append(bool((y == 0).all()))
        return y

    def cb(Y, info, opts):
        byt = lambda xs: [None if x is None else np.asarray(x).tobytes() for x in xs]
        snaps.append(dict(cores=[np.asarray(G).tobytes() for G in Y], Ir=byt(opts['Ir']), Ic=byt(opts['Ic']), e=info['e'],
                          stop=info['stop'], m=info['m'], m_cache=info['m_cache'], batches=sweep_batches[-1]))
        sweep_batches.append([])
        if info['nswp'] > 400 or _time.time() - t0 > 30:      # a run that spins without ever calling the objective
            raise L.TooLong()
        return info['nswp'] >= kmax

    info = {}
    cache = {} if spec.get('cache') else None
    res = dict(spec=spec, stopped=None, cycle=None, all_zero=None, exc=None)
    try:
        with warnings.catch_warnings():
            warnings.simplefilter('ignore')
            with np.errstate(all='ignore'):
                tn.cross(f, Y0, m=spec.get('m'), e=spec.get('e'), nswp=spec.get('nswp'), dr_min=spec.get('dr_min', 1),
                         dr_max=spec.get('dr_max', 1), info=info, cache=cache, cb=cb)
    except L.TooLong:
        res['exc'] = 'run did not stop: more than 4000 objective calls / 400 sweeps / 30 s'
        snaps = []
    except Exception as e:  # noqa
        res['exc'] = repr(e)[:300]
    res['all_zero'] = all(vals)
    res['nswp'], res['m'], res['e'] = info.get('nswp'), info.get('m'), info.get('e')
    res['stopped'] = info.get('stop')
    same = lambda a, b: (a['cores'] == b['cores'] and a['Ir'] == b['Ir'] and a['Ic'] == b['Ic'] and a['batches'] == b['batches']
                         and a['e'] == b['e'] == -1 and a['stop'] is None and b['stop'] is None)
    for k in range(len(snaps) - 2):
        if same(snaps[k], snaps[k + 1]) and same(snaps[k + 1], snaps[k + 2]) and \
                snaps[k + 1]['m'] - snaps[k]['m'] == snaps[k + 2]['m'] - snaps[k + 1]['m'] and \
                (cache is None or snaps[k + 1]['m_cache'] == snaps[k]['m_cache']):
            res['cycle'] = k + 1
            break
    return res


def cycle_family(tn, rng, deep):
    """the regression input of the known finding + the family around it.  Failures: non-terminating e-only runs on an
    objective that only ever answered zeros carry the finding key; ANY other run that cycles / does not stop by a documented
    reason of its own (the probe's callback stop at sweep kmax does not count) is a plain violation."""
    specs = [dict(ns=[3, 3, 3], r=1, seed=1, obj='zero', e=1e-6, cache=False, regression=True)]
    for d in (2, 3, 4):
        for cache in (False, True):
            ns = [rng.randint(2, 4 if d < 4 else 3) for _ in range(d)]
            specs.append(dict(ns=ns, r=rng.randint(1, 2), seed=rng.randrange(1000), obj='zero', e=rng.choice([1e-6, 1e-2]),
                              cache=cache, dr_min=rng.choice([0, 1]), dr_max=1))
            lo = [n - 1 for n in ns]        # a delta at the far corner: the sweeps started from a random Y0 rarely touch it
            specs.append(dict(ns=ns, r=1, seed=rng.randrange(1000), obj='box', box=[lo, ns], e=1e-6, cache=cache))
            # e together with another stop argument must stop normally
            specs.append(dict(ns=ns, r=1, seed=rng.randrange(1000), obj='zero', e=1e-6, nswp=rng.choice([1, 3]), cache=cache))
            specs.append(dict(ns=ns, r=1, seed=rng.randrange(1000), obj='zero', e=1e-6, m=rng.choice([5, 40, 200]), cache=cache))
    out, n = [], 0
    for sp in specs[:(len(specs) if deep else 17)]:
        n += 1
        e_only = sp.get('m') is None and sp.get('nswp') is None
        # with m / nswp the run must end by a documented reason of its own: the probe never stops it (call cap only)
        r = cycle_probe(tn, sp, kmax=6 if e_only else 10 ** 9)
        if not e_only:
            r['cycle'] = None
        desc = dict(kind='cycle_probe', **sp)
        if r['exc']:
            out.append(dict(what='C06 e-only family: ' + r['exc'], input=desc))
        elif r['cycle'] is not None:
            what = (f"cross never returns: e is the only stop argument and the objective answered only zeros, so every sweep gives "
                    f"the zero tensor, accuracy(Y, Yold) is the sentinel -1 and _info_appr needs info['e'] >= 0; the complete loop "
                    f"state (cores bitwise, Ir / Ic, requested batches, info['e'] = -1, no stop pending) is identical at the end of "
                    f"sweeps {r['cycle']}, {r['cycle'] + 1}, {r['cycle'] + 2}")
            f = dict(what='C06: ' + what, input=desc, got=dict(nswp=r['nswp'], m=r['m'], e=r['e'], stop_by_probe=r['stopped']))
            if e_only and r['all_zero'] and not sp.get('cache'):
                f['finding_key'] = FINDING_ZERO_E_ONLY
            out.append(f)
        elif r['stopped'] == 'cb':
            out.append(dict(what='C06 e-only family: no documented stop reason fired within 6 sweeps (stopped by the probe) and '
                                 'no cycle was established', input=desc, got=dict(nswp=r['nswp'], m=r['m'], e=r['e'])))
        elif r['stopped'] not in ('e', 'nswp', 'm', 'conv'):
            out.append(dict(what='C06 e-only family: undocumented stop reason', input=desc, got=repr(r['stopped'])))
    return out, n


# ------------------------------------------------------------------------------------------------ search

def oracle(tn, cfg, **run_kw):
    """property-level oracle on the implementation, independent of the model.  Returns a failure dict or None."""
    def fail(what, **kw):
        return dict(what='C06: ' + what, input=L.describe(cfg), **kw)
    try:
        o = L.run_impl(tn, cfg, **run_kw)
    except L.TooLong as ex:
        o = ex.partial
        if o is not None and cfg['cache'] is not None and 'm' in o['info']:
            # the run was cut inside a request: every earlier request was served; name the exact clause if it is broken
            reqs, info = o['rec']['requests'], o['info']
            for cut in (len(reqs), len(reqs) - 1):
                tot = sum(len(r) for r in reqs[:cut])
                if info['m'] + info['m_cache'] == tot:
                    break
            else:
                return fail('info[m] + info[m_cache] differs from the total number of requested indices (batches served '
                            'entirely from the cache included); the conv rule can then never fire and the run did not stop',
                            got=[info['m'], info['m_cache']], expected=sum(len(r) for r in reqs))
        return fail('run did not stop: more than 4000 objective calls / 6000 requests / 60 s although a criterion '
                    '(nswp, finite budget m, conv with a cache) must fire')
    return judge(cfg, o)


def judge(cfg, o):
    """the clauses of the property on one observed run (cfg['cache'] = cache contents at entry)"""
    def fail(what, **kw):
        return dict(what='C06: ' + what, input=L.describe(cfg), **kw)
    fm = cfg.get('forms') or {}
    d, ns = len(cfg['ns']), cfg['ns']
    vld = cfg['hasI'] and cfg['hasy']
    no_crit = (cfg['m'] is None and cfg['e'] is None and cfg['nswp'] is None and (not vld or cfg['e_vld'] is None))
    if no_crit or (cfg['e_vld'] is not None and not vld):
        if not isinstance(o['exc'], ValueError):
            return fail('missing stop criterion / validation set not rejected with ValueError', got=repr(o['exc']))
        if o['ncall'] != 0 or o['rec']['requests']:
            return fail('objective evaluated before the ValueError', got=o['ncall'])
        return None
    if o['exc'] is not None:
        if fm.get('undocumented'):
            return None        # an undocumented argument form may raise; it must not silently return something else
        return fail('cross raised ' + repr(o['exc'])[:300])
    info, rec, Y = o['info'], o['rec'], o['Y']
    ev_rows, seen = 0, set(map(tuple, (k for k, _ in (cfg['cache'] or []))))
    for k, b in enumerate(rec['batches']):
        I = b['I']
        if not (b.get('type', 'ndarray') == 'ndarray' and I.ndim == 2 and I.shape[1] == d and
                np.issubdtype(I.dtype, np.integer)):
            return fail(f'batch {k} is not an integer array of width d', got=[str(I.dtype), list(I.shape)])
        if len(I) == 0:
            return fail(f'batch {k} is empty')
        if (I < 0).any() or (I >= np.array(ns)).any():
            return fail(f'batch {k} leaves the tensor bounds', got=I.tolist())
        rows_ = list(map(tuple, I.tolist()))
        if len(set(rows_)) != len(rows_):
            return fail(f'batch {k} contains a duplicate multi-index', got=I.tolist())
        if cfg['cache'] is not None:
            if seen & set(rows_):
                return fail(f'batch {k} re-evaluates a cached multi-index', got=sorted(seen & set(rows_))[:3])
        if b['ok']:
            ev_rows += len(I)
            seen |= set(rows_)
        elif k != len(rec['batches']) - 1:
            return fail('objective called again after it returned None')
    if cfg['m'] and ev_rows > cfg['m']:
        return fail('budget exceeded', got=ev_rows, expected=cfg['m'])
    if info['m'] != ev_rows:
        return fail('info[m] differs from the number of evaluated indices', got=info['m'], expected=ev_rows)
    stop = info['stop']
    if stop not in ('m', 'e', 'nswp', 'e_vld', 'cb', 'func', 'conv'):
        return fail('undocumented stop reason', got=repr(stop))
    # requests: every _func_eval call; the last one is unsuccessful iff stop in (m, func) set by it
    reqs = rec['requests']
    nreq_ok = len(reqs) - (1 if stop in ('m', 'func') else 0)
    total_req = sum(len(r) for r in reqs[:nreq_ok])
    if cfg['cache'] is None:
        if info['m_cache'] != 0:
            return fail('m_cache counted without a cache', got=info['m_cache'])
        if total_req != ev_rows or len(reqs) != len(rec['batches']) + (1 if stop == 'm' else 0):
            return fail('without cache every requested index must be evaluated', got=[total_req, ev_rows])
    else:
        if info['m_cache'] != total_req - ev_rows:
            return fail('info[m] + info[m_cache] differs from the total number of requested indices (batches served '
                        'entirely from the cache included)', got=info['m_cache'],
                        expected=total_req - ev_rows)
        exp = {tuple(k): float(v) for k, v in cfg['cache']}
        for b in rec['batches']:
            if b['ok']:
                for i, v in zip(b['I'].tolist(), L.objective(cfg, b['I'])):
                    exp[tuple(i)] = float(v)
        if o['cache'] != exp or any(not isinstance(k, tuple) for k in o['cache']):
            return fail('cache does not hold exactly the evaluated index -> value pairs',
                        got=len(o['cache']), expected=len(exp))
    none_last = bool(rec['batches']) and not rec['batches'][-1]['ok']
    if (stop == 'func') != none_last:
        return fail('stop == func inconsistent with the objective returning None', got=stop)
    if stop == 'm':
        if not cfg['m']:
            return fail('stop m without a budget')
        last = reqs[-1]
        cached = set(o['cache']) if o['cache'] is not None else set()
        new = [r for r in last if tuple(r) not in cached]
        if not (info['m'] + len(new) > cfg['m']):
            return fail('stop m although the next batch fits into the budget', got=[info['m'], len(new), cfg['m']])
    if stop == 'nswp' and info['nswp'] != cfg['nswp']:
        return fail('stop nswp with a different sweep count', got=info['nswp'], expected=cfg['nswp'])
    if stop == 'e' and not (cfg['e'] is not None and 0 <= info['e'] <= cfg['e']):
        return fail('stop e with value above threshold', got=info['e'], expected=cfg['e'])
    if stop == 'e_vld' and not (cfg['e_vld'] is not None and 0 <= info['e_vld'] <= cfg['e_vld']):
        return fail('stop e_vld with value above threshold', got=info['e_vld'], expected=cfg['e_vld'])
    if o.get('cbans') and any(o['cbans'][:-1]):
        return fail('the callback returned a true value but the run went on', got=[o['cbans'], stop, info['nswp']])
    if stop == 'cb' and not (o.get('cbans') and o['cbans'][-1]):
        return fail('stop cb although the last answer of the callback was not true', got=[o.get('cbans'), info['nswp']])
    if stop == 'cb' and not (o['cbrec'] and o['cbrec'][-1] == cfg['kcb'] == info['nswp']):
        return fail('stop cb but the callback did not just return True', got=[o['cbrec'], info['nswp']])
    if cfg.get('kcb') is not None and cfg['kcb'] in o['cbrec'] and stop not in ('cb', 'conv'):
        return fail('callback returned True but the run went on / reports another reason', got=stop)
    if o['cbrec'] != list(range(1, len(o['cbrec']) + 1)) or (o['cbrec'] and o['cbrec'][-1] != info['nswp'] and
                                                             stop not in ('m', 'func')):
        return fail('callback not called once per sweep', got=[o['cbrec'], info['nswp']])
    # no criterion was met (and ignored) at an earlier completed sweep: thresholds are tested with <=
    done = int(info['nswp'])
    last_decides = stop in ('e', 'e_vld', 'nswp', 'cb', 'conv') and done >= 1
    for j in range(done - (1 if last_decides else 0)):
        if cfg['e'] is not None and j < len(rec['ac']) and 0 <= rec['ac'][j] <= cfg['e'] and not np.isinf(rec['ac'][j]):
            return fail(f'the e criterion was met after sweep {j + 1} (value <= e) but the run went on',
                        got=[rec['ac'][j], cfg['e'], stop, done])
        if vld and cfg['e_vld'] is not None and j + 1 < len(rec['ad']) and 0 <= rec['ad'][j + 1] <= cfg['e_vld'] \
                and not np.isinf(rec['ad'][j + 1]):
            return fail(f'the e_vld criterion was met after sweep {j + 1} but the run went on',
                        got=[rec['ad'][j + 1], cfg['e_vld'], stop, done])
    if stop == 'cb' and info['m_cache'] > cfg['scale'] * info['m']:
        return fail('stop cb although the conv rule (checked first) holds', got=[info['m_cache'], info['m']])
    if info['nswp'] >= 1:
        # priority of _info_appr (values reported by a post-sweep stop are those the decision was taken on)
        hit_ev = cfg['e_vld'] is not None and 0 <= info['e_vld'] <= cfg['e_vld'] and not np.isinf(info['e_vld'])
        hit_e = cfg['e'] is not None and 0 <= info['e'] <= cfg['e'] and not np.isinf(info['e'])
        if stop == 'e' and hit_ev:
            return fail('stop e although the e_vld criterion (higher priority) is met', got=[info['e'], info['e_vld']])
        if stop == 'nswp' and (hit_e or hit_ev):
            return fail('stop nswp although the e / e_vld criterion (higher priority) is met',
                        got=[info['e'], info['e_vld']])
    if stop == 'conv' and not info['m_cache'] > cfg['scale'] * info['m']:
        return fail('stop conv inconsistent with the counters', got=[info['m_cache'], info['m']])
    if cfg['nswp'] is not None and info['nswp'] > cfg['nswp']:
        return fail('more sweeps than nswp', got=info['nswp'])
    if stop not in ('m', 'func') and cfg['nswp'] is not None and info['nswp'] < cfg['nswp'] and stop == 'nswp':
        return fail('nswp reported early')
    # well-formed finite result of the original shape
    if not (isinstance(Y, list) and len(Y) == d):
        return fail('result is not a list of d cores')
    r = 1
    for k, G in enumerate(Y):
        if not (isinstance(G, np.ndarray) and G.ndim == 3 and G.shape[0] == r and G.shape[1] == ns[k]):
            return fail(f'result core {k} is ill-shaped', got=[list(np.shape(g)) for g in Y])
        if not np.isfinite(G).all():
            return fail(f'result core {k} is not finite')
        r = G.shape[2]
    if r != 1:
        return fail('last rank of the result is not 1', got=[list(np.shape(g)) for g in Y])
    return None


def search(R, ctx, deep, hints):
    tn = C.import_teneva()
    rng = ctx['rng']
    fails, n = [], 0
    cand = []
    for h in hints[:20]:
        try:
            cand.append(h['input'][1])
        except Exception:
            pass
    for _ in range(1500 if deep else 250):
        c = L.gen_cfg(rng)
        if c.get('kcb') is not None and rng.random() < 0.6:
            c['forms'] = dict(cb=rng.choice(CB_FORM_NAMES))
        cand.append(c)
    for _ in range(60 if deep else 12):
        cand.append(L.gen_prio(rng))
    # degenerate objectives (zero fibres): every family x cache x dr_min, small budgets too
    for fam in ('delta', 'block', 'zero', 'i0'):
        for cache in (True, False):
            for dr_min in (0, 1, 2):
                for bud in (False, True):
                    for _ in range(3 if deep else 1):
                        cand.append(L.gen_degen(rng, fam=fam, cache=cache, dr_min=dr_min, budget=bud))
    for _ in range(200 if deep else 30):
        cand.append(L.gen_degen(rng))
    for j in range(12 if deep else 3):
        c0 = L.gen_cfg(rng, small=not deep or j % 2 == 0, kind='nswp')
        c0['nswp'] = rng.choice([1, 2])
        if j % 2 == 0:
            c0['cache'] = []
        cand += fault_family(tn, c0)
    for hasI in (False, True):
        for hasy in (False, True):
            for e_vld in (None, 1e-3):
                c = L.gen_cfg(rng, small=True, kind='nswp')
                c.update(m=None, e=None, nswp=None, hasI=hasI, hasy=hasy, e_vld=e_vld, kNone=None, kcb=None)
                if hasI and hasy and e_vld is not None:
                    c['e_vld'] = 1e9
                cand.append(c)
    for which in DOCUMENTED_FORMS + UNDOCUMENTED_FORMS + (STRICT_ONLY_FORMS if STRICT_FORMS else []):
        for _ in range(4 if deep else 2):
            name, cf, canon = gen_forms(rng, which)
            n += 1
            try:
                o, oc = L.run_impl(tn, cf), L.run_impl(tn, canon)
            except L.TooLong:
                fails.append(dict(what='C06 forms: run did not stop', input=L.describe(cf)))
                continue
            f = judge(cf, o)
            g = same_answer(cf, o, oc)
            for x in (f, g):
                if x and x != 'incomparable':
                    x['form'] = name
                    fails.append(x)
    for _ in range(60 if deep else 15):
        runs, fl = run_history(tn, gen_history(rng))
        n += len(runs)
        fails += fl
    for _ in range(20 if deep else 4):
        cand += gen_edges(tn, rng)
    fails = fails[:5]
    for cfg in cand:
        if len(fails) >= 5:
            break
        n += 1
        f = oracle(tn, cfg)
        if f:
            fails.append(f)
            if len(fails) >= 5:
                break
    cyc, ncyc = cycle_family(tn, rng, deep)
    fails += cyc
    n += ncyc
    R.search.append(dict(name='C06 oracle: recount from the instrumented objective, stop contract, result shape',
                         evaluations=n, failures=len(fails), deep=deep))
    return fails


def replay(data):
    tn = C.import_teneva()
    p = data['payload']
    print(data['what'])
    cfg = p.get('input')
    if isinstance(cfg, dict) and cfg.get('kind') == 'cycle_probe':
        r = cycle_probe(tn, cfg, kmax=6 if (cfg.get('m') is None and cfg.get('nswp') is None) else 10 ** 9)
        print('replayed:', {k: r[k] for k in ('stopped', 'cycle', 'all_zero', 'exc', 'nswp', 'm', 'e')})
        return 1 if (r['cycle'] is not None or r['exc'] or r['stopped'] == 'cb') else 0
    if isinstance(cfg, dict) and 'ns' in cfg:
        cfg = dict(cfg)
        if cfg.get('cache') is not None:
            cfg['cache'] = [(list(k), v) for k, v in cfg['cache']]
        f = oracle(tn, cfg)
        print('replayed:', f)
        return 1 if f else 0
    return 1
