"""C06 — TT-cross honours its evaluation budget, index domain and stop contract."""
import numpy as np

from harness import common as C
from harness import lib_cross as L

THEOREMS = 'Properties/C06.v'
CLAIM = dict(
    text='Coq theorems (Properties/C06.v, 18 theorems + 5 non-vacuity examples) about the small-step model Model/Cross.v of '
         'teneva.cross (whole driver: argument validation, _func Kronecker batches, both branches of _func_eval, cache, '
         '_maxvol wrapper, _iter index update, both pre-iteration passes, both half sweeps with their early-return '
         'branches, post-sweep block, _info_appr), for every dimension d >= 1, mode sizes, ranks, rank-growth window, '
         'objective (incl. None at any call), callback, budget, initial cache and numeric kernel, proved by one '
         'inductive invariant (Proofs/CrossInvC.v: Inv = geometry + control + accounting + request domain + progress) '
         'over every reachable state: '
         '[C06_requests_in_domain(_anytime)] every request assembled by _func and every batch handed to the objective is '
         'a non-empty list of pairwise distinct rows of width d with entry k < n_k; '
         '[C06_budget(_anytime), C06_asked_within_budget] info.m = number of indices handed to the objective in calls that returned values, '
         'info.m <= m_max, everything ever handed to the objective (incl. the batch of a call answered None) fits into m_max, number of calls, info.m_cache = number of requested indices served from the cache; '
         '[C06_budget_nocache_anytime] without cache every requested index is handed over, m_cache = 0; '
         '[C06_budget_cache_anytime] with cache (objective returning arrays of the requested length) each request is '
         'split exactly into known indices (initial cache or evaluated earlier) and new ones, only the new ones reach '
         'the objective, so every index is evaluated at most once and never if initially cached; the cache holds exactly '
         'the initial keys + evaluated indices, each with the value returned for it; '
         '[C06_stop_contract, C06_stop_e, C06_stop_priority, C06_hit_spec, C06_stop_func_m_iff, C06_nswp_bound] a finished run reports '
         'exactly one reason: m => budget set, newest request refused because m + new indices > m_max, objective not '
         'called for it; func <=> newest request is a call that returned None (nothing is requested after a None or a '
         'refusal); nswp => info.nswp = nswp exactly (never more sweeps than nswp); e => 0 <= info.e <= e finite; '
         'e_vld => 0 <= info.e_vld <= e_vld finite for the reported value, or (partial, see note) the criterion was met '
         'right after the pre-iteration; cb => the callback returned true for this sweep and conv did not fire; conv => '
         'm_cache > scale*m; priority e_vld > e > nswp after at least one sweep; '
         '[C06_interrupted_wf] at every exit (normal, budget / None at any call of either half sweep, callback) the '
         'result has d cores of the original mode sizes, boundary ranks 1, matching neighbour ranks; '
         '[C06_args_rejected] missing criteria => ValueError, independent of the objective; '
         '[C06_terminates_nswp / _m / _m_nocache] the run returns within fuel > nswp sweeps, within fuel > (scale+1)*m '
         'sweeps when a positive budget m is given (with or without cache, whatever the objective answers), within '
         'fuel > m without cache. '
         'The model is tied to cross.py / utils.py by exact replay of the recorded _maxvol picks / erank / accuracy '
         'values on every run: same sequence of requests and batches, counters, stop reason, sweep count, cache '
         'contents, core shapes; plus fault enumeration (every budget, every None position, every callback sweep), a '
         'stream with several criteria met by the same sweep, and a degenerate-objective family (delta tensor, '
         'block-sparse, identically zero, zero unless i_0 = 0; with / without cache, dr_min 0..2, d 2..4, small budgets) '
         'on which the maxvol contract is validated on every recorded call (a miss breaks the check) and the '
         'independent recount oracle runs (distinct rows per batch, each index evaluated at most once, info.m = recount).',
    note='Partial / runtime-only parts: (1) the numeric payload of cores is opaque in the model (theorems hold for every '
         'numeric kernel), so "finite entries" of the result is checked at run time only (search oracle). (2) e_vld '
         'pending from the pre-iteration: when e_vld is already met after the pre-iteration the driver still evaluates '
         'one batch, folds the unit factor into core 0 and recomputes info.e_vld; the theorem then states the threshold '
         'for the value computed on the tensor entering the first sweep, the equality of the recomputed number with it '
         'is a numeric fact checked at run time (oracle: reported e_vld <= threshold). (3) for runs with only e / e_vld '
         'termination is not a property of the code: theorems speak about cross_m fuel = Ok s. (4) the maxvol contract '
         '(valid, distinct rows, count within the dr window) is a hypothesis (property C08), validated on every '
         'recorded call. (5) the cache theorems assume the objective returns arrays of the requested length (Python '
         'raises IndexError otherwise; the model truncates).',
    technique='Coq proof (inductive invariant over a small-step machine, schedule of the program counter, progress '
              'measure m + m_cache) + exact replay correspondence + fault enumeration (every budget / every None '
              'position / every callback sweep) + independent recount oracle on the implementation')
TRUSTED = ['Coq 8.16.1 kernel + vm_compute (case evaluation only)',
           'hand-written model Model/Cross.v tied to cross.py / utils.py by exact replay correspondence',
           'maxvol / maxvol_rect contract: row numbers valid, pairwise distinct, count in [r+dr_min, min(n, r+dr_max)] '
           '(validated on every recorded call)',
           'numpy semantics of kron / hstack / reshape(order=F) / fancy indexing as transcribed in batch / inew',
           'harness recorders on teneva._maxvol, teneva.erank, teneva.accuracy, teneva.accuracy_on_data, '
           'teneva.cross._func_eval (module attributes, looked up at call time)']
ASSUMPTIONS = ['Y0 is a well-formed TT-tensor with d >= 1, mode sizes >= 1, ranks >= 1',
               'the objective returns an array of the requested length or None',
               'the callback does not modify Y / info']
TIME_LIMIT = {'quick': 900, 'thorough': 5400}


# ------------------------------------------------------------------------------------------------ correspondence

def _item(tn, cfg, tag):
    o = L.run_impl(tn, cfg)
    return dict(coq=L.coq_term(cfg, o), impl=L.impl_result(cfg, o), input=[tag, L.describe(cfg)], _o=o)


def _check_maxvol_contract(cfg, o, main_from):
    """validate the oracle contract on every recorded _maxvol call (tall case)"""
    bad = []
    for k, (pk, (shpA, args, shpB)) in enumerate(zip(o['rec']['picks'], o['rec']['mv_args'])):
        N, r = shpA
        if k < main_from:
            drmin = drmax = 0
        else:
            drmin, drmax = cfg['dr_min'], cfg['dr_max']
        if N <= r:
            ok = pk == list(range(N))
        else:
            dmax = min(drmax, N - r)
            dmin = min(drmin, dmax)
            ok = (r + dmin <= len(pk) <= r + dmax and len(set(pk)) == len(pk) and all(0 <= x < N for x in pk))
        if not ok:
            bad.append(dict(call=k, shape=[N, r], pick=pk, dr=[drmin, drmax]))
    return bad


def fault_family(tn, cfg0, every=1):
    """every budget, every None position, every callback sweep for one configuration (nswp-bounded)"""
    base = dict(cfg0, m=None, kNone=None, kcb=None)
    try:
        o = L.run_impl(tn, base)
    except L.TooLong:
        return [base]          # the caller runs it again and records "run did not stop"
    out = []
    if o['exc'] is not None:
        return out
    M = int(o['info']['m'])
    for m in range(1, M + 2, every):
        out.append(dict(base, m=m))
    for k in range(0, o['ncall'] + 1, every):
        out.append(dict(base, kNone=k))
    for s in range(1, int(o['info']['nswp']) + 2):
        out.append(dict(base, kcb=s))
    return out


def correspondence(R, ctx):
    tn = C.import_teneva()
    rng = ctx['rng']
    thorough = ctx['thorough']
    items, dist = [], dict(kinds={}, d={}, cache=0, vld=0, faults=0, rejected=0, stops={})
    cfgs = []
    for _ in range(1500 if thorough else 260):
        cfgs.append(('rand', L.gen_cfg(rng)))
    # degenerate objectives (exactly zero fibres): delta / block-sparse / zero / zero unless i_0 = 0
    for fam in ('delta', 'block', 'zero', 'i0'):
        for cache in (True, False):
            for dr_min in (0, 1, 2):
                for _ in range(6 if thorough else 1):
                    cfgs.append(('degen', L.gen_degen(rng, fam=fam, cache=cache, dr_min=dr_min)))
    for _ in range(200 if thorough else 24):
        cfgs.append(('degen', L.gen_degen(rng)))
    # several criteria met by the same sweep: priority e_vld > e > nswp
    for _ in range(120 if thorough else 16):
        cfgs.append(('prio', L.gen_prio(rng)))
    # fault enumeration: every budget / None position / callback sweep
    for j in range(30 if thorough else 3):
        c0 = L.gen_cfg(rng, small=True, kind='nswp')
        c0['nswp'] = rng.choice([1, 2])
        if j % 2:
            c0['cache'] = []
        fam = fault_family(tn, c0)
        dist['faults'] += len(fam)
        cfgs += [('fault', c) for c in fam]
    # argument validation: every combination of missing criteria
    for hasI in (False, True):
        for hasy in (False, True):
            for e_vld in (None, 1e-3):
                for crit in (None, 'm', 'e', 'nswp'):
                    c = L.gen_cfg(rng, small=True, kind='nswp')
                    c.update(m=None, e=None, nswp=None, hasI=hasI, hasy=hasy, e_vld=e_vld, kNone=None, kcb=None)
                    if crit == 'm':
                        c['m'] = 20
                    elif crit == 'e':
                        c['e'] = 10.0
                        c['m'] = None
                    elif crit == 'nswp':
                        c['nswp'] = 1
                    if crit is None and hasI and hasy and e_vld is not None:
                        c['e_vld'] = 1e9      # e_vld alone is a legal criterion: make it fire
                    cfgs.append(('args', c))
    contract_bad, toolong = [], []
    for tag, cfg in cfgs:
        try:
            it = _item(tn, cfg, tag)
        except L.TooLong:
            # every generated configuration has a criterion that bounds the run (or must be rejected): a run that
            # exceeds the call limit is a disagreement with the model (termination theorems), never skipped
            toolong.append(dict(stream='cross_replay', input=[tag, L.describe(cfg)], model='terminates / ValueError',
                                impl='run did not stop (more than 4000 objective calls / 6000 requests / 60 s)'))
            continue
        o = it.pop('_o')
        items.append(it)
        dist['kinds'][tag] = dist['kinds'].get(tag, 0) + 1
        dist['d'][len(cfg['ns'])] = dist['d'].get(len(cfg['ns']), 0) + 1
        dist['cache'] += cfg['cache'] is not None
        dist['vld'] += bool(cfg['hasI'] and cfg['hasy'])
        if o['exc'] is not None:
            dist['rejected'] += 1
        else:
            st = str(o['info']['stop'])
            dist['stops'][st] = dist['stops'].get(st, 0) + 1
            for b in _check_maxvol_contract(cfg, o, 2 * len(cfg['ns'])):
                contract_bad.append(dict(input=L.describe(cfg), **b))
    bad = C.exact_corr(R, 'cross_replay', L.HEADER, items, chunk=max(4, len(items) // 32), norm=L.norm_model_full,
                       distribution=dist)
    R.corr.append(dict(name='maxvol contract on recorded calls', cases=len(items), mismatches=len(contract_bad),
                       comparison='contract (valid distinct rows, count window) on every recorded _maxvol call, incl. '
                                  'the degenerate-objective family; the C06 theorems are conditional on it, so a miss '
                                  'breaks the check (the search then looks for the property-level consequence)',
                       distribution=dict(violations=len(contract_bad)), first_mismatches=contract_bad[:3]))
    R.corr.append(dict(name='runs that exceed the call limit', cases=len(cfgs), mismatches=len(toolong),
                       comparison='the model terminates (C06_terminates_*) or rejects the arguments', distribution={},
                       first_mismatches=toolong[:3]))
    bad = toolong + bad
    if contract_bad:
        R.notes.append(f'maxvol contract violated on {len(contract_bad)} recorded calls (C08 territory): '
                       f'{contract_bad[0]}')
    return bad


# ------------------------------------------------------------------------------------------------ search

def oracle(tn, cfg):
    """property-level oracle on the implementation, independent of the model.  Returns a failure dict or None."""
    def fail(what, **kw):
        return dict(what='C06: ' + what, input=L.describe(cfg), **kw)
    try:
        o = L.run_impl(tn, cfg)
    except L.TooLong as ex:
        o = ex.partial
        if o is not None and cfg['cache'] is not None and 'm' in o['info']:
            # the run was cut inside a request: every earlier request was served; name the exact clause if it is broken
            reqs, info = o['rec']['requests'], o['info']
            for cut in (len(reqs), len(reqs) - 1):
                tot = sum(len(r) for r in reqs[:cut])
                if info['m'] + info['m_cache'] == tot:
                    break
            else:
                return fail('info[m] + info[m_cache] differs from the total number of requested indices (batches served '
                            'entirely from the cache included); the conv rule can then never fire and the run did not stop',
                            got=[info['m'], info['m_cache']], expected=sum(len(r) for r in reqs))
        return fail('run did not stop: more than 4000 objective calls / 6000 requests / 60 s although a criterion '
                    '(nswp, finite budget m, conv with a cache) must fire')
    d, ns = len(cfg['ns']), cfg['ns']
    vld = cfg['hasI'] and cfg['hasy']
    no_crit = (cfg['m'] is None and cfg['e'] is None and cfg['nswp'] is None and (not vld or cfg['e_vld'] is None))
    if no_crit or (cfg['e_vld'] is not None and not vld):
        if not isinstance(o['exc'], ValueError):
            return fail('missing stop criterion / validation set not rejected with ValueError', got=repr(o['exc']))
        if o['ncall'] != 0 or o['rec']['requests']:
            return fail('objective evaluated before the ValueError', got=o['ncall'])
        return None
    if o['exc'] is not None:
        return fail('cross raised ' + repr(o['exc'])[:300])
    info, rec, Y = o['info'], o['rec'], o['Y']
    ev_rows, seen = 0, set(map(tuple, (k for k, _ in (cfg['cache'] or []))))
    for k, b in enumerate(rec['batches']):
        I = b['I']
        if not (isinstance(I, np.ndarray) and I.ndim == 2 and I.shape[1] == d and np.issubdtype(I.dtype, np.integer)):
            return fail(f'batch {k} is not an integer array of width d', got=[str(I.dtype), list(I.shape)])
        if len(I) == 0:
            return fail(f'batch {k} is empty')
        if (I < 0).any() or (I >= np.array(ns)).any():
            return fail(f'batch {k} leaves the tensor bounds', got=I.tolist())
        rows_ = list(map(tuple, I.tolist()))
        if len(set(rows_)) != len(rows_):
            return fail(f'batch {k} contains a duplicate multi-index', got=I.tolist())
        if cfg['cache'] is not None:
            if seen & set(rows_):
                return fail(f'batch {k} re-evaluates a cached multi-index', got=sorted(seen & set(rows_))[:3])
        if b['ok']:
            ev_rows += len(I)
            seen |= set(rows_)
        elif k != len(rec['batches']) - 1:
            return fail('objective called again after it returned None')
    if cfg['m'] and ev_rows > cfg['m']:
        return fail('budget exceeded', got=ev_rows, expected=cfg['m'])
    if info['m'] != ev_rows:
        return fail('info[m] differs from the number of evaluated indices', got=info['m'], expected=ev_rows)
    stop = info['stop']
    if stop not in ('m', 'e', 'nswp', 'e_vld', 'cb', 'func', 'conv'):
        return fail('undocumented stop reason', got=repr(stop))
    # requests: every _func_eval call; the last one is unsuccessful iff stop in (m, func) set by it
    reqs = rec['requests']
    nreq_ok = len(reqs) - (1 if stop in ('m', 'func') else 0)
    total_req = sum(len(r) for r in reqs[:nreq_ok])
    if cfg['cache'] is None:
        if info['m_cache'] != 0:
            return fail('m_cache counted without a cache', got=info['m_cache'])
        if total_req != ev_rows or len(reqs) != len(rec['batches']) + (1 if stop == 'm' else 0):
            return fail('without cache every requested index must be evaluated', got=[total_req, ev_rows])
    else:
        if info['m_cache'] != total_req - ev_rows:
            return fail('info[m] + info[m_cache] differs from the total number of requested indices (batches served '
                        'entirely from the cache included)', got=info['m_cache'],
                        expected=total_req - ev_rows)
        exp = {tuple(k): float(v) for k, v in cfg['cache']}
        for b in rec['batches']:
            if b['ok']:
                for i, v in zip(b['I'].tolist(), L.objective(cfg, b['I'])):
                    exp[tuple(i)] = float(v)
        if o['cache'] != exp or any(not isinstance(k, tuple) for k in o['cache']):
            return fail('cache does not hold exactly the evaluated index -> value pairs',
                        got=len(o['cache']), expected=len(exp))
    none_last = bool(rec['batches']) and not rec['batches'][-1]['ok']
    if (stop == 'func') != none_last:
        return fail('stop == func inconsistent with the objective returning None', got=stop)
    if stop == 'm':
        if not cfg['m']:
            return fail('stop m without a budget')
        last = reqs[-1]
        cached = set(o['cache']) if o['cache'] is not None else set()
        new = [r for r in last if tuple(r) not in cached]
        if not (info['m'] + len(new) > cfg['m']):
            return fail('stop m although the next batch fits into the budget', got=[info['m'], len(new), cfg['m']])
    if stop == 'nswp' and info['nswp'] != cfg['nswp']:
        return fail('stop nswp with a different sweep count', got=info['nswp'], expected=cfg['nswp'])
    if stop == 'e' and not (cfg['e'] is not None and 0 <= info['e'] <= cfg['e']):
        return fail('stop e with value above threshold', got=info['e'], expected=cfg['e'])
    if stop == 'e_vld' and not (cfg['e_vld'] is not None and 0 <= info['e_vld'] <= cfg['e_vld']):
        return fail('stop e_vld with value above threshold', got=info['e_vld'], expected=cfg['e_vld'])
    if stop == 'cb' and not (o['cbrec'] and o['cbrec'][-1] == cfg['kcb'] == info['nswp']):
        return fail('stop cb but the callback did not just return True', got=[o['cbrec'], info['nswp']])
    if cfg.get('kcb') is not None and cfg['kcb'] in o['cbrec'] and stop not in ('cb', 'conv'):
        return fail('callback returned True but the run went on / reports another reason', got=stop)
    if o['cbrec'] != list(range(1, len(o['cbrec']) + 1)) or (o['cbrec'] and o['cbrec'][-1] != info['nswp'] and
                                                             stop not in ('m', 'func')):
        return fail('callback not called once per sweep', got=[o['cbrec'], info['nswp']])
    if stop == 'cb' and info['m_cache'] > cfg['scale'] * info['m']:
        return fail('stop cb although the conv rule (checked first) holds', got=[info['m_cache'], info['m']])
    if info['nswp'] >= 1:
        # priority of _info_appr (values reported by a post-sweep stop are those the decision was taken on)
        hit_ev = cfg['e_vld'] is not None and 0 <= info['e_vld'] <= cfg['e_vld'] and not np.isinf(info['e_vld'])
        hit_e = cfg['e'] is not None and 0 <= info['e'] <= cfg['e'] and not np.isinf(info['e'])
        if stop == 'e' and hit_ev:
            return fail('stop e although the e_vld criterion (higher priority) is met', got=[info['e'], info['e_vld']])
        if stop == 'nswp' and (hit_e or hit_ev):
            return fail('stop nswp although the e / e_vld criterion (higher priority) is met',
                        got=[info['e'], info['e_vld']])
    if stop == 'conv' and not info['m_cache'] > cfg['scale'] * info['m']:
        return fail('stop conv inconsistent with the counters', got=[info['m_cache'], info['m']])
    if cfg['nswp'] is not None and info['nswp'] > cfg['nswp']:
        return fail('more sweeps than nswp', got=info['nswp'])
    if stop not in ('m', 'func') and cfg['nswp'] is not None and info['nswp'] < cfg['nswp'] and stop == 'nswp':
        return fail('nswp reported early')
    # well-formed finite result of the original shape
    if not (isinstance(Y, list) and len(Y) == d):
        return fail('result is not a list of d cores')
    r = 1
    for k, G in enumerate(Y):
        if not (isinstance(G, np.ndarray) and G.ndim == 3 and G.shape[0] == r and G.shape[1] == ns[k]):
            return fail(f'result core {k} is ill-shaped', got=[list(np.shape(g)) for g in Y])
        if not np.isfinite(G).all():
            return fail(f'result core {k} is not finite')
        r = G.shape[2]
    if r != 1:
        return fail('last rank of the result is not 1', got=[list(np.shape(g)) for g in Y])
    return None


def search(R, ctx, deep, hints):
    tn = C.import_teneva()
    rng = ctx['rng']
    fails, n = [], 0
    cand = []
    for h in hints[:20]:
        try:
            cand.append(h['input'][1])
        except Exception:
            pass
    for _ in range(1500 if deep else 250):
        cand.append(L.gen_cfg(rng))
    for _ in range(60 if deep else 12):
        cand.append(L.gen_prio(rng))
    # degenerate objectives (zero fibres): every family x cache x dr_min, small budgets too
    for fam in ('delta', 'block', 'zero', 'i0'):
        for cache in (True, False):
            for dr_min in (0, 1, 2):
                for bud in (False, True):
                    for _ in range(3 if deep else 1):
                        cand.append(L.gen_degen(rng, fam=fam, cache=cache, dr_min=dr_min, budget=bud))
    for _ in range(200 if deep else 30):
        cand.append(L.gen_degen(rng))
    for j in range(12 if deep else 3):
        c0 = L.gen_cfg(rng, small=not deep or j % 2 == 0, kind='nswp')
        c0['nswp'] = rng.choice([1, 2])
        if j % 2 == 0:
            c0['cache'] = []
        cand += fault_family(tn, c0)
    for hasI in (False, True):
        for hasy in (False, True):
            for e_vld in (None, 1e-3):
                c = L.gen_cfg(rng, small=True, kind='nswp')
                c.update(m=None, e=None, nswp=None, hasI=hasI, hasy=hasy, e_vld=e_vld, kNone=None, kcb=None)
                if hasI and hasy and e_vld is not None:
                    c['e_vld'] = 1e9
                cand.append(c)
    for cfg in cand:
        n += 1
        f = oracle(tn, cfg)
        if f:
            fails.append(f)
            if len(fails) >= 5:
                break
    R.search.append(dict(name='C06 oracle: recount from the instrumented objective, stop contract, result shape',
                         evaluations=n, failures=len(fails), deep=deep))
    return fails


def replay(data):
    tn = C.import_teneva()
    p = data['payload']
    print(data['what'])
    cfg = p.get('input')
    if isinstance(cfg, dict) and 'ns' in cfg:
        cfg = dict(cfg)
        if cfg.get('cache') is not None:
            cfg['cache'] = [(list(k), v) for k, v in cfg['cache']]
        f = oracle(tn, cfg)
        print('replayed:', f)
        return 1 if f else 0
    return 1
