"""Fail-closed translator: teneva/*.py  ->  effect skeletons (coq/Gen/SkelC10.v) for property C10.

For every function of every module (nested functions, lambdas, methods included) it emits a value of the
inductive type `cmd` of coq/Model/Effects.v: the events that matter for "results depend only on arguments
and seed" in program order, with branching, loops, early exits and try blocks kept.  What it does not
understand in a position that matters becomes `Unknown "<reason>"`, on which the Coq checker computes false.

Trusted rules of this translator (validated dynamically by harness/props/C10.py) are listed in RULES below.
"""
import ast
import builtins
import glob
import json
import os

RULES = [
    'any expression resolving (through the import tables) to numpy.random.<x> other than default_rng(...) is a GlobalDraw; '
    'so is any use of the stdlib module random; an alias of the module numpy.random itself is a GlobalDraw',
    'x = teneva._rand(y) / np.random.default_rng(y) is MkGen; utils._rand itself must have exactly the pinned shape '
    '(int or None -> default_rng(seed), anything else returned as is), else it is Unknown',
    'a method call on a generator variable is DrawFrom; generator variables are found by flow (assigned from _rand, '
    'parameters named seed, parameters that receive a seed / generator at some call site, receivers of Generator-only methods)',
    'a generator / seed variable used in any other way than: receiver of a method, argument of _rand, argument of a teneva '
    'callee, `is None` / isinstance test, argument of a user callback (= DrawFrom) is Unknown (escape)',
    'parameters with a dict / list literal default are default dictionaries; every occurrence of such a variable must be a '
    'constant-key read / write, update({const keys}), get, `in`, iteration / keys / values / items / len (ReadAll), or an '
    'argument of a teneva callee (binding) or of a user callback (ReadAll); anything else is Unknown',
    'perf_counter values may only be assigned to a variable, passed to a teneva callee, or stored under a constant key of a '
    'dictionary (WriteT); any other use is Unknown',
    'reads of a dictionary inside an f-string that only reaches print() are LogRead (not part of the result)',
    'calls into numpy (except numpy.random), scipy, opt_einsum, itertools, functools, pickle, numba, math and methods of '
    'untyped receivers are effect free; file contents named by a path argument count as arguments',
    'nested functions and lambdas are lambda-lifted: the seed / generator / dictionary / callback variables they capture '
    'become explicit bindings; an effectful closure that is stored or returned is Unknown',
    'constructor calls of teneva classes are inlined at the call site (self.x renamed to <obj>.x); generator fields of self '
    'are implicit parameters of the methods',
    'implicit exceptions raised inside NumPy are not modelled outside try blocks (they abort the call and are functions of '
    'the data); inside a try block every statement may raise',
]

GEN_ONLY_METHODS = {
    'choice', 'shuffle', 'permutation', 'permuted', 'normal', 'uniform', 'integers', 'standard_normal', 'random',
    'exponential', 'gamma', 'beta', 'binomial', 'poisson', 'multivariate_normal', 'bytes', 'randn', 'rand', 'randint',
    'random_sample', 'standard_cauchy', 'standard_exponential', 'standard_gamma', 'standard_t', 'laplace', 'lognormal',
    'multinomial', 'dirichlet', 'geometric', 'triangular', 'weibull', 'chisquare', 'spawn', 'bit_generator'}
GEN_CTORS = {'numpy.random.default_rng'}
PURE_ROOTS = {'numpy', 'scipy', 'opt_einsum', 'itertools', 'functools', 'pickle', 'numba', 'math', 'copy', 'warnings'}
CLOCKS = {'time.perf_counter', 'time.time', 'time.monotonic', 'time.process_time', 'time.perf_counter_ns', 'time.time_ns'}
BAD_BUILTINS = {'getattr', 'setattr', 'delattr', 'eval', 'exec', 'globals', 'locals', 'vars', '__import__', 'compile',
                'hash', 'id', 'input', 'breakpoint', 'memoryview', 'object'}
MUT_METHODS_D = {'update', 'get', 'keys', 'values', 'items', 'pop', 'setdefault', 'clear', 'copy', 'append', 'extend',
                 'popitem', 'insert', 'remove', 'sort', 'reverse', '__contains__'}
TIMING_KEYS = ['t']


def const_str(n):
    return n.value if isinstance(n, ast.Constant) and isinstance(n.value, str) else None


class Fn:
    def __init__(self, qname, module, node, parent=None, cls=None, kind='def'):
        self.qname, self.module, self.node, self.parent, self.cls, self.kind = qname, module, node, parent, cls, kind
        self.nested = {}       # name -> Fn (direct nested defs)
        self.lambdas = {}      # id(ast.Lambda) -> Fn
        a = node.args
        self.params = [x.arg for x in a.posonlyargs + a.args]
        self.kwonly = [x.arg for x in a.kwonlyargs]
        self.vararg = a.vararg.arg if a.vararg else None
        self.kwarg = a.kwarg.arg if a.kwarg else None
        self.defaults = {}
        pos = a.posonlyargs + a.args
        for p, d in zip(pos[len(pos) - len(a.defaults):], a.defaults):
            self.defaults[p.arg] = d
        for p, d in zip(a.kwonlyargs, a.kw_defaults):
            if d is not None:
                self.defaults[p.arg] = d
        self.is_method = cls is not None and kind == 'def' and parent is None
        self.is_property = False
        self.exported = False
        self.line = node.lineno
        # discovered sets (fixpoint)
        self.gen = set()       # generator / seed variables (params, locals, lifted, 'self.x')
        self.dicts = set()     # tracked dictionary variables
        self.called = set()    # callable variables that are called (params / lifted)
        self.clock = set()     # clock tainted variables
        self.bound = set()     # names bound in this function (params, assigned, loop targets, ...)
        self.body_cmd = None

    @property
    def all_params(self):
        ps = list(self.params)
        if self.is_method and ps and ps[0] == 'self':
            ps = ps[1:]
        return ps + self.kwonly

    def ancestors(self):
        f = self.parent
        while f is not None:
            yield f
            f = f.parent


class Module:
    def __init__(self, name, path):
        self.name, self.path = name, path
        self.tree = ast.parse(open(path).read(), filename=path)
        self.imports = {}      # alias -> dotted path
        self.funcs = {}        # name -> Fn
        self.classes = {}      # name -> {method name -> Fn}
        self.consts = set()    # module level simple names
        self.problems = []     # module level constructs that are not understood


class Program:
    def __init__(self, repo):
        self.repo = repo
        self.mods = {}
        self.fns = {}          # qname -> Fn
        self.exports = {}      # exported name -> ('fn', Fn) | ('class', module, clsname)
        self.sites = []        # site id -> dict(file, line, what)
        self.notes = []
        self.init_problems = []
        self.changed = False
        self.load()

    # ------------------------------------------------------------------ loading
    def load(self):
        tdir = os.path.join(self.repo, 'teneva')
        for p in sorted(glob.glob(os.path.join(tdir, '*.py'))):
            name = os.path.basename(p)[:-3]
            if name == '__init__':
                continue
            m = Module(name, p)
            self.mods[name] = m
            self.scan_module(m)
        self.scan_init(os.path.join(tdir, '__init__.py'))

    def scan_imports(self, m, st):
        if isinstance(st, ast.Import):
            for a in st.names:
                m.imports[a.asname or a.name.split('.')[0]] = a.name if a.asname else a.name.split('.')[0]
            return True
        if isinstance(st, ast.ImportFrom):
            if st.level and st.level > 0:
                m.problems.append((st.lineno, 'relative import inside a module'))
                return True
            for a in st.names:
                if a.name == '*':
                    m.problems.append((st.lineno, f'star import from {st.module}'))
                else:
                    m.imports[a.asname or a.name] = f'{st.module}.{a.name}'
            return True
        return False

    def scan_module(self, m):
        for st in m.tree.body:
            if self.scan_imports(m, st):
                continue
            if isinstance(st, ast.Expr) and isinstance(st.value, ast.Constant):
                continue
            if isinstance(st, ast.FunctionDef):
                f = Fn(f'{m.name}.{st.name}', m, st)
                m.funcs[st.name] = f
                self.add_fn(f)
            elif isinstance(st, ast.ClassDef):
                meths = {}
                if st.bases or st.keywords or st.decorator_list:
                    m.problems.append((st.lineno, f'class {st.name} with bases / decorators'))
                for s2 in st.body:
                    if isinstance(s2, ast.Expr) and isinstance(s2.value, ast.Constant):
                        continue
                    if isinstance(s2, ast.FunctionDef):
                        f = Fn(f'{m.name}.{st.name}.{s2.name}', m, s2, cls=st.name)
                        for d in s2.decorator_list:
                            if isinstance(d, ast.Name) and d.id == 'property':
                                f.is_property = True
                        meths[s2.name] = f
                        self.add_fn(f)
                    elif isinstance(s2, ast.Pass):
                        continue
                    else:
                        m.problems.append((s2.lineno, f'class level statement in {st.name}'))
                m.classes[st.name] = meths
            elif isinstance(st, ast.Try):
                # only `try: import x ... except: FLAG = False`
                ok = True
                for s2 in st.body + [s for h in st.handlers for s in h.body] + st.orelse + st.finalbody:
                    if self.scan_imports(m, s2):
                        continue
                    if isinstance(s2, ast.Assign) and all(isinstance(t, ast.Name) for t in s2.targets) \
                            and isinstance(s2.value, ast.Constant):
                        for t in s2.targets:
                            m.consts.add(t.id)
                        continue
                    ok = False
                if not ok:
                    m.problems.append((st.lineno, 'module level try block with other than imports / constants'))
            elif isinstance(st, ast.Assign) and all(isinstance(t, ast.Name) for t in st.targets) and \
                    isinstance(st.value, ast.Constant):
                for t in st.targets:
                    m.consts.add(t.id)
            else:
                m.problems.append((st.lineno, f'module level statement {type(st).__name__}'))

    def add_fn(self, f):
        self.fns[f.qname] = f
        self.scan_nested(f)

    def scan_nested(self, f):
        """register nested defs and lambdas (also those in default values), compute bound names"""
        node = f.node
        bound = set(f.params + f.kwonly)
        if f.vararg:
            bound.add(f.vararg)
        if f.kwarg:
            bound.add(f.kwarg)
        body = node.body if isinstance(node.body, list) else [node.body]

        def walk(n):
            if isinstance(n, (ast.FunctionDef, ast.AsyncFunctionDef)):
                g = Fn(f'{f.qname}.{n.name}', f.module, n, parent=f, cls=f.cls, kind='def')
                f.nested[n.name] = g
                bound.add(n.name)
                self.add_fn(g)
                for d in n.args.defaults + [d for d in n.args.kw_defaults if d is not None] + n.decorator_list:
                    walk(d)
                return
            if isinstance(n, ast.Lambda):
                g = Fn(f'{f.qname}.<lambda@{n.lineno}:{n.col_offset}>', f.module, n, parent=f, cls=f.cls, kind='lambda')
                f.lambdas[id(n)] = g
                self.add_fn(g)
                for d in n.args.defaults + [d for d in n.args.kw_defaults if d is not None]:
                    walk(d)
                return
            if isinstance(n, ast.ClassDef):
                return
            if isinstance(n, ast.Name) and isinstance(n.ctx, (ast.Store, ast.Del)):
                bound.add(n.id)
            if isinstance(n, ast.ExceptHandler) and n.name:
                bound.add(n.name)
            if isinstance(n, (ast.Import, ast.ImportFrom)):
                for a in n.names:
                    bound.add(a.asname or a.name.split('.')[0])
            for c in ast.iter_child_nodes(n):
                walk(c)
        for s in body:
            walk(s)
        # lambdas in this function's own default values belong to the enclosing scope, but we register them here
        for d in f.defaults.values():
            for n in ast.walk(d):
                if isinstance(n, ast.Lambda) and id(n) not in f.lambdas:
                    g = Fn(f'{f.qname}.<lambda@{n.lineno}:{n.col_offset}>', f.module, n, parent=None, cls=None, kind='lambda')
                    f.lambdas[id(n)] = g
                    self.add_fn(g)
        f.bound = bound

    def scan_init(self, path):
        tree = ast.parse(open(path).read(), filename=path)
        for st in tree.body:
            if isinstance(st, ast.Expr) and isinstance(st.value, ast.Constant):
                continue
            if isinstance(st, ast.Assign) and all(isinstance(t, ast.Name) for t in st.targets) and \
                    isinstance(st.value, ast.Constant):
                continue
            if isinstance(st, ast.ImportFrom) and st.level == 1 and st.module in self.mods:
                m = self.mods[st.module]
                for a in st.names:
                    if a.name == '*':
                        self.init_problems.append((st.lineno, f'star import from .{st.module}'))
                        continue
                    nm = a.asname or a.name
                    if a.name in m.funcs:
                        self.exports[nm] = ('fn', m.funcs[a.name])
                        m.funcs[a.name].exported = True
                    elif a.name in m.classes:
                        self.exports[nm] = ('class', m, a.name)
                        for f in m.classes[a.name].values():
                            f.exported = True
                    else:
                        self.init_problems.append((st.lineno, f'{st.module}.{a.name} not found'))
                continue
            self.init_problems.append((st.lineno, f'__init__ statement {type(st).__name__}'))

    # ------------------------------------------------------------------ helpers
    def site(self, fn, node, what):
        self.sites.append(dict(file=os.path.relpath(fn.module.path, self.repo), line=getattr(node, 'lineno', fn.line),
                               fn=fn.qname, what=what))
        return len(self.sites) - 1

    def add(self, s, x):
        if x not in s:
            s.add(x)
            self.changed = True


# --------------------------------------------------------------------------- IR constructors (python side)
def seq(cs):
    out = []
    for c in cs:
        if c is None or c == ('skip',):
            continue
        if c[0] == 'seq':
            out.extend(c[1])
        else:
            out.append(c)
    if not out:
        return ('skip',)
    if len(out) == 1:
        return out[0]
    return ('seq', out)


def has_events(c):
    if c[0] == 'skip':
        return False
    if c[0] == 'seq':
        return any(has_events(x) for x in c[1])
    return True


class Tr:
    """translation of one function body"""

    def __init__(self, P, fn):
        self.P, self.fn, self.m = P, fn, fn.module
        self.logvars = self.find_logvars()
        self.in_log = 0
        self.try_depth = 0
        self.objs = {}     # local variable -> (module, class) for objects built by a teneva constructor

    # ---- scopes
    def scope_of(self, name):
        """the function (self.fn or an ancestor) that binds `name`, or None"""
        f = self.fn
        while f is not None:
            if name in f.bound:
                return f
            f = f.parent
        return None

    def is_gen(self, name):
        f = self.scope_of(name) if not name.startswith('self.') else self.fn
        if name.startswith('self.'):
            return name in self.class_genfields()
        return f is not None and name in f.gen

    def is_dict(self, name):
        f = self.scope_of(name)
        return f is not None and name in f.dicts

    def is_clock(self, name):
        f = self.scope_of(name)
        return f is not None and name in f.clock

    def class_genfields(self):
        if self.fn.cls is None:
            return set()
        return self.P.genfields.get((self.m.name, self.fn.cls), set())

    def lift(self, name):
        """mark a captured special variable as an (implicit) parameter of this function and of the functions between
        it and the binder"""
        f = self.fn
        b = self.scope_of(name)
        while f is not None and f is not b:
            self.P.add(self.P.lifted.setdefault(f.qname, set()), name)
            f = f.parent

    def U(self, node, msg):
        return ('ev', ('Unknown', f'{self.fn.qname}:{getattr(node, "lineno", self.fn.line)}: {msg}'))

    def find_logvars(self):
        """local variables that only ever receive strings and only reach print(): text = ''; text += f'..'; print(text)"""
        node = self.fn.node
        if isinstance(node, ast.Lambda):
            return set()
        cand, bad = set(), set()
        for n in ast.walk(node):
            if isinstance(n, ast.Assign) and len(n.targets) == 1 and isinstance(n.targets[0], ast.Name) and \
                    isinstance(n.value, (ast.JoinedStr, ast.Constant)) and \
                    (isinstance(n.value, ast.JoinedStr) or isinstance(n.value.value, str)):
                cand.add(n.targets[0].id)
            if isinstance(n, ast.AugAssign) and isinstance(n.target, ast.Name) and isinstance(n.op, ast.Add) and \
                    isinstance(n.value, (ast.JoinedStr, ast.Constant)):
                cand.add(n.target.id)
        if not cand:
            return set()
        okuse = set()
        for n in ast.walk(node):
            if isinstance(n, ast.Assign) and len(n.targets) == 1 and isinstance(n.targets[0], ast.Name) and \
                    n.targets[0].id in cand:
                if not isinstance(n.value, (ast.JoinedStr, ast.Constant)):
                    bad.add(n.targets[0].id)
                okuse.add(id(n.targets[0]))
            if isinstance(n, ast.AugAssign) and isinstance(n.target, ast.Name) and n.target.id in cand:
                if not (isinstance(n.op, ast.Add) and isinstance(n.value, (ast.JoinedStr, ast.Constant))):
                    bad.add(n.target.id)
                okuse.add(id(n.target))
            if isinstance(n, ast.Call) and isinstance(n.func, ast.Name) and n.func.id == 'print':
                for a in n.args:
                    if isinstance(a, ast.Name):
                        okuse.add(id(a))
        for n in ast.walk(node):
            if isinstance(n, ast.Name) and n.id in cand and id(n) not in okuse:
                bad.add(n.id)
        return cand - bad

    # ---- name resolution
    def dotted(self, n):
        """dotted external path of an expression made of Name / Attribute, through the import table; None if the root is
        not an imported name (or is shadowed by a local binding)"""
        parts = []
        while isinstance(n, ast.Attribute):
            parts.append(n.attr)
            n = n.value
        if not isinstance(n, ast.Name):
            return None
        if self.scope_of(n.id) is not None:
            return None
        if n.id not in self.m.imports:
            return None
        return '.'.join([self.m.imports[n.id]] + parts[::-1])

    def resolve_fn(self, n):
        """function / class denoted by a Name / Attribute expression: ('fn', Fn) | ('class', module, name) | None"""
        if isinstance(n, ast.Name):
            b = self.scope_of(n.id)
            if b is not None:
                if n.id in b.nested:
                    return ('fn', b.nested[n.id])
                return None
            if n.id in self.m.funcs:
                return ('fn', self.m.funcs[n.id])
            if n.id in self.m.classes:
                return ('class', self.m, n.id)
            d = self.m.imports.get(n.id)
            if d and d.startswith('teneva.'):
                return self.P.exports.get(d.split('.')[-1])
            return None
        if isinstance(n, ast.Attribute):
            if isinstance(n.value, ast.Name) and self.scope_of(n.value.id) is None:
                if self.m.imports.get(n.value.id) == 'teneva':
                    return self.P.exports.get(n.attr) or ('missing', n.attr)
            if isinstance(n.value, ast.Name) and n.value.id == 'self' and self.fn.cls is not None:
                meths = self.m.classes.get(self.fn.cls, {})
                if n.attr in meths:
                    return ('fn', meths[n.attr])
        return None

    # ---- callable origins
    def fn_body_nodes(self, f):
        """all AST nodes of f's own body (not of nested defs / lambdas)"""
        out = []
        body = f.node.body if isinstance(f.node.body, list) else [f.node.body]

        def walk(n):
            out.append(n)
            for c in ast.iter_child_nodes(n):
                if isinstance(c, (ast.FunctionDef, ast.AsyncFunctionDef, ast.Lambda, ast.ClassDef)):
                    out.append(c)
                    continue
                walk(c)
        for s in body:
            walk(s)
        return out

    @staticmethod
    def target_names(t):
        return {n.id for n in ast.walk(t) if isinstance(n, ast.Name)}

    def origins_var(self, name, seen):
        b = self.scope_of(name)
        if b is None:
            r = self.resolve_fn(ast.Name(id=name, ctx=ast.Load()))
            if r and r[0] == 'fn':
                return {('clos', r[1].qname)}
            return {('pure',)}
        if name in b.nested:
            return {('clos', b.nested[name].qname)}
        key = (b.qname, name)
        if key in seen:
            return set()
        seen = seen | {key}
        out = set()
        if name in b.params + b.kwonly or name == b.vararg or name == b.kwarg:
            out.add(('param', name))
        sub = Tr(self.P, b) if b is not self.fn else self
        for n in sub.fn_body_nodes(b):
            if isinstance(n, ast.Assign):
                for t in n.targets:
                    if isinstance(t, ast.Name) and t.id == name:
                        out |= sub.origins(n.value, seen)
                    elif name in self.target_names(t):
                        if isinstance(t, (ast.Tuple, ast.List)) and isinstance(n.value, (ast.Tuple, ast.List)) and \
                                len(t.elts) == len(n.value.elts):
                            for te, ve in zip(t.elts, n.value.elts):
                                if name in self.target_names(te):
                                    out |= sub.origins(ve, seen)
                        else:
                            out |= sub.origins(n.value, seen)
            elif isinstance(n, (ast.For, ast.comprehension)) and name in self.target_names(n.target):
                out |= sub.origins(n.iter, seen)
            elif isinstance(n, (ast.AugAssign, ast.AnnAssign)) and name in self.target_names(n.target):
                out.add(('unknown', 'augmented assignment'))
            elif isinstance(n, ast.withitem) and n.optional_vars is not None and name in self.target_names(n.optional_vars):
                out.add(('pure',))
            elif isinstance(n, ast.ExceptHandler) and n.name == name:
                out.add(('pure',))
        return out

    def origins(self, e, seen=frozenset()):
        if isinstance(e, ast.Name):
            return self.origins_var(e.id, seen)
        if isinstance(e, ast.Attribute):
            d = self.dotted(e)
            if d:
                if d.startswith('numpy.random') or d == 'random' or d.startswith('random.'):
                    return {('glob',)}
                if d.split('.')[0] in PURE_ROOTS:
                    return {('pure',)}
            r = self.resolve_fn(e)
            if r and r[0] == 'fn':
                return {('clos', r[1].qname)}
            if r:
                return {('unknown', 'class or missing name used as a function value')}
            if isinstance(e.value, ast.Name) and e.value.id == 'self':
                return {('unknown', f'callable stored in self.{e.attr}')}
            return {('pure',)}
        if isinstance(e, ast.Lambda):
            g = self.lambda_fn(e)
            return {('clos', g.qname)} if g else {('unknown', 'lambda')}
        if isinstance(e, ast.IfExp):
            return self.origins(e.body, seen) | self.origins(e.orelse, seen)
        if isinstance(e, ast.BoolOp):
            out = set()
            for v in e.values:
                out |= self.origins(v, seen)
            return out
        if isinstance(e, (ast.List, ast.Tuple, ast.Set)):
            out = set()
            for v in e.elts:
                out |= self.origins(v, seen)
            return out
        if isinstance(e, ast.Dict):
            out = set()
            for v in e.values:
                out |= self.origins(v, seen)
            return out
        if isinstance(e, (ast.ListComp, ast.GeneratorExp, ast.SetComp)):
            return self.origins(e.elt, seen)
        if isinstance(e, ast.BinOp):
            return self.origins(e.left, seen) | self.origins(e.right, seen)
        if isinstance(e, (ast.Subscript, ast.Starred)):
            return self.origins(e.value, seen)
        if isinstance(e, ast.Constant):
            return set()
        if isinstance(e, ast.Call):
            if isinstance(e.func, ast.Name) and self.scope_of(e.func.id) is None and \
                    e.func.id in ('zip', 'enumerate', 'list', 'tuple', 'reversed', 'sorted', 'iter', 'next', 'set'):
                out = set()
                for a in e.args:
                    out |= self.origins(a, seen)
                return out
            return {('pure',)}
        return {('unknown', type(e).__name__)}

    def lambda_fn(self, n):
        f = self.fn
        while f is not None:
            if id(n) in f.lambdas:
                return f.lambdas[id(n)]
            f = f.parent
        return None

    # ---- expressions
    def exprs(self, ns):
        out = []
        for n in ns:
            out += self.expr(n)
        return out

    def gen_name(self, n):
        """name of the generator / seed variable denoted by n (Name or self.x), or None"""
        if isinstance(n, ast.Name) and self.is_gen(n.id):
            return n.id
        if isinstance(n, ast.Attribute) and isinstance(n.value, ast.Name) and n.value.id == 'self' and \
                ('self.' + n.attr) in self.class_genfields():
            return 'self.' + n.attr
        if isinstance(n, ast.Attribute) and isinstance(n.value, ast.Name) and n.value.id in self.objs:
            m, c = self.objs[n.value.id]
            if ('self.' + n.attr) in self.P.genfields.get((m.name, c), set()):
                return f'{n.value.id}.{n.attr}'
        return None

    def expr(self, n):
        P = self.P
        if n is None or isinstance(n, ast.Constant):
            return []
        if isinstance(n, ast.Name):
            if n.id in self.logvars:
                return []
            b = self.scope_of(n.id)
            if b is not None:
                if self.is_gen(n.id):
                    return [self.U(n, f'generator / seed variable {n.id} escapes')]
                if self.is_dict(n.id):
                    return [self.U(n, f'default dictionary variable {n.id} escapes')]
                if self.is_clock(n.id):
                    return [self.U(n, f'clock value {n.id} escapes')]
                if n.id in b.nested:
                    g = b.nested[n.id]
                    if g.body_cmd is None or has_events(g.body_cmd):
                        if P.final:
                            return [self.U(n, f'effectful closure {n.id} used as a value')]
                return []
            d = self.dotted(n)
            if d:
                return self.ext_value(n, d)
            if n.id in self.m.funcs or n.id in self.m.classes or n.id in self.m.consts:
                return []
            if n.id in BAD_BUILTINS:
                return [self.U(n, f'builtin {n.id}')]
            if hasattr(builtins, n.id):
                return []
            P.note(self.fn, n, f'unresolved name {n.id}: NameError at run time')
            return [('raise',)]
        if isinstance(n, ast.Attribute):
            d = self.dotted(n)
            if d:
                return self.ext_value(n, d)
            g = self.gen_name(n)
            if g:
                return [self.U(n, f'generator field {g} escapes')]
            if isinstance(n.value, ast.Name) and n.value.id == 'self' and self.fn.cls is not None:
                meths = self.m.classes.get(self.fn.cls, {})
                if n.attr in meths and meths[n.attr].is_property:
                    return [self.mk_call(n, meths[n.attr], [], [], via_self='self')]
            if isinstance(n.value, ast.Name) and self.is_gen(n.value.id):
                return [('ev', ('DrawFrom', P.site(self.fn, n, f'attribute {n.attr} of generator {n.value.id}'), n.value.id))]
            return self.expr(n.value)
        if isinstance(n, ast.Call):
            return self.call(n)
        if isinstance(n, ast.Subscript):
            if isinstance(n.value, ast.Name) and self.is_dict(n.value.id):
                d = n.value.id
                self.lift(d)
                k = const_str(n.slice)
                if k is not None:
                    return [('ev', ('LogRead' if self.in_log else 'Read', d, k))]
                return self.expr(n.slice) + ([] if self.in_log else [('ev', ('ReadAll', d))])
            return self.expr(n.value) + self.expr(n.slice)
        if isinstance(n, ast.Lambda):
            g = self.lambda_fn(n)
            if g is None:
                return [self.U(n, 'lambda not registered')]
            if (g.body_cmd is None or has_events(g.body_cmd)) and P.final:
                return [self.U(n, 'effectful lambda used as a value')]
            return []
        if isinstance(n, ast.IfExp):
            t = self.expr(n.test)
            a, b = seq(self.expr(n.body)), seq(self.expr(n.orelse))
            if has_events(a) or has_events(b):
                return t + [('if', P.site(self.fn, n, 'conditional expression'), a, b)]
            return t
        if isinstance(n, ast.BoolOp):
            out = self.expr(n.values[0])
            rest = seq(self.exprs(n.values[1:]))
            if has_events(rest):
                # later operands are evaluated conditionally (short circuit); nesting is irrelevant for a must-analysis
                # only if each operand is guarded separately:
                cur = ('skip',)
                for v in reversed(n.values[1:]):
                    cur = ('if', P.site(self.fn, n, 'short circuit'), seq(self.expr(v) + [cur]), ('skip',))
                out.append(cur)
            return out
        if isinstance(n, ast.Compare):
            if len(n.ops) == 1 and isinstance(n.ops[0], (ast.In, ast.NotIn)) and \
                    isinstance(n.comparators[0], ast.Name) and self.is_dict(n.comparators[0].id):
                d = n.comparators[0].id
                self.lift(d)
                k = const_str(n.left)
                if k is not None:
                    return [('ev', ('LogRead' if self.in_log else 'Read', d, k))]
                return self.expr(n.left) + [('ev', ('ReadAll', d))]
            if len(n.ops) == 1 and isinstance(n.ops[0], (ast.Is, ast.IsNot)) and self.gen_name(n.left) and \
                    isinstance(n.comparators[0], ast.Constant):
                return []
            return self.expr(n.left) + self.exprs(n.comparators)
        if isinstance(n, (ast.ListComp, ast.SetComp, ast.GeneratorExp, ast.DictComp)):
            return self.comp(n)
        if isinstance(n, ast.JoinedStr):
            return self.exprs(n.values)
        if isinstance(n, ast.FormattedValue):
            return self.expr(n.value) + self.expr(n.format_spec)
        if isinstance(n, (ast.Tuple, ast.List, ast.Set)):
            return self.exprs(n.elts)
        if isinstance(n, ast.Dict):
            out = []
            for k, v in zip(n.keys, n.values):
                out += self.expr(k) + self.expr(v)
            return out
        if isinstance(n, ast.Starred):
            return self.expr(n.value)
        if isinstance(n, ast.BinOp):
            return self.expr(n.left) + self.expr(n.right)
        if isinstance(n, ast.UnaryOp):
            if isinstance(n.op, ast.Not) and isinstance(n.operand, ast.Name) and self.is_dict(n.operand.id):
                self.lift(n.operand.id)
                return [('ev', ('ReadAll', n.operand.id))]
            return self.expr(n.operand)
        if isinstance(n, ast.Slice):
            return self.expr(n.lower) + self.expr(n.upper) + self.expr(n.step)
        return [self.U(n, f'expression {type(n).__name__}')]

    def ext_value(self, n, d):
        """a Name / Attribute that denotes something imported (dotted path d), used as a value"""
        P = self.P
        root = d.split('.')[0]
        if d.startswith('numpy.random'):
            if d in GEN_CTORS:
                return [self.U(n, f'{d} used as a value')]
            return [('ev', ('GlobalDraw', P.site(self.fn, n, f'use of {d}')))]
        if d == 'random' or d.startswith('random.'):
            return [('ev', ('GlobalDraw', P.site(self.fn, n, f'use of stdlib {d}')))]
        if d in CLOCKS:
            return [self.U(n, f'clock {d} used outside the timing pattern')]
        if root == 'time':
            return []
        if root in PURE_ROOTS or root == 'teneva':
            return []
        return [self.U(n, f'use of unknown module {d}')]

    def comp(self, n):
        P = self.P
        gens = n.generators
        if isinstance(n, ast.DictComp):
            inner = self.expr(n.key) + self.expr(n.value)
        else:
            inner = self.expr(n.elt)
        cur = seq(inner)
        first = None
        for g in reversed(gens):
            conds = []
            for c in g.ifs:
                conds += self.expr(c)
            if g.ifs and has_events(cur):
                cur = ('if', P.site(self.fn, n, 'comprehension filter'), cur, ('skip',))
            body = seq(conds + [cur])
            it = self.iter_expr(g.iter)
            if g is gens[0]:
                first = it
                cur = ('loop', P.site(self.fn, n, 'comprehension'), body) if has_events(body) else ('skip',)
            else:
                body2 = seq(it + [('loop', P.site(self.fn, n, 'comprehension'), body) if has_events(body) else ('skip',)])
                cur = body2
        return first + [cur]

    def iter_expr(self, it):
        """events of evaluating an iterable; iterating over a default dictionary is ReadAll"""
        if isinstance(it, ast.Name) and self.is_dict(it.id):
            self.lift(it.id)
            return [('ev', ('ReadAll', it.id))]
        return self.expr(it)
