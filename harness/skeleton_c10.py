"""Fail-closed translator: teneva/*.py  ->  effect skeletons (coq/Gen/SkelC10.v) for property C10.

For every function of every module (nested functions, lambdas, methods included) it emits a value of the
inductive type `cmd` of coq/Model/Effects.v: the events that matter for "results depend only on arguments
and seed" in program order, with branching, loops, early exits and try blocks kept.  What it does not
understand in a position that matters becomes `Unknown "<reason>"`, on which the Coq checker computes false.

Trusted rules of this translator (validated dynamically by harness/props/C10.py) are listed in RULES below.
"""
import ast
import builtins
import glob
import json
import os

RULES = [
    'any expression resolving (through the import tables) to numpy.random.<x> other than default_rng(...) is a GlobalDraw; '
    'so is any use of the stdlib module random; an alias of the module numpy.random itself is a GlobalDraw',
    'x = teneva._rand(y) / np.random.default_rng(y) is MkGen; utils._rand itself must have exactly the pinned shape '
    '(int -- or int / np.integer -- or None -> default_rng(seed), anything else returned as is), else it is Unknown',
    'a method call on a generator variable is DrawFrom; generator variables are found by flow (assigned from _rand, '
    'parameters named seed, parameters that receive a seed / generator at some call site, receivers of Generator-only methods)',
    'a generator / seed variable used in any other way than: receiver of a method, argument of _rand, argument of a teneva '
    'callee, `is None` / isinstance test, argument of a user callback (= DrawFrom) is Unknown (escape)',
    'parameters with a dict / list literal default are default dictionaries; every occurrence of such a variable must be a '
    'constant-key read / write, update({const keys}), get, `in`, iteration / keys / values / items / len (ReadAll), or an '
    'argument of a teneva callee (binding) or of a user callback (ReadAll); anything else is Unknown',
    'perf_counter values may only be assigned to a variable, passed to a teneva callee, or stored under a constant key of a '
    'dictionary (WriteT); any other use is Unknown',
    'reads of a dictionary inside an f-string that only reaches print() are LogRead (not part of the result)',
    'calls into numpy (except numpy.random), scipy, opt_einsum, itertools, functools, pickle, numba, math and methods of '
    'untyped receivers are effect free; file contents named by a path argument count as arguments',
    'nested functions and lambdas are lambda-lifted: the seed / generator / dictionary / callback variables they capture '
    'become explicit bindings; an effectful closure that is stored or returned is Unknown',
    'constructor calls of teneva classes are inlined at the call site (self.x renamed to <obj>.x); generator fields of self '
    'are implicit parameters of the methods',
    'a default value computed by a call is charged to the function entry: numpy.random.<x>(..) / random.<x>(..) is a '
    'GlobalDraw, a clock or a generator constructor is Unknown, numpy / builtin calls are effect free, anything else Unknown',
    'X = np.empty(..) / np.empty_like(..) is hidden allocator state: accepted only if the block that creates X stores into X '
    '(or into a row view obtained by iterating over X / zip(.., X, ..)) on every path before X is read -- a store at the top '
    'level of the block, or for loops whose bodies store at their top level with no continue / break / return before the '
    'store; otherwise the event Uninit (rejected). That the index expressions of the stores cover every element is NOT '
    'verified statically (validated by the allocator-poisoning stream of the dynamic harness)',
    'scipy routine(.., overwrite_<x>=True): the named operand must be a fresh array -- not reachable through views (.T, reshape, '
    'transpose, basic slices, asarray, iteration over a list argument) from a parameter of a public function, nor, for a private '
    'helper, from what its call sites pass; an index that is certainly an array (np.where(..)[0], comparison, arithmetic) makes a '
    'copy; otherwise Unknown (the caller\'s data would be overwritten: hidden-state channel). overwrite_ on a non-SciPy call is Unknown',
    'in-place modification (x op= .., x[..] = .., x[..] op= .., del x[..], x.sort / resize / fill / append / extend / .., '
    'np.<f>(.., out=x), np.copyto / put / place(x, ..), shuffle(x)) of something that may share memory with an argument of the user is '
    'Unknown (hidden-state channel). May-alias: views (.T, reshape, transpose, asarray / asanyarray, basic slices), iteration over / '
    'zip of a list argument, teneva helpers that hand their argument back (return-alias summaries, e.g. grid_prep_opt(s)); a plain '
    'assignment `x = fresh` that dominates the statement (same or enclosing block, or guarded by a test that also guards the '
    'statement) kills earlier bindings; returns guarded by _is_num / isinstance scalar / is None are scalars; documented exceptions: '
    'output dictionaries info / cache, `Y if inplace else copy(Y)`, parameters the docstring types as int / float / bool / str, '
    'branches that only an undocumented boolean parameter at a non-default value reaches',
    'third-party routines with hidden randomness (scipy.sparse.linalg.eigsh / eigs / svds without v0=, lobpcg, scipy.stats, scipy.sparse.random, '
    'randomised scipy.linalg.interpolative, stochastic scipy.optimize solvers, kmeans, ...) are Unknown; os / uuid / secrets are unknown modules '
    '(Unknown); id / hash are rejected builtins; copying a seed / generator variable (copy.deepcopy(seed)) is an escape of the variable (Unknown)',
    'implicit exceptions raised inside NumPy are not modelled outside try blocks (they abort the call and are functions of '
    'the data); inside a try block every statement may raise',
]

GEN_ONLY_METHODS = {
    'choice', 'shuffle', 'permutation', 'permuted', 'normal', 'uniform', 'integers', 'standard_normal', 'random',
    'exponential', 'gamma', 'beta', 'binomial', 'poisson', 'multivariate_normal', 'bytes', 'randn', 'rand', 'randint',
    'random_sample', 'standard_cauchy', 'standard_exponential', 'standard_gamma', 'standard_t', 'laplace', 'lognormal',
    'multinomial', 'dirichlet', 'geometric', 'triangular', 'weibull', 'chisquare', 'spawn', 'bit_generator'}
GEN_CTORS = {'numpy.random.default_rng'}
PURE_ROOTS = {'numpy', 'scipy', 'opt_einsum', 'itertools', 'functools', 'pickle', 'numba', 'math', 'copy', 'warnings'}
# third-party routines that own hidden randomness (a start vector / sample drawn from NumPy's global generator or from fresh OS
# entropy) unless the caller supplies it: (dotted name prefix, keyword that makes the call deterministic or None)
HIDDEN_RANDOM = [('scipy.sparse.linalg.eigsh', 'v0'), ('scipy.sparse.linalg.eigs', 'v0'), ('scipy.sparse.linalg.svds', 'v0'),
                 ('scipy.sparse.linalg.lobpcg', None), ('scipy.sparse.linalg._eigen', None), ('scipy.sparse.random', None),
                 ('scipy.sparse.rand', None), ('scipy.linalg.interpolative', None), ('scipy.stats', None),
                 ('scipy.optimize.differential_evolution', None), ('scipy.optimize.dual_annealing', None), ('scipy.optimize.basinhopping', None),
                 ('scipy.cluster.vq.kmeans', None), ('scipy.cluster.vq.kmeans2', None), ('scipy.spatial.distance', None),
                 ('scipy.linalg.clarkson_woodruff_transform', None), ('numpy.testing', None), ('scipy.sparse.linalg.onenormest', None),
                 ('scipy.sparse.linalg.expm_multiply', None), ('scipy.sparse.csgraph', None)]


def hidden_random(d, keywords):
    for pre, kw in HIDDEN_RANDOM:
        if d == pre or d.startswith(pre + '.') or (pre.endswith('_eigen') and d.startswith(pre)):
            if kw is not None and any(k.arg == kw and not (isinstance(k.value, ast.Constant) and k.value.value is None) for k in keywords):
                return None
            return pre
    return None


CLOCKS = {'time.perf_counter', 'time.time', 'time.monotonic', 'time.process_time', 'time.perf_counter_ns', 'time.time_ns'}
BAD_BUILTINS = {'getattr', 'setattr', 'delattr', 'eval', 'exec', 'globals', 'locals', 'vars', '__import__', 'compile',
                'hash', 'id', 'input', 'breakpoint'}
MUT_METHODS_D = {'update', 'get', 'keys', 'values', 'items', 'pop', 'setdefault', 'clear', 'copy', 'append', 'extend',
                 'popitem', 'insert', 'remove', 'sort', 'reverse', '__contains__'}
TIMING_KEYS = ['t']


def const_str(n):
    return n.value if isinstance(n, ast.Constant) and isinstance(n.value, str) else None


class Fn:
    def __init__(self, qname, module, node, parent=None, cls=None, kind='def'):
        self.qname, self.module, self.node, self.parent, self.cls, self.kind = qname, module, node, parent, cls, kind
        self.nested = {}       # name -> Fn (direct nested defs)
        self.lambdas = {}      # id(ast.Lambda) -> Fn
        a = node.args
        self.params = [x.arg for x in a.posonlyargs + a.args]
        self.kwonly = [x.arg for x in a.kwonlyargs]
        self.vararg = a.vararg.arg if a.vararg else None
        self.kwarg = a.kwarg.arg if a.kwarg else None
        self.defaults = {}
        pos = a.posonlyargs + a.args
        for p, d in zip(pos[len(pos) - len(a.defaults):], a.defaults):
            self.defaults[p.arg] = d
        for p, d in zip(a.kwonlyargs, a.kw_defaults):
            if d is not None:
                self.defaults[p.arg] = d
        self.is_method = cls is not None and kind == 'def' and parent is None
        self.is_property = False
        self.exported = False
        self.line = node.lineno
        # discovered sets (fixpoint)
        self.gen = set()       # generator / seed variables (params, locals, lifted, 'self.x')
        self.dicts = set()     # tracked dictionary variables
        self.called = set()    # callable variables that are called (params / lifted)
        self.clock = set()     # clock tainted variables
        self.bound = set()     # names bound in this function (params, assigned, loop targets, ...)
        self.body_cmd = None

    @property
    def all_params(self):
        ps = list(self.params)
        if self.is_method and ps and ps[0] == 'self':
            ps = ps[1:]
        return ps + self.kwonly

    def ancestors(self):
        f = self.parent
        while f is not None:
            yield f
            f = f.parent


class Module:
    def __init__(self, name, path):
        self.name, self.path = name, path
        self.tree = ast.parse(open(path).read(), filename=path)
        self.imports = {}      # alias -> dotted path
        self.funcs = {}        # name -> Fn
        self.classes = {}      # name -> {method name -> Fn}
        self.consts = set()    # module level simple names
        self.problems = []     # module level constructs that are not understood


class Program:
    def __init__(self, repo):
        self.repo = repo
        self.mods = {}
        self.fns = {}          # qname -> Fn
        self.exports = {}      # exported name -> ('fn', Fn) | ('class', module, clsname)
        self.sites = []        # site id -> dict(file, line, what)
        self.notes = []
        self.init_problems = []
        self.changed = False
        self.load()

    # ------------------------------------------------------------------ loading
    def load(self):
        tdir = os.path.join(self.repo, 'teneva')
        for p in sorted(glob.glob(os.path.join(tdir, '*.py'))):
            name = os.path.basename(p)[:-3]
            if name == '__init__':
                continue
            m = Module(name, p)
            self.mods[name] = m
            self.scan_module(m)
        self.scan_init(os.path.join(tdir, '__init__.py'))

    def scan_imports(self, m, st):
        if isinstance(st, ast.Import):
            for a in st.names:
                m.imports[a.asname or a.name.split('.')[0]] = a.name if a.asname else a.name.split('.')[0]
            return True
        if isinstance(st, ast.ImportFrom):
            if st.level and st.level > 0:
                m.problems.append((st.lineno, 'relative import inside a module'))
                return True
            for a in st.names:
                if a.name == '*':
                    m.problems.append((st.lineno, f'star import from {st.module}'))
                else:
                    m.imports[a.asname or a.name] = f'{st.module}.{a.name}'
            return True
        return False

    def scan_module(self, m):
        for st in m.tree.body:
            if self.scan_imports(m, st):
                continue
            if isinstance(st, ast.Expr) and isinstance(st.value, ast.Constant):
                continue
            if isinstance(st, ast.FunctionDef):
                f = Fn(f'{m.name}.{st.name}', m, st)
                m.funcs[st.name] = f
                self.add_fn(f)
            elif isinstance(st, ast.ClassDef):
                meths = {}
                if st.bases or st.keywords or st.decorator_list:
                    m.problems.append((st.lineno, f'class {st.name} with bases / decorators'))
                for s2 in st.body:
                    if isinstance(s2, ast.Expr) and isinstance(s2.value, ast.Constant):
                        continue
                    if isinstance(s2, ast.FunctionDef):
                        f = Fn(f'{m.name}.{st.name}.{s2.name}', m, s2, cls=st.name)
                        for d in s2.decorator_list:
                            if isinstance(d, ast.Name) and d.id == 'property':
                                f.is_property = True
                        meths[s2.name] = f
                        self.add_fn(f)
                    elif isinstance(s2, ast.Pass):
                        continue
                    else:
                        m.problems.append((s2.lineno, f'class level statement in {st.name}'))
                m.classes[st.name] = meths
            elif isinstance(st, ast.Try):
                # only `try: import x ... except: FLAG = False`
                ok = True
                for s2 in st.body + [s for h in st.handlers for s in h.body] + st.orelse + st.finalbody:
                    if self.scan_imports(m, s2):
                        continue
                    if isinstance(s2, ast.Assign) and all(isinstance(t, ast.Name) for t in s2.targets) \
                            and isinstance(s2.value, ast.Constant):
                        for t in s2.targets:
                            m.consts.add(t.id)
                        continue
                    ok = False
                if not ok:
                    m.problems.append((st.lineno, 'module level try block with other than imports / constants'))
            elif isinstance(st, ast.Assign) and all(isinstance(t, ast.Name) for t in st.targets) and \
                    isinstance(st.value, ast.Constant):
                for t in st.targets:
                    m.consts.add(t.id)
            else:
                m.problems.append((st.lineno, f'module level statement {type(st).__name__}'))

    def add_fn(self, f):
        self.fns[f.qname] = f
        self.scan_nested(f)

    def scan_nested(self, f):
        """register nested defs and lambdas (also those in default values), compute bound names"""
        node = f.node
        bound = set(f.params + f.kwonly)
        if f.vararg:
            bound.add(f.vararg)
        if f.kwarg:
            bound.add(f.kwarg)
        body = node.body if isinstance(node.body, list) else [node.body]

        def walk(n):
            if isinstance(n, (ast.FunctionDef, ast.AsyncFunctionDef)):
                g = Fn(f'{f.qname}.{n.name}', f.module, n, parent=f, cls=f.cls, kind='def')
                f.nested[n.name] = g
                bound.add(n.name)
                self.add_fn(g)
                for d in n.args.defaults + [d for d in n.args.kw_defaults if d is not None] + n.decorator_list:
                    walk(d)
                return
            if isinstance(n, ast.Lambda):
                g = Fn(f'{f.qname}.<lambda@{n.lineno}:{n.col_offset}>', f.module, n, parent=f, cls=f.cls, kind='lambda')
                f.lambdas[id(n)] = g
                self.add_fn(g)
                for d in n.args.defaults + [d for d in n.args.kw_defaults if d is not None]:
                    walk(d)
                return
            if isinstance(n, ast.ClassDef):
                return
            if isinstance(n, ast.Name) and isinstance(n.ctx, (ast.Store, ast.Del)):
                bound.add(n.id)
            if isinstance(n, ast.ExceptHandler) and n.name:
                bound.add(n.name)
            if isinstance(n, (ast.Import, ast.ImportFrom)):
                for a in n.names:
                    bound.add(a.asname or a.name.split('.')[0])
            for c in ast.iter_child_nodes(n):
                walk(c)
        for s in body:
            walk(s)
        # lambdas in this function's own default values belong to the enclosing scope, but we register them here
        for d in f.defaults.values():
            for n in ast.walk(d):
                if isinstance(n, ast.Lambda) and id(n) not in f.lambdas:
                    g = Fn(f'{f.qname}.<lambda@{n.lineno}:{n.col_offset}>', f.module, n, parent=None, cls=None, kind='lambda')
                    f.lambdas[id(n)] = g
                    self.add_fn(g)
        f.bound = bound

    def scan_init(self, path):
        tree = ast.parse(open(path).read(), filename=path)
        for st in tree.body:
            if isinstance(st, ast.Expr) and isinstance(st.value, ast.Constant):
                continue
            if isinstance(st, ast.Assign) and all(isinstance(t, ast.Name) for t in st.targets) and \
                    isinstance(st.value, ast.Constant):
                continue
            if isinstance(st, ast.ImportFrom) and st.level == 1 and st.module in self.mods:
                m = self.mods[st.module]
                for a in st.names:
                    if a.name == '*':
                        self.init_problems.append((st.lineno, f'star import from .{st.module}'))
                        continue
                    nm = a.asname or a.name
                    if a.name in m.funcs:
                        self.exports[nm] = ('fn', m.funcs[a.name])
                        m.funcs[a.name].exported = True
                    elif a.name in m.classes:
                        self.exports[nm] = ('class', m, a.name)
                        for f in m.classes[a.name].values():
                            f.exported = True
                    else:
                        self.init_problems.append((st.lineno, f'{st.module}.{a.name} not found'))
                continue
            self.init_problems.append((st.lineno, f'__init__ statement {type(st).__name__}'))

    # ------------------------------------------------------------------ helpers
    def site(self, fn, node, what):
        self.sites.append(dict(file=os.path.relpath(fn.module.path, self.repo), line=getattr(node, 'lineno', fn.line),
                               fn=fn.qname, what=what))
        return len(self.sites) - 1

    def add(self, s, x):
        if x not in s:
            s.add(x)
            self.changed = True


# --------------------------------------------------------------------------- IR constructors (python side)
def seq(cs):
    out = []
    for c in cs:
        if c is None or c == ('skip',):
            continue
        if c[0] == 'seq':
            out.extend(c[1])
        else:
            out.append(c)
    if not out:
        return ('skip',)
    if len(out) == 1:
        return out[0]
    return ('seq', out)


def has_events(c):
    if c[0] == 'skip':
        return False
    if c[0] == 'seq':
        return any(has_events(x) for x in c[1])
    return True


class Tr:
    """translation of one function body"""

    def __init__(self, P, fn):
        self.P, self.fn, self.m = P, fn, fn.module
        self.logvars = self.find_logvars()
        self.in_log = 0
        self.try_depth = 0
        self.objs = {}     # local variable -> (module, class) for objects built by a teneva constructor

    # ---- scopes
    def scope_of(self, name):
        """the function (self.fn or an ancestor) that binds `name`, or None"""
        f = self.fn
        while f is not None:
            if name in f.bound:
                return f
            f = f.parent
        return None

    def is_gen(self, name):
        f = self.scope_of(name) if not name.startswith('self.') else self.fn
        if name.startswith('self.'):
            return name in self.class_genfields()
        return f is not None and name in f.gen

    def is_dict(self, name):
        f = self.scope_of(name)
        return f is not None and name in f.dicts

    def is_clock(self, name):
        f = self.scope_of(name)
        return f is not None and name in f.clock

    def class_genfields(self):
        if self.fn.cls is None:
            return set()
        return self.P.genfields.get((self.m.name, self.fn.cls), set())

    def lift(self, name):
        """mark a captured special variable as an (implicit) parameter of this function and of the functions between
        it and the binder"""
        f = self.fn
        b = self.scope_of(name)
        while f is not None and f is not b:
            self.P.add(self.P.lifted.setdefault(f.qname, set()), name)
            f = f.parent

    def U(self, node, msg):
        return ('ev', ('Unknown', f'{self.fn.qname}:{getattr(node, "lineno", self.fn.line)}: {msg}'))

    def find_logvars(self):
        """local variables that only ever receive strings and only reach print(): text = ''; text += f'..'; print(text)"""
        node = self.fn.node
        if isinstance(node, ast.Lambda):
            return set()
        cand, bad = set(), set()
        for n in ast.walk(node):
            if isinstance(n, ast.Assign) and len(n.targets) == 1 and isinstance(n.targets[0], ast.Name) and \
                    isinstance(n.value, (ast.JoinedStr, ast.Constant)) and \
                    (isinstance(n.value, ast.JoinedStr) or isinstance(n.value.value, str)):
                cand.add(n.targets[0].id)
            if isinstance(n, ast.AugAssign) and isinstance(n.target, ast.Name) and isinstance(n.op, ast.Add) and \
                    isinstance(n.value, (ast.JoinedStr, ast.Constant)):
                cand.add(n.target.id)
        if not cand:
            return set()
        okuse = set()
        for n in ast.walk(node):
            if isinstance(n, ast.Assign) and len(n.targets) == 1 and isinstance(n.targets[0], ast.Name) and \
                    n.targets[0].id in cand:
                if not isinstance(n.value, (ast.JoinedStr, ast.Constant)):
                    bad.add(n.targets[0].id)
                okuse.add(id(n.targets[0]))
            if isinstance(n, ast.AugAssign) and isinstance(n.target, ast.Name) and n.target.id in cand:
                if not (isinstance(n.op, ast.Add) and isinstance(n.value, (ast.JoinedStr, ast.Constant))):
                    bad.add(n.target.id)
                okuse.add(id(n.target))
            if isinstance(n, ast.Call) and isinstance(n.func, ast.Name) and n.func.id == 'print':
                for a in n.args:
                    if isinstance(a, ast.Name):
                        okuse.add(id(a))
        for n in ast.walk(node):
            if isinstance(n, ast.Name) and n.id in cand and id(n) not in okuse:
                bad.add(n.id)
        return cand - bad

    # ---- name resolution
    def dotted(self, n):
        """dotted external path of an expression made of Name / Attribute, through the import table; None if the root is
        not an imported name (or is shadowed by a local binding)"""
        parts = []
        while isinstance(n, ast.Attribute):
            parts.append(n.attr)
            n = n.value
        if not isinstance(n, ast.Name):
            return None
        if self.scope_of(n.id) is not None:
            return None
        if n.id not in self.m.imports:
            return None
        return '.'.join([self.m.imports[n.id]] + parts[::-1])

    def resolve_fn(self, n):
        """function / class denoted by a Name / Attribute expression: ('fn', Fn) | ('class', module, name) | None"""
        if isinstance(n, ast.Name):
            b = self.scope_of(n.id)
            if b is not None:
                if n.id in b.nested:
                    return ('fn', b.nested[n.id])
                return None
            if n.id in self.m.funcs:
                return ('fn', self.m.funcs[n.id])
            if n.id in self.m.classes:
                return ('class', self.m, n.id)
            d = self.m.imports.get(n.id)
            if d and d.startswith('teneva.'):
                return self.P.exports.get(d.split('.')[-1])
            return None
        if isinstance(n, ast.Attribute):
            if isinstance(n.value, ast.Name) and self.scope_of(n.value.id) is None:
                if self.m.imports.get(n.value.id) == 'teneva':
                    return self.P.exports.get(n.attr) or ('missing', n.attr)
            if isinstance(n.value, ast.Name) and n.value.id == 'self' and self.fn.cls is not None:
                meths = self.m.classes.get(self.fn.cls, {})
                if n.attr in meths:
                    return ('fn', meths[n.attr])
        return None

    # ---- callable origins
    def fn_body_nodes(self, f):
        """all AST nodes of f's own body (not of nested defs / lambdas)"""
        out = []
        body = f.node.body if isinstance(f.node.body, list) else [f.node.body]

        def walk(n):
            out.append(n)
            for c in ast.iter_child_nodes(n):
                if isinstance(c, (ast.FunctionDef, ast.AsyncFunctionDef, ast.Lambda, ast.ClassDef)):
                    out.append(c)
                    continue
                walk(c)
        for s in body:
            walk(s)
        return out

    @staticmethod
    def target_names(t):
        return {n.id for n in ast.walk(t) if isinstance(n, ast.Name)}

    def origins_var(self, name, seen):
        b = self.scope_of(name)
        if b is None:
            r = self.resolve_fn(ast.Name(id=name, ctx=ast.Load()))
            if r and r[0] == 'fn':
                return {('clos', r[1].qname)}
            return {('pure',)}
        if name in b.nested:
            return {('clos', b.nested[name].qname)}
        key = (b.qname, name)
        if key in seen:
            return set()
        seen = seen | {key}
        out = set()
        if name in b.params + b.kwonly or name == b.vararg or name == b.kwarg:
            out.add(('param', name))
        sub = Tr(self.P, b) if b is not self.fn else self
        for n in sub.fn_body_nodes(b):
            if isinstance(n, ast.Assign):
                for t in n.targets:
                    if isinstance(t, ast.Name) and t.id == name:
                        out |= sub.origins(n.value, seen)
                    elif name in self.target_names(t):
                        if isinstance(t, (ast.Tuple, ast.List)) and isinstance(n.value, (ast.Tuple, ast.List)) and \
                                len(t.elts) == len(n.value.elts):
                            for te, ve in zip(t.elts, n.value.elts):
                                if name in self.target_names(te):
                                    out |= sub.origins(ve, seen)
                        else:
                            out |= sub.origins(n.value, seen)
            elif isinstance(n, (ast.For, ast.comprehension)) and name in self.target_names(n.target):
                out |= sub.origins(n.iter, seen)
            elif isinstance(n, (ast.AugAssign, ast.AnnAssign)) and name in self.target_names(n.target):
                out.add(('unknown', 'augmented assignment'))
            elif isinstance(n, ast.withitem) and n.optional_vars is not None and name in self.target_names(n.optional_vars):
                out.add(('pure',))
            elif isinstance(n, ast.ExceptHandler) and n.name == name:
                out.add(('pure',))
        return out

    def origins(self, e, seen=frozenset()):
        if isinstance(e, ast.Name):
            return self.origins_var(e.id, seen)
        if isinstance(e, ast.Attribute):
            d = self.dotted(e)
            if d:
                if d.startswith('numpy.random') or d == 'random' or d.startswith('random.'):
                    return {('glob',)}
                if d.split('.')[0] in PURE_ROOTS:
                    return {('pure',)}
            r = self.resolve_fn(e)
            if r and r[0] == 'fn':
                return {('clos', r[1].qname)}
            if r:
                return {('unknown', 'class or missing name used as a function value')}
            if isinstance(e.value, ast.Name) and e.value.id == 'self':
                return {('unknown', f'callable stored in self.{e.attr}')}
            return {('pure',)}
        if isinstance(e, ast.Lambda):
            g = self.lambda_fn(e)
            return {('clos', g.qname)} if g else {('unknown', 'lambda')}
        if isinstance(e, ast.IfExp):
            return self.origins(e.body, seen) | self.origins(e.orelse, seen)
        if isinstance(e, ast.BoolOp):
            out = set()
            for v in e.values:
                out |= self.origins(v, seen)
            return out
        if isinstance(e, (ast.List, ast.Tuple, ast.Set)):
            out = set()
            for v in e.elts:
                out |= self.origins(v, seen)
            return out
        if isinstance(e, ast.Dict):
            out = set()
            for v in e.values:
                out |= self.origins(v, seen)
            return out
        if isinstance(e, (ast.ListComp, ast.GeneratorExp, ast.SetComp)):
            return self.origins(e.elt, seen)
        if isinstance(e, ast.BinOp):
            return self.origins(e.left, seen) | self.origins(e.right, seen)
        if isinstance(e, (ast.Subscript, ast.Starred)):
            return self.origins(e.value, seen)
        if isinstance(e, ast.Constant):
            return set()
        if isinstance(e, ast.Call):
            if isinstance(e.func, ast.Name) and self.scope_of(e.func.id) is None and \
                    e.func.id in ('zip', 'enumerate', 'list', 'tuple', 'reversed', 'sorted', 'iter', 'next', 'set'):
                out = set()
                for a in e.args:
                    out |= self.origins(a, seen)
                return out
            return {('pure',)}
        return {('unknown', type(e).__name__)}

    def lambda_fn(self, n):
        f = self.fn
        while f is not None:
            if id(n) in f.lambdas:
                return f.lambdas[id(n)]
            f = f.parent
        return None

    # ---- expressions
    def exprs(self, ns):
        out = []
        for n in ns:
            out += self.expr(n)
        return out

    def gen_name(self, n):
        """name of the generator / seed variable denoted by n (Name or self.x), or None"""
        if isinstance(n, ast.Name) and self.is_gen(n.id):
            return n.id
        if isinstance(n, ast.Attribute) and isinstance(n.value, ast.Name) and n.value.id == 'self' and \
                ('self.' + n.attr) in self.class_genfields():
            return 'self.' + n.attr
        if isinstance(n, ast.Attribute) and isinstance(n.value, ast.Name) and n.value.id in self.objs:
            m, c = self.objs[n.value.id]
            if ('self.' + n.attr) in self.P.genfields.get((m.name, c), set()):
                return f'{n.value.id}.{n.attr}'
        return None

    def expr(self, n):
        P = self.P
        if n is None or isinstance(n, ast.Constant):
            return []
        if isinstance(n, ast.Name):
            if n.id in self.logvars:
                return []
            b = self.scope_of(n.id)
            if b is not None:
                if self.is_gen(n.id):
                    return [self.U(n, f'generator / seed variable {n.id} escapes')]
                if self.is_dict(n.id):
                    return [self.U(n, f'default dictionary variable {n.id} escapes')]
                if self.is_clock(n.id):
                    return [self.U(n, f'clock value {n.id} escapes')]
                if n.id in b.nested:
                    g = b.nested[n.id]
                    if P.final and not P.is_pure(g, set()):
                        return [self.U(n, f'effectful closure {n.id} used as a value')]
                return []
            d = self.dotted(n)
            if d:
                return self.ext_value(n, d)
            if n.id in self.m.funcs or n.id in self.m.classes or n.id in self.m.consts:
                return []
            if n.id in BAD_BUILTINS:
                return [self.U(n, f'builtin {n.id}')]
            if hasattr(builtins, n.id):
                return []
            P.note(self.fn, n, f'unresolved name {n.id}: NameError at run time')
            return [('raise',)]
        if isinstance(n, ast.Attribute):
            d = self.dotted(n)
            if d:
                return self.ext_value(n, d)
            g = self.gen_name(n)
            if g:
                return [self.U(n, f'generator field {g} escapes')]
            if isinstance(n.value, ast.Name) and n.value.id == 'self' and self.fn.cls is not None:
                meths = self.m.classes.get(self.fn.cls, {})
                if n.attr in meths and meths[n.attr].is_property:
                    return [self.mk_call(n, meths[n.attr], [], [], via_self='self')]
            if isinstance(n.value, ast.Name) and self.is_gen(n.value.id):
                return [('ev', ('DrawFrom', P.site(self.fn, n, f'attribute {n.attr} of generator {n.value.id}'), n.value.id))]
            return self.expr(n.value)
        if isinstance(n, ast.Call):
            return self.call(n)
        if isinstance(n, ast.Subscript):
            if isinstance(n.value, ast.Name) and self.is_dict(n.value.id):
                d = n.value.id
                self.lift(d)
                k = const_str(n.slice)
                if k is not None:
                    return [('ev', ('LogRead' if self.in_log else 'Read', d, k))]
                return self.expr(n.slice) + ([] if self.in_log else [('ev', ('ReadAll', d))])
            return self.expr(n.value) + self.expr(n.slice)
        if isinstance(n, ast.Lambda):
            g = self.lambda_fn(n)
            if g is None:
                return [self.U(n, 'lambda not registered')]
            if P.final and not P.is_pure(g, set()):
                return [self.U(n, 'effectful lambda used as a value')]
            return []
        if isinstance(n, ast.IfExp):
            t = self.expr(n.test)
            a, b = seq(self.expr(n.body)), seq(self.expr(n.orelse))
            if has_events(a) or has_events(b):
                return t + [('if', P.site(self.fn, n, 'conditional expression'), a, b)]
            return t
        if isinstance(n, ast.BoolOp):
            out = self.expr(n.values[0])
            rest = seq(self.exprs(n.values[1:]))
            if has_events(rest):
                # later operands are evaluated conditionally (short circuit); nesting is irrelevant for a must-analysis
                # only if each operand is guarded separately:
                cur = ('skip',)
                for v in reversed(n.values[1:]):
                    cur = ('if', P.site(self.fn, n, 'short circuit'), seq(self.expr(v) + [cur]), ('skip',))
                out.append(cur)
            return out
        if isinstance(n, ast.Compare):
            if len(n.ops) == 1 and isinstance(n.ops[0], (ast.In, ast.NotIn)) and \
                    isinstance(n.comparators[0], ast.Name) and self.is_dict(n.comparators[0].id):
                d = n.comparators[0].id
                self.lift(d)
                k = const_str(n.left)
                if k is not None:
                    return [('ev', ('LogRead' if self.in_log else 'Read', d, k))]
                return self.expr(n.left) + [('ev', ('ReadAll', d))]
            if len(n.ops) == 1 and isinstance(n.ops[0], (ast.Is, ast.IsNot)) and self.gen_name(n.left) and \
                    isinstance(n.comparators[0], ast.Constant):
                return []
            return self.expr(n.left) + self.exprs(n.comparators)
        if isinstance(n, (ast.ListComp, ast.SetComp, ast.GeneratorExp, ast.DictComp)):
            return self.comp(n)
        if isinstance(n, ast.JoinedStr):
            return self.exprs(n.values)
        if isinstance(n, ast.FormattedValue):
            return self.expr(n.value) + self.expr(n.format_spec)
        if isinstance(n, (ast.Tuple, ast.List, ast.Set)):
            return self.exprs(n.elts)
        if isinstance(n, ast.Dict):
            out = []
            for k, v in zip(n.keys, n.values):
                out += self.expr(k) + self.expr(v)
            return out
        if isinstance(n, ast.Starred):
            return self.expr(n.value)
        if isinstance(n, ast.BinOp):
            return self.expr(n.left) + self.expr(n.right)
        if isinstance(n, ast.UnaryOp):
            if isinstance(n.op, ast.Not) and isinstance(n.operand, ast.Name) and self.is_dict(n.operand.id):
                self.lift(n.operand.id)
                return [('ev', ('ReadAll', n.operand.id))]
            return self.expr(n.operand)
        if isinstance(n, ast.Slice):
            return self.expr(n.lower) + self.expr(n.upper) + self.expr(n.step)
        return [self.U(n, f'expression {type(n).__name__}')]

    def ext_value(self, n, d):
        """a Name / Attribute that denotes something imported (dotted path d), used as a value"""
        P = self.P
        root = d.split('.')[0]
        if d.startswith('numpy.random'):
            if d in GEN_CTORS:
                return [self.U(n, f'{d} used as a value')]
            return [('ev', ('GlobalDraw', P.site(self.fn, n, f'use of {d}')))]
        if d == 'random' or d.startswith('random.'):
            return [('ev', ('GlobalDraw', P.site(self.fn, n, f'use of stdlib {d}')))]
        if d in CLOCKS:
            return [self.U(n, f'clock {d} used outside the timing pattern')]
        if root == 'time':
            return []
        if hidden_random(d, []):
            return [self.U(n, f'{d} (a routine with hidden randomness) used as a value')]
        if root in PURE_ROOTS or root == 'teneva':
            return []
        return [self.U(n, f'use of unknown module {d}')]

    def comp(self, n):
        P = self.P
        gens = n.generators
        if isinstance(n, ast.DictComp):
            inner = self.expr(n.key) + self.expr(n.value)
        else:
            inner = self.expr(n.elt)
        cur = seq(inner)
        first = None
        for g in reversed(gens):
            conds = []
            for c in g.ifs:
                conds += self.expr(c)
            if g.ifs and has_events(cur):
                cur = ('if', P.site(self.fn, n, 'comprehension filter'), cur, ('skip',))
            body = seq(conds + [cur])
            it = self.iter_expr(g.iter)
            if g is gens[0]:
                first = it
                cur = ('loop', P.site(self.fn, n, 'comprehension'), body) if has_events(body) else ('skip',)
            else:
                body2 = seq(it + [('loop', P.site(self.fn, n, 'comprehension'), body) if has_events(body) else ('skip',)])
                cur = body2
        return first + [cur]

    def iter_expr(self, it):
        """events of evaluating an iterable; iterating over a default dictionary is ReadAll"""
        if isinstance(it, ast.Name) and self.is_dict(it.id):
            self.lift(it.id)
            return [('ev', ('ReadAll', it.id))]
        return self.expr(it)

    # ---- calls
    def args_of(self, n):
        return list(n.args) + [k.value for k in n.keywords]

    def callable_arg_events(self, a):
        """a function valued argument handed to an external higher-order function (map, reduce, sorted(key=), ...):
        the callee may call it any number of times"""
        P = self.P
        if isinstance(a, ast.Lambda) or (isinstance(a, ast.Name) and self.scope_of(a.id) is not None and
                                         (a.id in self.scope_of(a.id).nested or a.id in self.scope_of(a.id).called)) or \
                (isinstance(a, ast.Attribute) and (self.resolve_fn(a) or (None,))[0] == 'fn'):
            fake = ast.Call(func=a, args=[], keywords=[])
            ast.copy_location(fake, a)
            body = seq(self.call_value(fake, a, user_args=[]))
            if has_events(body):
                return [('loop', P.site(self.fn, a, 'callback handed to an external higher-order function'), body)]
            return []
        return None

    def generic_args(self, n):
        out = []
        for a in self.args_of(n):
            ce = self.callable_arg_events(a)
            out += ce if ce is not None else self.expr(a)
        return out

    def call(self, n):
        P = self.P
        f = n.func
        d = self.dotted(f)
        if d:
            root = d.split('.')[0]
            if d in GEN_CTORS:
                return self.exprs(self.args_of(n)) + [self.U(n, 'generator constructed outside `x = default_rng(..)`')]
            if d.startswith('numpy.random') or d == 'random' or d.startswith('random.'):
                return self.generic_args(n) + [('ev', ('GlobalDraw', P.site(self.fn, n, f'call of {d}')))]
            if d in CLOCKS:
                return [self.U(n, f'clock {d} used outside the timing pattern')]
            hr = hidden_random(d, n.keywords)
            if hr:
                return self.generic_args(n) + [self.U(n, f'call of {d}: the routine owns hidden randomness (start vector / sample from the '
                                                         f'global generator or from OS entropy) -- results are not a function of the arguments')]
            if root in PURE_ROOTS or root == 'time':
                return self.generic_args(n)
            if root != 'teneva':
                return self.generic_args(n) + [self.U(n, f'call into unknown module {d}')]
        r = self.resolve_fn(f)
        if r:
            if r[0] == 'fn':
                return [self.call_fn(n, r[1])]
            if r[0] == 'class':
                return self.ctor(n, r[1], r[2], f'<obj@{n.lineno}:{n.col_offset}>')
            return self.generic_args(n) + [self.U(n, f'teneva.{r[1]} is not exported')]
        if isinstance(f, ast.Name):
            b = self.scope_of(f.id)
            if b is None:
                if f.id in BAD_BUILTINS or f.id == 'super':
                    return self.generic_args(n) + [self.U(n, f'builtin {f.id}')]
                if f.id == 'print':
                    self.in_log += 1
                    out = self.generic_args(n)
                    self.in_log -= 1
                    return out
                if f.id == 'isinstance' and n.args and self.gen_name(n.args[0]):
                    return self.exprs(n.args[1:])
                if hasattr(builtins, f.id):
                    out = []
                    for a in self.args_of(n):
                        if isinstance(a, ast.Name) and self.is_dict(a.id):
                            if f.id in ('len', 'list', 'dict', 'sorted', 'tuple', 'set', 'str', 'repr', 'bool', 'iter',
                                        'enumerate', 'reversed', 'any', 'all', 'sum', 'min', 'max'):
                                self.lift(a.id)
                                out.append(('ev', ('ReadAll', a.id)))
                            else:
                                out.append(self.U(n, f'default dictionary {a.id} passed to builtin {f.id}'))
                        else:
                            ce = self.callable_arg_events(a)
                            out += ce if ce is not None else self.expr(a)
                    return out
                if f.id in self.m.consts:
                    return self.generic_args(n)
                P.note(self.fn, n, f'call of unresolved name {f.id}: NameError at run time')
                return [('raise',)]
            if f.id == 'self' and self.fn.cls is not None and '__call__' in self.m.classes.get(self.fn.cls, {}) and \
                    f.id in self.fn.params[:1]:
                return [self.call_fn(n, self.m.classes[self.fn.cls]['__call__'], via_self='self')]
            return self.call_value(n, f)
        if isinstance(f, ast.Attribute):
            g = self.gen_name(f.value)
            if g:
                if isinstance(f.value, ast.Name):
                    self.lift(g)
                return self.exprs(self.args_of(n)) + [('ev', ('DrawFrom', P.site(self.fn, n, f'{g}.{f.attr}'), g))]
            if isinstance(f.value, ast.Name) and self.is_dict(f.value.id):
                return self.dict_method(n, f.value.id, f.attr)
            if isinstance(f.value, ast.Name) and f.value.id in self.objs:
                m, c = self.objs[f.value.id]
                meths = m.classes[c]
                if f.attr in meths:
                    return [self.call_fn(n, meths[f.attr], via_self=f.value.id)]
                return self.generic_args(n) + [self.U(n, f'unknown method {c}.{f.attr}')]
            if isinstance(f.value, ast.Call):
                r2 = self.resolve_fn(f.value.func)
                if r2 and r2[0] == 'class':
                    obj = f'<obj@{f.value.lineno}:{f.value.col_offset}>'
                    out = self.ctor(f.value, r2[1], r2[2], obj)
                    meths = r2[1].classes[r2[2]]
                    if f.attr in meths:
                        self.objs[obj] = (r2[1], r2[2])
                        out.append(self.call_fn(n, meths[f.attr], via_self=obj))
                        del self.objs[obj]
                        return out
                    return out + self.generic_args(n) + [self.U(n, f'unknown method {r2[2]}.{f.attr}')]
            if isinstance(f.value, ast.Name) and f.value.id == 'self' and self.fn.cls is not None:
                return self.generic_args(n) + [self.U(n, f'call of self.{f.attr}, which is not a method')]
            if f.attr in GEN_ONLY_METHODS and isinstance(f.value, ast.Name) and self.scope_of(f.value.id) is not None:
                # receiver of a Generator-only method: it is a generator variable (next iteration translates it as DrawFrom)
                P.add(self.scope_of(f.value.id).gen, f.value.id)
            return self.expr(f.value) + self.generic_args(n)
        if isinstance(f, ast.BoolOp) and isinstance(f.op, ast.Or):
            # (a or b)(args): one of the alternatives is called
            alts = []
            for v in f.values:
                fake = ast.Call(func=v, args=n.args, keywords=n.keywords)
                ast.copy_location(fake, n)
                alts.append(seq(self.call(fake)))
            cur = alts[-1]
            for a in reversed(alts[:-1]):
                cur = ('if', P.site(self.fn, n, 'alternative callee'), a, cur)
            return [cur]
        return self.call_value(n, f)

    def call_value(self, n, fexpr, user_args=None):
        """call of a function value held in a variable / container / expression"""
        P = self.P
        org = self.origins(fexpr)
        alts = []
        for o in sorted(org, key=repr):
            if o[0] == 'pure':
                alts.append(seq(self.generic_args(n)))
            elif o[0] == 'param':
                alts.append(seq(self.call_param(n, o[1])))
            elif o[0] == 'clos':
                alts.append(self.call_fn(n, P.fns[o[1]]))
            elif o[0] == 'glob':
                alts.append(seq(self.generic_args(n) + [('ev', ('GlobalDraw', P.site(self.fn, n, 'call of an alias of numpy.random')))]))
            else:
                alts.append(seq(self.generic_args(n) + [self.U(n, 'call through a value of unknown origin: ' + str(o[1:]))]))
        if not alts:
            return self.generic_args(n) + [self.U(n, 'call through an expression that is not a known function value')]
        pre = []
        if not isinstance(fexpr, (ast.Name, ast.Lambda)):
            # events of evaluating the callee expression itself (e.g. fh[k])
            if isinstance(fexpr, ast.Subscript):
                pre = self.expr(fexpr.slice)
        # drop duplicates, join alternatives
        uniq = []
        for a in alts:
            if a not in uniq:
                uniq.append(a)
        cur = uniq[-1]
        for a in reversed(uniq[:-1]):
            cur = ('if', P.site(self.fn, n, 'callee is one of several function values'), a, cur)
        return pre + [cur]

    def call_param(self, n, p):
        """call of a user supplied callback held in parameter p (of this function or of an enclosing one)"""
        P = self.P
        b = self.scope_of(p)
        P.add(b.called, p)
        self.lift(p)
        out = []
        for a in self.args_of(n):
            g = self.gen_name(a)
            if g:
                if isinstance(a, ast.Name):
                    self.lift(g)
                out.append(('ev', ('DrawFrom', P.site(self.fn, a, f'generator {g} handed to user callback {p}'), g)))
            elif isinstance(a, ast.Name) and self.is_dict(a.id):
                self.lift(a.id)
                out.append(('ev', ('ReadAll', a.id)))
            else:
                ce = self.callable_arg_events(a)
                out += ce if ce is not None else self.expr(a)
        out.append(('ev', ('CallParam', P.site(self.fn, n, f'user callback {p}'), p)))
        return out

    def specials(self, F):
        """(gen params, dict params, callable params) of F that a call site must bind, in a canonical order"""
        P = self.P
        lifted = sorted(P.lifted.get(F.qname, set()))
        names = F.all_params + [x for x in lifted if x not in F.all_params]
        gens, dicts, calls = [], [], []
        for x in names:
            b = F if x in F.bound else None
            if b is None:
                b = next((a for a in F.ancestors() if x in a.bound), None)
            if b is None:
                continue
            if x in b.gen:
                gens.append(x)
            if x in b.dicts:
                dicts.append(x)
            if x in b.called:
                calls.append(x)
        if F.cls is not None and F.kind == 'def' and F.node.name != '__init__':
            for g in sorted(P.genfields.get((F.module.name, F.cls), set())):
                gens.append(g)
        elif F.cls is not None and F.kind != 'def' or (F.cls is not None and F.parent is not None):
            for g in sorted(P.lifted.get(F.qname, set())):
                if g.startswith('self.') and g not in gens:
                    gens.append(g)
        return gens, dicts, calls

    def fdef_of(self, F, p):
        """kind of the default value of callable parameter p of F"""
        if p not in F.defaults:
            return ('FdNone',)
        d = F.defaults[p]
        if isinstance(d, ast.Constant):
            return ('FdNone',)
        if isinstance(d, ast.Lambda):
            g = F.lambdas.get(id(d))
            return ('FdClos', g.qname) if g else ('FdUnknown',)
        if isinstance(d, ast.Name) and hasattr(builtins, d.id) and d.id not in BAD_BUILTINS and \
                d.id not in F.module.funcs and d.id not in F.module.imports:
            return ('FdPure',)
        sub = Tr(self.P, F)
        dd = sub.dotted(d)
        if dd:
            if dd.startswith('numpy.random') or dd == 'random' or dd.startswith('random.'):
                return ('FdGlob', self.P.site(F, d, f'default value {dd} of parameter {p}'))
            if dd.split('.')[0] in PURE_ROOTS:
                return ('FdPure',)
        r = sub.resolve_fn(d)
        if r and r[0] == 'fn':
            return ('FdClos', r[1].qname)
        return ('FdUnknown',)

    def call_fn(self, n, F, via_self=None):
        return self.mk_call(n, F, list(n.args), list(n.keywords), via_self=via_self)

    def mk_call(self, n, F, args, keywords, via_self=None):
        """Call of the teneva function F: bind its special parameters, translate the other arguments generically"""
        P = self.P
        gens, dicts, calls = self.specials(F)
        params = F.all_params
        pre = []
        amap = {}
        star = any(isinstance(a, ast.Starred) for a in args) or any(k.arg is None for k in keywords)
        extra = []
        for i, a in enumerate(args):
            if isinstance(a, ast.Starred):
                extra.append(a.value)
                break
            if i < len(F.params) - (1 if F.is_method and F.params and F.params[0] == 'self' else 0):
                amap[params[i]] = a
            else:
                extra.append(a)
        for k in keywords:
            if k.arg is None:
                extra.append(k.value)
            elif k.arg in params:
                amap[k.arg] = k.value
            else:
                extra.append(k.value)
        if star and (gens or dicts or calls):
            pre.append(self.U(n, f'star arguments in a call of {F.qname}, which has seed / dictionary / callback parameters'))
        sb, db, fb = [], [], []
        for p in params:
            a = amap.get(p)
            handled = False
            if p in gens:
                handled = True
                if a is None:
                    dv = F.defaults.get(p)
                    if isinstance(dv, ast.Constant) and dv.value is None:
                        sb.append((p, ('SNone',)))
                    elif isinstance(dv, ast.Constant) and isinstance(dv.value, int) and not isinstance(dv.value, bool):
                        sb.append((p, ('SConst', dv.value)))
                    else:
                        sb.append((p, ('SOther',)))
                else:
                    g = self.gen_name(a)
                    if g:
                        if isinstance(a, ast.Name):
                            self.lift(g)
                        sb.append((p, ('SVar', g)))
                    elif isinstance(a, ast.Constant) and a.value is None:
                        sb.append((p, ('SNone',)))
                    elif isinstance(a, ast.Constant) and isinstance(a.value, int) and not isinstance(a.value, bool):
                        sb.append((p, ('SConst', a.value)))
                    else:
                        pre += self.expr(a)
                        sb.append((p, ('SOther',)))
            elif a is not None and self.gen_name(a):
                # a generator / seed flows into parameter p: p is a generator parameter of F (next iteration binds it)
                P.add(F.gen, p)
                handled = True
            if p in dicts:
                handled = True
                if a is None:
                    db.append((p, ('DOwn',) if F.qname in P.owndicts and p in P.owndicts[F.qname] else ('DFresh',)))
                elif isinstance(a, ast.Name) and self.is_dict(a.id):
                    self.lift(a.id)
                    db.append((p, ('DVar', a.id)))
                else:
                    pre += self.expr(a)
                    db.append((p, ('DFresh',)))
            elif a is not None and isinstance(a, ast.Name) and self.is_dict(a.id):
                P.add(F.dicts, p)
                handled = True
            if p in calls:
                handled = True
                fb.append((p, self.farg(n, a, pre)))
            elif a is not None and isinstance(a, ast.Name) and self.scope_of(a.id) is not None and \
                    a.id in self.scope_of(a.id).called and not handled:
                pass  # a callback handed to a parameter that is never called: plain data
            if a is not None and isinstance(a, ast.Name) and self.is_clock(a.id):
                P.add(F.clock, p)
                handled = True
            if not handled and a is not None:
                ce = self.callable_arg_events(a) if p not in calls else None
                # an effectful closure handed to a parameter that the callee does not call directly: treat the
                # parameter as called (conservative) in the next iteration
                if ce:
                    P.add(F.called, p)
                    pre += ce
                else:
                    pre += self.expr(a)
        # lifted (captured) variables and generator fields of self
        for x in gens:
            if x in params:
                continue
            if x.startswith('self.'):
                if via_self is None or via_self == 'self':
                    if self.fn.cls == F.cls and (x in self.class_genfields()):
                        sb.append((x, ('SVar', x)))
                        if self.fn.parent is not None or self.fn.kind == 'lambda':
                            P.add(P.lifted.setdefault(self.fn.qname, set()), x)
                    else:
                        pre.append(self.U(n, f'method of another object called without a known receiver ({x})'))
                else:
                    sb.append((x, ('SVar', f'{via_self}.{x[5:]}')))
            elif self.scope_of(x) is not None:
                self.lift(x)
                sb.append((x, ('SVar', x)))
            else:
                pre.append(self.U(n, f'captured variable {x} of {F.qname} is not in scope at the call'))
        for x in dicts:
            if x in params:
                continue
            if self.scope_of(x) is not None and self.is_dict(x):
                self.lift(x)
                db.append((x, ('DVar', x)))
            else:
                pre.append(self.U(n, f'captured dictionary {x} of {F.qname} is not in scope at the call'))
        for x in calls:
            if x in params:
                continue
            if self.scope_of(x) is not None:
                self.lift(x)
                P.add(self.scope_of(x).called, x)
                fb.append((x, ('FVar', x)))
            else:
                pre.append(self.U(n, f'captured callback {x} of {F.qname} is not in scope at the call'))
        for a in extra:
            pre += self.expr(a)
        site = P.site(self.fn, n, f'call of {F.qname}')
        return seq(pre + [('ev', ('Call', site, F.qname, sb, db, fb))])

    def farg(self, n, a, pre):
        """what is bound to a callable parameter of the callee"""
        P = self.P
        if a is None:
            return ('FOmit',)
        if isinstance(a, ast.Constant):
            return ('FUser',)
        org = self.origins(a)
        if len(org) == 1:
            o = next(iter(org))
            if o[0] == 'param':
                b = self.scope_of(o[1])
                P.add(b.called, o[1])
                self.lift(o[1])
                return ('FVar', o[1])
            if o[0] == 'pure':
                if not isinstance(a, (ast.Name, ast.Attribute)):
                    pre += self.expr(a)
                return ('FUser',)
            if o[0] == 'glob':
                return ('FGlob', P.site(self.fn, a, 'a numpy.random function handed over as callback'))
            if o[0] == 'clos':
                C = P.fns[o[1]]
                gens, dicts, calls = self.specials(C)
                cap = []
                bad = None
                for x in gens:
                    if x in C.all_params:
                        bad = f'function {C.qname} with a seed parameter handed over as callback'
                    elif x.startswith('self.') or self.scope_of(x) is not None:
                        if not x.startswith('self.'):
                            self.lift(x)
                        cap.append((x, ('SVar', x)))
                    else:
                        bad = f'captured variable {x} not in scope'
                if [x for x in dicts if x not in C.all_params] or [x for x in calls if x not in C.all_params]:
                    bad = f'closure {C.qname} captures a dictionary / callback'
                if bad:
                    pre.append(self.U(n, bad))
                    return ('FUser',)
                return ('FClos', C.qname, cap)
        # several possible origins: fine if all but one parameter are effect free
        pars = [o[1] for o in org if o[0] == 'param']
        rest_ok = all(o[0] == 'pure' or (o[0] == 'clos' and (not P.final or P.is_pure(P.fns[o[1]], set())))
                      for o in org if o[0] != 'param')
        if rest_ok and len(pars) <= 1:
            if not isinstance(a, (ast.Name, ast.Attribute)):
                pre += self.expr(a)
            if pars:
                P.add(self.scope_of(pars[0]).called, pars[0])
                self.lift(pars[0])
                return ('FVar', pars[0])
            return ('FUser',)
        pre.append(self.U(n, f'callback argument of unknown origin {sorted(org, key=repr)}'))
        return ('FUser',)

    def ctor(self, n, m, cname, obj):
        """constructor call of a teneva class: Call of __init__, then the generator fields are rebuilt from the seed argument
        in the caller's frame (exact when __init__ does not draw from them, which is checked)"""
        P = self.P
        meths = m.classes[cname]
        init = meths.get('__init__')
        if init is None:
            return self.generic_args(n)
        out = [self.call_fn(n, init)]
        for fld, par in sorted(P.geninit.get((m.name, cname), {}).items()):
            # the argument bound to `par`
            a = None
            ps = init.all_params
            for i, x in enumerate(n.args):
                if i < len(ps) and ps[i] == par:
                    a = x
            for k in n.keywords:
                if k.arg == par:
                    a = k.value
            tgt = f'{obj}.{fld[5:]}'
            if a is None or (isinstance(a, ast.Constant) and a.value is None):
                out.append(('ev', ('MkGenNone', tgt)))
            elif self.gen_name(a):
                out.append(('ev', ('MkGen', tgt, self.gen_name(a))))
            elif isinstance(a, ast.Constant) and isinstance(a.value, int):
                out.append(('ev', ('MkGenConst', tgt, a.value)))
            else:
                out.append(self.U(n, f'seed argument of the constructor {cname} is not a variable or constant'))
            if P.final and P.draws_field(init, fld, set()):
                out.append(self.U(n, f'{cname}.__init__ draws from {fld}; constructor call cannot be split'))
        return out

    def dict_method(self, n, d, meth):
        P = self.P
        self.lift(d)
        args = self.args_of(n)
        if meth == 'update':
            keys, pre, ok = [], [], True
            if len(n.args) == 1 and isinstance(n.args[0], ast.Dict):
                for k, v in zip(n.args[0].keys, n.args[0].values):
                    ks = const_str(k) if k is not None else None
                    if ks is None:
                        ok = False
                    else:
                        keys.append(ks)
                    pre += self.expr(v)
            elif n.args:
                ok = False
                pre += self.exprs(n.args)
            for k in n.keywords:
                if k.arg is None:
                    ok = False
                else:
                    keys.append(k.arg)
                pre += self.expr(k.value)
            if ok:
                return pre + [('ev', ('Reset', P.site(self.fn, n, f'{d}.update'), d, keys))]
            return pre + [('ev', ('WriteAny', d))]
        if meth == 'get':
            k = const_str(n.args[0]) if n.args else None
            rest = self.exprs(args[1:])
            if k is not None:
                return rest + [('ev', ('LogRead' if self.in_log else 'Read', d, k))]
            return self.exprs(args) + [('ev', ('ReadAll', d))]
        if meth in ('keys', 'values', 'items', 'copy', '__len__'):
            return [] if self.in_log else [('ev', ('ReadAll', d))]
        if meth == 'clear':
            return [('ev', ('Clear', d))]
        if meth == 'pop':
            k = const_str(n.args[0]) if n.args else None
            if k is not None:
                return self.exprs(args[1:]) + [('ev', ('Read', d, k)), ('ev', ('Write', P.site(self.fn, n, f'{d}.pop'), d, k))]
            return self.exprs(args) + [('ev', ('ReadAll', d)), ('ev', ('WriteAny', d))]
        if meth in ('append', 'extend', 'insert', 'remove', 'sort', 'reverse', 'popitem', 'add', 'discard'):
            return self.exprs(args) + [('ev', ('WriteAny', d))]
        return self.exprs(args) + [self.U(n, f'method {meth} of default dictionary {d}')]

    # ---- statements
    def clock_parts(self, e):
        """number of clock calls in e if e is built only from clock calls, clock tainted names, constants and arithmetic;
        None if e contains no clock value at all; -1 if it mixes clock values with anything else"""
        n_clock, other = 0, 0
        stack = [e]
        while stack:
            x = stack.pop()
            if isinstance(x, ast.Call) and self.dotted(x.func) in CLOCKS and not x.args and not x.keywords:
                n_clock += 1
            elif isinstance(x, ast.Name) and self.is_clock(x.id):
                n_clock += 0
                other += 0
                stack_mark = True
                n_clock += 0
                self._saw_taint = True
            elif isinstance(x, ast.Constant):
                pass
            elif isinstance(x, ast.BinOp):
                stack += [x.left, x.right]
            elif isinstance(x, ast.UnaryOp):
                stack.append(x.operand)
            else:
                other += 1
        return n_clock, other

    def has_clock(self, e):
        for x in ast.walk(e):
            if isinstance(x, ast.Call) and self.dotted(x.func) in CLOCKS:
                return True
            if isinstance(x, ast.Name) and isinstance(x.ctx, ast.Load) and self.is_clock(x.id):
                return True
        return False

    def gen_source(self, v):
        """if v is `teneva._rand(e)` / `default_rng(e)`: the event constructor for target x, else None"""
        if not isinstance(v, ast.Call):
            return None
        r = self.resolve_fn(v.func)
        is_rand = bool(r and r[0] == 'fn' and r[1].qname == 'utils._rand')
        if not is_rand and self.dotted(v.func) not in GEN_CTORS:
            return None
        args = self.args_of(v)
        if len(args) > 1:
            return lambda x: [self.U(v, 'generator constructor with several arguments')]
        a = args[0] if args else None
        if a is None or (isinstance(a, ast.Constant) and a.value is None):
            return lambda x: [('ev', ('MkGenNone', x))]
        g = self.gen_name(a)
        if g:
            if isinstance(a, ast.Name):
                self.lift(g)
            return lambda x: [('ev', ('MkGen', x, g))]
        if isinstance(a, ast.Name) and self.scope_of(a.id) is not None:
            self.P.add(self.scope_of(a.id).gen, a.id)
            return lambda x: [('ev', ('MkGen', x, a.id))]
        if isinstance(a, ast.Constant) and isinstance(a.value, int) and not isinstance(a.value, bool):
            return lambda x: [('ev', ('MkGenConst', x, a.value))]
        return lambda x: self.expr(a) + [self.U(v, 'seed expression of a generator constructor is not a variable or constant')]

    def assign_target(self, t, value=None):
        P = self.P
        if isinstance(t, ast.Name):
            if self.is_dict(t.id):
                return [self.U(t, f'default dictionary variable {t.id} is rebound')]
            if self.is_gen(t.id) and t.id in self.fn.bound:
                return [self.U(t, f'generator / seed variable {t.id} assigned from an expression that is not a generator constructor')]
            if value is not None and isinstance(value, ast.Call):
                r = self.resolve_fn(value.func)
                if r and r[0] == 'class':
                    self.objs[t.id] = (r[1], r[2])
            return []
        if isinstance(t, ast.Subscript):
            if isinstance(t.value, ast.Name) and self.is_dict(t.value.id):
                d = t.value.id
                self.lift(d)
                k = const_str(t.slice)
                if k is not None:
                    return [('ev', ('Write', P.site(self.fn, t, f'{d}[{k!r}] = ...'), d, k))]
                return self.expr(t.slice) + [('ev', ('WriteAny', d))]
            return self.expr(t.value) + self.expr(t.slice)
        if isinstance(t, ast.Attribute):
            if self.gen_name(t):
                return [self.U(t, f'generator field {self.gen_name(t)} assigned from an expression that is not a generator constructor')]
            return self.expr(t.value)
        if isinstance(t, (ast.Tuple, ast.List)):
            out = []
            for e in t.elts:
                out += self.assign_target(e)
            return out
        if isinstance(t, ast.Starred):
            return self.assign_target(t.value)
        return [self.U(t, f'assignment target {type(t).__name__}')]

    def stmts(self, ss):
        out = []
        for s in ss:
            if self.try_depth:
                out.append(('if', self.P.site(self.fn, s, 'statement in a try block may raise'), ('raise',), ('skip',)))
            out += self.stmt(s)
        return out

    def stmt(self, s):
        P = self.P
        if isinstance(s, ast.Expr):
            if isinstance(s.value, ast.Constant):
                return []
            v = s.value
            if isinstance(v, ast.Call) and isinstance(v.func, ast.Attribute) and v.func.attr == 'pop' and \
                    isinstance(v.func.value, ast.Name) and self.is_dict(v.func.value.id) and len(v.args) == 2 and \
                    const_str(v.args[0]) is not None and not v.keywords:
                # d.pop('k', default) as a statement: the value is discarded, the key is removed = reset of that key
                d = v.func.value.id
                self.lift(d)
                return self.expr(v.args[1]) + [('ev', ('Reset', P.site(self.fn, s, f'{d}.pop'), d, [const_str(v.args[0])]))]
            return self.expr(s.value)
        if isinstance(s, (ast.Assign, ast.AnnAssign)):
            targets = s.targets if isinstance(s, ast.Assign) else [s.target]
            v = s.value
            if v is None:
                return []
            # timing pattern
            if self.has_clock(v):
                # permitted only as argument of a teneva call (handled by mk_call) or in the two assignment shapes
                cnt, other = self.clock_parts(v)
                if other == 0 and len(targets) == 1:
                    t = targets[0]
                    if isinstance(t, ast.Name):
                        P.add(self.fn.clock, t.id)
                        return [('ev', ('Clock',))] * cnt
                    if isinstance(t, ast.Subscript) and isinstance(t.value, ast.Name) and self.is_dict(t.value.id) and \
                            const_str(t.slice) is not None:
                        self.lift(t.value.id)
                        return [('ev', ('Clock',))] * cnt + [('ev', ('WriteT', t.value.id, const_str(t.slice)))]
                    return [self.U(s, 'clock value stored somewhere else than a variable or a constant key of a tracked dictionary')]
                # otherwise fall through: generic translation flags the escaping clock value (unless it is a call argument)
            gs = self.gen_source(v)
            if gs is not None:
                if len(targets) == 1 and isinstance(targets[0], ast.Name):
                    P.add(self.fn.gen, targets[0].id)
                    return gs(targets[0].id)
                if len(targets) == 1 and isinstance(targets[0], ast.Attribute) and isinstance(targets[0].value, ast.Name) \
                        and targets[0].value.id == 'self' and self.fn.cls is not None:
                    fld = 'self.' + targets[0].attr
                    key = (self.m.name, self.fn.cls)
                    P.add(P.genfields.setdefault(key, set()), fld)
                    if self.fn.node.name == '__init__' and self.fn.parent is None:
                        a = self.args_of(v)
                        if a and isinstance(a[0], ast.Name):
                            if P.geninit.setdefault(key, {}).get(fld) != a[0].id:
                                P.geninit[key][fld] = a[0].id
                                P.changed = True
                    return gs(fld)
                return gs('?') + [self.U(s, 'generator stored into something else than a variable or a field of self')]
            if isinstance(v, ast.JoinedStr) or (len(targets) == 1 and isinstance(targets[0], ast.Name) and
                                                  targets[0].id in self.logvars):
                self.in_log += 1
                out = self.expr(v)
                self.in_log -= 1
            else:
                out = self.expr(v)
            for t in targets:
                out += self.assign_target(t, v)
            return out
        if isinstance(s, ast.AugAssign):
            t = s.target
            if isinstance(t, ast.Name) and t.id in self.logvars:
                self.in_log += 1
                out = self.expr(s.value)
                self.in_log -= 1
                return out
            if isinstance(t, ast.Subscript) and isinstance(t.value, ast.Name) and self.is_dict(t.value.id):
                d = t.value.id
                self.lift(d)
                k = const_str(t.slice)
                if k is not None:
                    return [('ev', ('Read', d, k))] + self.expr(s.value) + \
                           [('ev', ('Write', P.site(self.fn, s, f'{d}[{k!r}] op= ...'), d, k))]
                return self.expr(t.slice) + [('ev', ('ReadAll', d))] + self.expr(s.value) + [('ev', ('WriteAny', d))]
            pre = []
            if isinstance(t, ast.Name):
                if self.is_gen(t.id) or self.is_dict(t.id) or self.is_clock(t.id):
                    pre = [self.U(s, f'augmented assignment to special variable {t.id}')]
            else:
                pre = self.assign_target(t)
            return pre + self.expr(s.value)
        if isinstance(s, ast.Return):
            out = []
            if s.value is not None:
                if isinstance(s.value, ast.Name) and self.is_dict(s.value.id):
                    out.append(self.U(s, f'default dictionary {s.value.id} returned'))
                else:
                    out += self.expr(s.value)
            return out + [('ret',)]
        if isinstance(s, ast.If):
            t = self.expr(s.test)
            a, b = seq(self.stmts(s.body)), seq(self.stmts(s.orelse))
            if has_events(a) or has_events(b):
                return t + [('if', P.site(self.fn, s, 'if'), a, b)]
            return t
        if isinstance(s, ast.For):
            it = self.iter_expr(s.iter)
            tg = self.assign_target(s.target)
            body = seq(tg + self.stmts(s.body))
            out = it
            if has_events(body):
                out = out + [('loop', P.site(self.fn, s, 'for'), body)]
            oe = seq(self.stmts(s.orelse))
            if has_events(oe):
                out.append(('if', P.site(self.fn, s, 'for-else'), oe, ('skip',)))
            return out
        if isinstance(s, ast.While):
            t = self.expr(s.test)
            body = seq(self.stmts(s.body) + t)
            out = list(t)
            if has_events(body):
                out.append(('loop', P.site(self.fn, s, 'while'), body))
            oe = seq(self.stmts(s.orelse))
            if has_events(oe):
                out.append(('if', P.site(self.fn, s, 'while-else'), oe, ('skip',)))
            return out
        if isinstance(s, ast.Break):
            return [('brk',)]
        if isinstance(s, ast.Continue):
            return [('cont',)]
        if isinstance(s, ast.Pass):
            return []
        if isinstance(s, ast.Raise):
            return self.expr(s.exc) + self.expr(s.cause) + [('raise',)]
        if isinstance(s, ast.Assert):
            return self.expr(s.test) + [('if', P.site(self.fn, s, 'assert'), seq(self.expr(s.msg) + [('raise',)]), ('skip',))]
        if isinstance(s, ast.Try):
            self.try_depth += 1
            body = self.stmts(s.body)
            self.try_depth -= 1
            body += self.stmts(s.orelse)
            hs = [seq(self.expr(h.type) + self.stmts(h.body)) for h in s.handlers]
            cur = ('raise',) if not hs else hs[-1]
            for h in reversed(hs[:-1]):
                cur = ('if', P.site(self.fn, s, 'except clause'), h, cur)
            fin = self.stmts(s.finalbody)
            out = [('try', seq(body), cur)]
            if has_events(seq(fin)):
                out.append(self.U(s, 'finally block with events'))
            return out
        if isinstance(s, ast.With):
            out = []
            for it in s.items:
                out += self.expr(it.context_expr)
                if it.optional_vars is not None:
                    out += self.assign_target(it.optional_vars)
            return out + self.stmts(s.body)
        if isinstance(s, ast.FunctionDef):
            out = []
            for d in s.decorator_list:
                dd = self.dotted(d.func if isinstance(d, ast.Call) else d)
                if not (dd and dd.split('.')[0] == 'numba'):
                    out.append(self.U(s, 'decorated nested function'))
            a = s.args
            return out + self.exprs(a.defaults + [d for d in a.kw_defaults if d is not None])
        if isinstance(s, ast.Delete):
            out = []
            for t in s.targets:
                if isinstance(t, ast.Subscript) and isinstance(t.value, ast.Name) and self.is_dict(t.value.id):
                    out += self.assign_target(t)
                elif isinstance(t, ast.Name) and (self.is_dict(t.id) or self.is_gen(t.id)):
                    out.append(self.U(s, f'del {t.id}'))
            return out
        if isinstance(s, (ast.Global, ast.Nonlocal)):
            return [self.U(s, 'global / nonlocal statement (module level state)')]
        if isinstance(s, (ast.Import, ast.ImportFrom)):
            return [self.U(s, 'import inside a function')]
        return [self.U(s, f'statement {type(s).__name__}')]

    def function(self):
        f = self.fn
        if f.kind == 'lambda':
            return seq(self.expr(f.node.body) + [('ret',)])
        out = []
        for d in f.node.decorator_list:
            if isinstance(d, ast.Name) and d.id == 'property' and f.cls is not None:
                continue
            dd = self.dotted(d.func if isinstance(d, ast.Call) else d)
            if dd and dd.split('.')[0] == 'numba':
                continue
            out.append(self.U(f.node, 'decorated function'))
        out += self.default_value_events()
        out += self.uninit_events()
        out += self.overwrite_events()
        out += self.inplace_events()
        return seq(out + self.stmts(f.node.body))

    # ---- overwrite_*=True on an operand that may share memory with an argument ----------------------------------------
    VIEW_FUNCS = {'numpy.reshape', 'numpy.transpose', 'numpy.asarray', 'numpy.asanyarray', 'numpy.ravel', 'numpy.squeeze',
                  'numpy.swapaxes', 'numpy.moveaxis', 'numpy.atleast_1d', 'numpy.atleast_2d', 'numpy.atleast_3d',
                  'numpy.expand_dims', 'numpy.broadcast_to', 'numpy.asfortranarray', 'numpy.ascontiguousarray',
                  'numpy.real', 'numpy.imag', 'numpy.diagonal', 'numpy.rollaxis', 'numpy.lib.stride_tricks.as_strided',
                  'teneva._reshape', 'teneva.utils._reshape'}
    VIEW_METHODS = {'reshape', 'transpose', 'ravel', 'squeeze', 'view', 'swapaxes', 'diagonal', 'astype'}
    VIEW_ATTRS = {'T', 'real', 'imag', 'flat', 'mT'}
    ARRAY_MAKERS = {'numpy.where', 'numpy.nonzero', 'numpy.argsort', 'numpy.array', 'numpy.arange', 'numpy.argwhere',
                    'numpy.flatnonzero', 'numpy.unique', 'numpy.argmax', 'numpy.argmin'}

    def _own_nodes(self, node):
        todo = list(ast.iter_child_nodes(node))
        while todo:
            x = todo.pop()
            yield x
            if not isinstance(x, (ast.FunctionDef, ast.AsyncFunctionDef, ast.Lambda, ast.ClassDef)):
                todo.extend(ast.iter_child_nodes(x))

    def _top_index(self):
        """id(node) -> index of the top-level statement of the function body that contains it"""
        if getattr(self, '_ti', None) is None:
            self._ti = {}
            if self.fn.kind != 'lambda':
                for k, st in enumerate(self.fn.node.body):
                    self._ti[id(st)] = k
                    for x in self._own_nodes(st):
                        self._ti[id(x)] = k
        return self._ti

    def _defs(self, name, at=None):
        """bindings of `name` in this function that may reach top-level statement number `at`:
        ('val', expr) | ('elem', iterable expr) | ('param',) | ('aug',).  A plain assignment `name = ..` at the top level of the
        function body (unconditional) before `at` kills the parameter binding and every earlier binding."""
        f = self.fn
        ti = self._top_index()
        out = []
        if name in f.params + f.kwonly or name in (f.vararg, f.kwarg):
            out.append((-1, False, ('param',)))
        if f.kind == 'lambda':
            return [d for _, _, d in out]
        top = {id(st) for st in f.node.body}
        for n in self._own_nodes(f.node):
            k = ti.get(id(n), 0)
            if isinstance(n, ast.Assign):
                for t in n.targets:
                    if isinstance(t, ast.Name) and t.id == name:
                        out.append((k, id(n) in top, ('val', n.value)))
                    elif isinstance(t, (ast.Tuple, ast.List)) and name in self.target_names(t):
                        if isinstance(n.value, (ast.Tuple, ast.List)) and len(n.value.elts) == len(t.elts):
                            for te, ve in zip(t.elts, n.value.elts):
                                if name in self.target_names(te):
                                    out.append((k, id(n) in top, ('val', ve)))
                        else:
                            pos = next((q for q, te in enumerate(t.elts) if name in self.target_names(te)), None)
                            out.append((k, id(n) in top, ('elem', n.value, pos)))
            elif isinstance(n, ast.For) and name in self.target_names(n.target):
                it, tg = n.iter, n.target
                if isinstance(it, ast.Call) and isinstance(it.func, ast.Name) and it.func.id == 'enumerate' and it.args and \
                        isinstance(tg, ast.Tuple) and len(tg.elts) == 2:
                    if name in self.target_names(tg.elts[0]):
                        continue                                 # the counter
                    it, tg = it.args[0], tg.elts[1]
                if isinstance(it, ast.Call) and isinstance(it.func, ast.Name) and it.func.id == 'zip' and isinstance(tg, ast.Tuple) \
                        and len(tg.elts) == len(it.args):
                    for a, g in zip(it.args, tg.elts):
                        if name in self.target_names(g):
                            out.append((k, False, ('elem', a, None)))
                elif isinstance(it, ast.Call) and isinstance(it.func, ast.Name) and it.func.id == 'range':
                    continue
                else:
                    out.append((k, False, ('elem', it, None)))
            elif isinstance(n, (ast.AugAssign, ast.AnnAssign)) and isinstance(n.target, ast.Name) and n.target.id == name:
                out.append((k, False, ('aug',)))
        if at is not None:
            kills = [k for k, unc, d in out if unc and k < at and d[0] == 'val']
            if kills:
                kk = max(kills)
                out = [(k, unc, d) for k, unc, d in out if k >= kk]
        return [d for _, _, d in out]

    def _structure(self):
        """(dead, paths): dead = ids of nodes in branches that only an UNDOCUMENTED boolean parameter at a non-default value
        reaches (the property ranges over the documented interface); paths[id(stmt)] = ((id(block), index), ..) outer to inner"""
        if getattr(self, '_struct', None) is not None:
            return self._struct
        f = self.fn
        dead, paths = set(), {}
        self._guards = {}          # id(stmt) -> tuple of ast.dump(test) of the enclosing `if test:` bodies (conjuncts split)
        self._parent_if = {}       # id(stmt directly in an if body) -> the If node
        if f.kind != 'lambda':
            doc = ast.get_docstring(f.node) or ''
            import re as _re

            def undocumented_default(nm):
                if not doc or nm not in f.defaults or not isinstance(f.defaults[nm], ast.Constant) or \
                        not isinstance(f.defaults[nm].value, bool):
                    return None
                if _re.search(r'^\s*' + _re.escape(nm) + r'\s*\(', doc, flags=_re.M):
                    return None
                return f.defaults[nm].value

            def conj(t):
                if isinstance(t, ast.BoolOp) and isinstance(t.op, ast.And):
                    return [d for v in t.values for d in conj(v)]
                return [ast.dump(t)]

            def walk(block, path, guards=(), pif=None):
                for k, st in enumerate(block):
                    pth = path + ((id(block), k),)
                    paths[id(st)] = pth
                    self._guards[id(st)] = guards
                    if pif is not None:
                        self._parent_if[id(st)] = pif
                    for x in self._own_nodes(st):
                        if not isinstance(x, ast.stmt):
                            paths.setdefault(id(x), pth)
                            self._guards.setdefault(id(x), guards)
                    if isinstance(st, ast.If):
                        t, neg = st.test, False
                        if isinstance(t, ast.UnaryOp) and isinstance(t.op, ast.Not):
                            t, neg = t.operand, True
                        dv = undocumented_default(t.id) if isinstance(t, ast.Name) else None
                        if dv is not None:
                            taken_body = (dv != neg)
                            for b in (st.orelse if taken_body else st.body):
                                dead.add(id(b))
                                dead.update(id(x) for x in self._own_nodes(b))
                    for fld in ('body', 'orelse', 'finalbody'):
                        b = getattr(st, fld, None)
                        if isinstance(b, list) and b and isinstance(b[0], ast.stmt) and not isinstance(st, (ast.FunctionDef, ast.ClassDef)):
                            if isinstance(st, ast.If) and fld == 'body':
                                walk(b, pth, guards + tuple(conj(st.test)), st)
                            else:
                                walk(b, pth, guards)
                    for h in getattr(st, 'handlers', []) or []:
                        walk(h.body, pth, guards)
            walk(f.node.body, ())
        self._struct = (dead, paths)
        return self._struct

    def _dominating_defs(self, name, node):
        """bindings of `name` that may reach `node`: an assignment `name = ..` in the block of node's statement or an enclosing
        block, before it, kills the parameter binding and all lexically earlier bindings (dead branches are ignored)"""
        f = self.fn
        dead, paths = self._structure()
        mp = paths.get(id(node), ())
        cands = []
        if name in f.params + f.kwonly or name in (f.vararg, f.kwarg):
            cands.append(((-1, -1), ('param',), None))
        for n in self._own_nodes(f.node):
            if id(n) in dead:
                continue
            pos_ = (getattr(n, 'lineno', 0), getattr(n, 'col_offset', 0))
            if isinstance(n, ast.Assign):
                for t in n.targets:
                    if isinstance(t, ast.Name) and t.id == name:
                        cands.append((pos_, ('val', n.value), n))
                    elif isinstance(t, (ast.Tuple, ast.List)) and name in self.target_names(t):
                        if isinstance(n.value, (ast.Tuple, ast.List)) and len(n.value.elts) == len(t.elts):
                            for te, ve in zip(t.elts, n.value.elts):
                                if name in self.target_names(te):
                                    cands.append((pos_, ('val', ve), n))
                        else:
                            q = next((q for q, te in enumerate(t.elts) if name in self.target_names(te)), None)
                            cands.append((pos_, ('elem', n.value, q), n))
            elif isinstance(n, ast.For) and name in self.target_names(n.target):
                it, tg = n.iter, n.target
                if isinstance(it, ast.Call) and isinstance(it.func, ast.Name) and it.func.id == 'enumerate' and it.args and \
                        isinstance(tg, ast.Tuple) and len(tg.elts) == 2:
                    if name in self.target_names(tg.elts[0]):
                        cands.append((pos_, ('val', ast.Constant(value=0)), None))
                        continue
                    it, tg = it.args[0], tg.elts[1]
                if isinstance(it, ast.Call) and isinstance(it.func, ast.Name) and it.func.id == 'zip' and isinstance(tg, ast.Tuple) \
                        and len(tg.elts) == len(it.args):
                    for a, g in zip(it.args, tg.elts):
                        if name in self.target_names(g):
                            cands.append((pos_, ('elem', a, None), None))
                elif isinstance(it, ast.Call) and isinstance(it.func, ast.Name) and it.func.id == 'range':
                    cands.append((pos_, ('val', ast.Constant(value=0)), None))
                else:
                    cands.append((pos_, ('elem', it, None), None))
            elif isinstance(n, (ast.AugAssign, ast.AnnAssign)) and isinstance(n.target, ast.Name) and n.target.id == name:
                cands.append((pos_, ('aug',), None))
        # dominating plain assignments
        best = None
        for pos_, d, n in cands:
            if n is None or not isinstance(n, ast.Assign):
                continue
            ap = paths.get(id(n))
            if not ap or len(ap) > len(mp):
                continue
            if ap[:-1] == mp[:len(ap) - 1] and ap[-1][0] == mp[len(ap) - 1][0] and ap[-1][1] < mp[len(ap) - 1][1]:
                if best is None or pos_ > best:
                    best = pos_
                continue
            # `if g: x = x.copy()` ... `if g and ..: x[..] = ..`: the assignment is guarded by a test that also guards the node
            pif = self._parent_if.get(id(n))
            if pif is not None and len(ap) >= 2:
                ip = paths.get(id(pif))
                gs = set(self._guards.get(id(node), ()))
                if ip and len(ip) <= len(mp) and ip[:-1] == mp[:len(ip) - 1] and ip[-1][0] == mp[len(ip) - 1][0] and \
                        ip[-1][1] < mp[len(ip) - 1][1] and ast.dump(pif.test) in gs:
                    if best is None or pos_ > best:
                        best = pos_
        if best is not None:
            cands = [c for c in cands if c[0] >= best]
        return [d + (n,) for _, d, n in cands]

    def _index_is_basic(self, ix, seen):
        """may this subscript be basic indexing (a view)?  False only if it certainly is advanced indexing (a copy)"""
        if isinstance(ix, ast.Tuple):
            return all(self._index_is_basic(e, seen) for e in ix.elts)
        if isinstance(ix, (ast.Slice, ast.Constant)):
            return True
        if isinstance(ix, (ast.Compare, ast.BinOp, ast.BoolOp, ast.List, ast.ListComp)):
            return False                                          # an array / list valued index
        if isinstance(ix, ast.Call):
            return self.dotted(ix.func) not in self.ARRAY_MAKERS
        if isinstance(ix, ast.Subscript):
            return self._index_is_basic(ix.value, seen)           # np.where(..)[0]
        if isinstance(ix, ast.Name):
            if ix.id in seen:
                return True
            ds = self._defs(ix.id)
            vals = [d[1] for d in ds if d[0] == 'val']
            if ds and len(vals) == len(ds) and all(not self._index_is_basic(v, seen | {ix.id}) for v in vals):
                return False
            return True
        return True

    def ret_alias_params(self):
        """parameters of this function that a returned value may share memory with (per position of a returned tuple:
        {position or None: set of parameter names})"""
        f = self.fn
        cache = self.P.__dict__.setdefault('_ret_alias', {})
        if f.qname in cache:
            return cache[f.qname]
        cache[f.qname] = {}                                       # recursion guard
        res = {}
        if f.kind == 'lambda':
            res[None] = self.alias_params(f.node.body)
        else:
            scalar_returns = set()

            def guard_name(t):
                """x such that the test t can only hold for a scalar / None x"""
                if isinstance(t, ast.BoolOp):
                    gs = {guard_name(v) for v in t.values}
                    return gs.pop() if len(gs) == 1 and None not in gs and isinstance(t.op, (ast.Or, ast.And)) else None
                if isinstance(t, ast.Call) and t.args and isinstance(t.args[0], ast.Name):
                    nm = t.func.attr if isinstance(t.func, ast.Attribute) else t.func.id if isinstance(t.func, ast.Name) else ''
                    if nm == '_is_num':
                        return t.args[0].id
                    if nm == 'isinstance' and len(t.args) == 2:
                        ts = t.args[1].elts if isinstance(t.args[1], ast.Tuple) else [t.args[1]]
                        if all(isinstance(x, ast.Name) and x.id in ('int', 'float', 'bool', 'str', 'complex') for x in ts):
                            return t.args[0].id
                if isinstance(t, ast.Compare) and len(t.ops) == 1 and isinstance(t.ops[0], ast.Is) and isinstance(t.left, ast.Name) and \
                        isinstance(t.comparators[0], ast.Constant) and t.comparators[0].value is None:
                    return t.left.id
                return None
            for n in self._own_nodes(f.node):
                if isinstance(n, ast.If):
                    g = guard_name(n.test)
                    if g:
                        for st in n.body:
                            for x in [st] + list(self._own_nodes(st)):
                                if isinstance(x, ast.Return) and isinstance(x.value, ast.Name) and x.value.id == g:
                                    scalar_returns.add(id(x))
            for n in self._own_nodes(f.node):
                if isinstance(n, ast.Return) and n.value is not None and id(n) not in scalar_returns:
                    at = n
                    if isinstance(n.value, ast.Tuple):
                        for q, e in enumerate(n.value.elts):
                            res.setdefault(q, set()).update(self.alias_params(e, at=at))
                    else:
                        res.setdefault(None, set()).update(self.alias_params(n.value, at=at))
        cache[f.qname] = res
        return res

    def alias_params(self, e, seen=frozenset(), at=None, pos=None):
        """set of parameters of THIS function (or 'self.<field>') whose memory the value of e may share; empty = certainly fresh.
        pos: e is unpacked and only component number pos matters"""
        if e is None or isinstance(e, (ast.Constant, ast.BinOp, ast.UnaryOp, ast.Compare, ast.BoolOp, ast.Dict, ast.ListComp,
                                       ast.JoinedStr, ast.Lambda, ast.GeneratorExp, ast.SetComp, ast.DictComp)):
            return set()
        if isinstance(e, (ast.List, ast.Tuple)):
            if pos is not None and pos < len(e.elts):
                return self.alias_params(e.elts[pos], seen, at)
            return set()                                          # a new container
        if isinstance(e, ast.IfExp):
            if isinstance(e.test, ast.Name) and e.test.id == 'inplace':
                return self.alias_params(e.orelse, seen, at)      # documented: `Y if inplace else copy(Y)`
            return self.alias_params(e.body, seen, at) | self.alias_params(e.orelse, seen, at)
        if isinstance(e, ast.Starred):
            return self.alias_params(e.value, seen, at)
        if isinstance(e, ast.Attribute):
            if e.attr in self.VIEW_ATTRS:
                return self.alias_params(e.value, seen, at)
            if isinstance(e.value, ast.Name) and e.value.id == 'self':
                return {f'self.{e.attr}'}
            return set()
        if isinstance(e, ast.Subscript):
            if not self._index_is_basic(e.slice, frozenset()):
                return set()
            return self.alias_params(e.value, seen, at)
        if isinstance(e, ast.Call):
            d = self.dotted(e.func)
            if d in self.VIEW_FUNCS and e.args:
                return self.alias_params(e.args[0], seen, at)
            if d is None and isinstance(e.func, ast.Attribute) and e.func.attr in self.VIEW_METHODS and \
                    not (isinstance(e.func.value, ast.Name) and self.m.imports.get(e.func.value.id) == 'teneva'):
                if e.func.attr == 'astype' and not any(k.arg == 'copy' for k in e.keywords):
                    return set()
                return self.alias_params(e.func.value, seen, at)
            r = self.resolve_fn(e.func)
            if r and r[0] == 'fn':
                F = r[1]
                ra = Tr(self.P, F).ret_alias_params()
                ps = set()
                for q, names in ra.items():
                    if pos is None or q is None or q == pos:
                        ps |= names
                out = set()
                for pn in ps:
                    arg = None
                    if pn in F.all_params and F.all_params.index(pn) < len(e.args) and not any(isinstance(a, ast.Starred) for a in e.args):
                        arg = e.args[F.all_params.index(pn)]
                    for k in e.keywords:
                        if k.arg == pn:
                            arg = k.value
                    if arg is not None:
                        out |= self.alias_params(arg, seen, at)
                return out
            return set()                                          # any other call returns a new array
        if isinstance(e, ast.Name):
            if isinstance(at, ast.AST):
                key = (e.id, id(at))
                if key in seen or len(seen) > 60:
                    return set()
                seen = seen | {key}
                out = set()
                for dfn in self._dominating_defs(e.id, at):
                    dn = dfn[-1] if isinstance(dfn[-1], ast.AST) else at     # inside the right-hand side: the bindings BEFORE it
                    if dfn[0] == 'param':
                        out.add(e.id)
                    elif dfn[0] == 'val':
                        out |= self.alias_params(dfn[1], seen, dn)
                    elif dfn[0] == 'elem':
                        out |= self.alias_params(dfn[1], seen, dn, pos=dfn[2])
                return out
            if e.id in seen:
                return set()
            seen = seen | {e.id}
            out = set()
            for dfn in self._defs(e.id, at):
                if dfn[0] == 'param':
                    out.add(e.id)
                elif dfn[0] == 'val':
                    out |= self.alias_params(dfn[1], seen, at)
                elif dfn[0] == 'elem':
                    out |= self.alias_params(dfn[1], seen, at, pos=dfn[2])
            return out
        return set()

    def may_alias(self, e, seen=frozenset(), depth=0, at=None):
        """-> None if the value of e is certainly a fresh object, else a short description of the argument it may share memory with"""
        for pn in sorted(self.alias_params(e, at=at)):
            r = self._param_alias(pn, depth) if not pn.startswith('self.') else f'field {pn}'
            if r:
                return r
        return None

    SCALAR_DOC = {'int', 'float', 'bool', 'str', 'function', 'callable', 'complex', 'string', 'number', 'type'}

    def _doc_scalar(self, f, pname):
        """the docstring types parameter pname as a plain scalar (int / float / bool / str): it cannot be modified in place"""
        doc = ast.get_docstring(f.node) if f.kind != 'lambda' else None
        if not doc:
            return False
        import re as _re
        m = _re.search(r'^\s*' + _re.escape(pname) + r'\s*\(([^)]*)\)\s*:', doc, flags=_re.M)
        if not m:
            return False
        ts = [t.strip().lower() for t in _re.split(r'[,/]| or ', m.group(1)) if t.strip()]
        return bool(ts) and all(t in self.SCALAR_DOC for t in ts)

    def _param_alias(self, pname, depth):
        """parameter pname of this function: an argument of the user (exported / public function), or -- for a private helper --
        whatever the call sites inside teneva pass"""
        f = self.fn
        if f.kind == 'lambda':
            return f'parameter {pname} of {f.qname}'
        if self._doc_scalar(f, pname):
            return None
        if pname == 'self':
            return None
        public = f.exported or not (f.node.name.startswith('_') or f.parent is not None)
        if public or depth >= 3:
            return f'parameter {pname} of {f.qname}'
        sites = 0
        for g in self.P.fns.values():
            if g.kind == 'lambda' or g is f:
                continue
            sub = Tr(self.P, g)
            for c in sub._own_nodes(g.node):
                if not isinstance(c, ast.Call):
                    continue
                fn_ = c.func
                nm = fn_.id if isinstance(fn_, ast.Name) else fn_.attr if isinstance(fn_, ast.Attribute) else None
                if nm != f.node.name:
                    continue
                if isinstance(fn_, ast.Name) and g.module is not f.module:
                    continue
                sites += 1
                arg = None
                ps = f.all_params if isinstance(fn_, ast.Attribute) and isinstance(fn_.value, ast.Name) and fn_.value.id == 'self' else f.params
                if pname in ps and ps.index(pname) < len(c.args) and not any(isinstance(a, ast.Starred) for a in c.args):
                    arg = c.args[ps.index(pname)]
                for k in c.keywords:
                    if k.arg == pname:
                        arg = k.value
                    if k.arg is None:
                        return f'parameter {pname} of {f.qname} (call with ** at {g.qname})'
                if arg is None:
                    continue
                r = sub.may_alias(arg, frozenset(), depth + 1, at=c)
                if r:
                    return f'parameter {pname} of {f.qname} <- {r}'
        if sites == 0:
            return f'parameter {pname} of {f.qname} (no call site found)'
        return None

    # ---- in-place modification of something that may be an argument of the user ------------------------------------------
    INPLACE_METHODS = {'sort', 'resize', 'fill', 'put', 'itemset', 'partition', 'setfield', 'setflags', 'append', 'extend', 'insert',
                       'remove', 'reverse', 'clear', 'pop', 'popitem', 'update', 'setdefault'}
    INPLACE_FUNCS = {'numpy.copyto', 'numpy.put', 'numpy.place', 'numpy.putmask', 'numpy.fill_diagonal', 'numpy.put_along_axis'}
    OUTPUT_PARAMS = {'info', 'cache'}       # documented output dictionaries of cross / als / als_func / cache_to_data

    def inplace_events(self):
        """x op= .., x[..] = .., x[..] op= .., x.sort() / .resize / .fill / .append .., np.<f>(.., out=x), np.copyto(x, ..) where x
        may share memory with an argument of the user (through views, asanyarray, teneva helpers that hand their argument back such
        as grid_prep_opt(s), iteration over a list argument): later calls on the same objects see other data -- Unknown.
        Documented exceptions: the output dictionaries info / cache; `inplace=True`; parameters the docstring types as scalars."""
        f = self.fn
        if f.kind == 'lambda':
            return []
        out = []
        ti = self._top_index()

        def base(t):
            while isinstance(t, (ast.Subscript, ast.Attribute)) and not (isinstance(t, ast.Attribute) and isinstance(t.value, ast.Name)
                                                                          and t.value.id == 'self'):
                if isinstance(t, ast.Attribute) and t.attr not in self.VIEW_ATTRS:
                    return None
                t = t.value
            return t

        def check(node, target, what):
            b = base(target)
            if b is None or not isinstance(b, ast.Name):
                return
            if self.is_dict(b.id) or self.is_gen(b.id) or b.id in self.OUTPUT_PARAMS:
                return
            if id(node) in self._structure()[0]:
                return
            ps = self.alias_params(b, at=node)
            # a subscript of a list element etc.: x[k][..] = .. modifies the element, which is an alias as well
            for pn in sorted(ps):
                if pn in self.OUTPUT_PARAMS or pn.startswith('self.'):
                    continue
                r = self._param_alias(pn, 0)
                if r:
                    out.append(self.U(node, f'{what}: the target may share memory with {r} (the argument is modified in place; later '
                                            f'calls on the same object see other data)'))
                    return
        for n in self._own_nodes(f.node):
            if isinstance(n, ast.AugAssign):
                if isinstance(n.target, ast.Name) and isinstance(n.value, (ast.Constant, ast.JoinedStr)) and \
                        isinstance(getattr(n.value, 'value', ''), str):
                    continue                                      # a string is immutable: this rebinds the name
                check(n, n.target, 'augmented assignment')
            elif isinstance(n, ast.Assign):
                for t in n.targets:
                    for tt in (t.elts if isinstance(t, (ast.Tuple, ast.List)) else [t]):
                        if isinstance(tt, ast.Subscript):
                            check(n, tt, 'item / slice assignment')
            elif isinstance(n, ast.Delete):
                for t in n.targets:
                    if isinstance(t, ast.Subscript):
                        check(n, t, 'del of an item')
            elif isinstance(n, ast.Call):
                d = self.dotted(n.func)
                if d in self.INPLACE_FUNCS and n.args:
                    check(n, n.args[0], f'{d}(x, ..)')
                for k in n.keywords:
                    if k.arg == 'out' and not (isinstance(k.value, ast.Constant) and k.value.value is None):
                        for tt in (k.value.elts if isinstance(k.value, ast.Tuple) else [k.value]):
                            check(n, tt, 'out= argument')
                if d is None and isinstance(n.func, ast.Attribute) and n.func.attr in self.INPLACE_METHODS and \
                        not (isinstance(n.func.value, ast.Name) and self.scope_of(n.func.value.id) is None):
                    check(n, n.func.value, f'in-place method .{n.func.attr}()')
                if d is None and isinstance(n.func, ast.Attribute) and n.func.attr == 'shuffle' and n.args:
                    check(n, n.args[0], 'shuffle(x)')
        return out

    def overwrite_events(self):
        """sp.linalg.<routine>(.., overwrite_a / overwrite_b / overwrite_x = True): LAPACK may write into the operand; if the
        operand may share memory with an argument of the user (through views: transpose, reshape, basic slices, iteration over a
        list argument), later calls on the same objects see other data -- a hidden-state channel (Unknown, rejected)."""
        f = self.fn
        if f.kind == 'lambda':
            return []
        out = []
        for c in self._own_nodes(f.node):
            if not isinstance(c, ast.Call):
                continue
            d = self.dotted(c.func)
            for k in c.keywords:
                if not (k.arg and k.arg.startswith('overwrite_')):
                    continue
                if isinstance(k.value, ast.Constant) and not k.value.value:
                    continue
                if not (d and d.split('.')[0] == 'scipy'):
                    out.append(self.U(c, f'{k.arg}= on a call that is not a SciPy routine'))
                    continue
                suffix = k.arg[len('overwrite_'):]
                # positional operand named by the suffix: a -> 1st, b -> 2nd; anything else: all array operands
                idx = {'a': [0], 'b': [1], 'x': [0], 'ab': [0], 'v': [0]}.get(suffix, list(range(len(c.args))))
                if suffix == 'b' and d.endswith(('solve_banded', 'solveh_banded', 'cho_solve', 'lu_solve', 'cho_solve_banded')):
                    idx = [1]
                for j in idx:
                    if j < len(c.args):
                        r = self.may_alias(c.args[j], at=c)
                        if r:
                            out.append(self.U(c, f'{d}(.., {k.arg}=True): the operand may share memory with {r} (the argument is '
                                                 f'overwritten; later calls on the same object see other data)'))
        return out

    # ---- storage from np.empty / np.empty_like -------------------------------------------------------------------------
    UNINIT_CTORS = {'numpy.empty', 'numpy.empty_like', 'numpy.ndarray'}

    def uninit_events(self):
        """X = np.empty(..) holds whatever the allocator left there.  Accepted only if, in the block that creates X, a store
        into X (X[..] = .., or v[..] = .. for a row view v obtained by `for .., v, .. in zip(.., X, ..)` / `for v in X`) is
        executed on every path before X is read: a store at the top level of the block, or a for loop whose body stores at
        its top level (recursively through nested for loops) with no continue / break / return before the store; and every
        later for loop of the block that stores into X obeys the same rule.  Anything else is `Uninit` (hidden state)."""
        f = self.fn
        if f.kind == 'lambda':
            bad = [x for x in ast.walk(f.node.body) if isinstance(x, ast.Call) and self.dotted(x.func) in self.UNINIT_CTORS]
            return [('ev', ('Uninit', self.P.site(f, x, 'np.empty in a lambda'))) for x in bad]
        out = []
        handled = set()

        def own_nodes(node):
            """nodes of this function, not of nested defs / lambdas / classes"""
            todo = list(ast.iter_child_nodes(node))
            while todo:
                x = todo.pop()
                yield x
                if not isinstance(x, (ast.FunctionDef, ast.AsyncFunctionDef, ast.Lambda, ast.ClassDef)):
                    todo.extend(ast.iter_child_nodes(x))

        def is_store_base(parents, x):
            par = parents.get(id(x))
            return isinstance(par, ast.Subscript) and isinstance(par.ctx, ast.Store) and par.value is x

        def reads(t, al):
            parents = {}
            for a in [t] + list(own_nodes(t)):
                for c in ast.iter_child_nodes(a):
                    parents[id(c)] = a
            for x in [t] + list(own_nodes(t)):
                if isinstance(x, ast.Name) and x.id in al and isinstance(x.ctx, ast.Load) and not is_store_base(parents, x):
                    return True
            return False

        def direct_store(t, al):
            if isinstance(t, ast.Assign):
                return any(isinstance(g, ast.Subscript) and isinstance(g.value, ast.Name) and g.value.id in al
                           for g in t.targets)
            return False

        def any_store(t, al):
            return any(isinstance(x, ast.Subscript) and isinstance(x.ctx, ast.Store) and isinstance(x.value, ast.Name)
                       and x.value.id in al for x in [t] + list(own_nodes(t)))

        def loop_aliases(L, al):
            al = set(al)
            it, tg = L.iter, L.target
            if isinstance(it, ast.Call) and isinstance(it.func, ast.Name) and it.func.id == 'enumerate' and it.args and \
                    isinstance(tg, ast.Tuple) and len(tg.elts) == 2:
                it, tg = it.args[0], tg.elts[1]
            if isinstance(it, ast.Name) and it.id in al and isinstance(tg, ast.Name):
                al.add(tg.id)
            if isinstance(it, ast.Call) and isinstance(it.func, ast.Name) and it.func.id == 'zip' and isinstance(tg, ast.Tuple) \
                    and len(tg.elts) == len(it.args):
                for a, g in zip(it.args, tg.elts):
                    if isinstance(a, ast.Name) and a.id in al and isinstance(g, ast.Name):
                        al.add(g.id)
            return al

        def jumps(t):
            return any(isinstance(x, (ast.Continue, ast.Break, ast.Return)) for x in [t] + list(own_nodes(t)))

        def loop_ok(L, al):
            """every iteration of L stores into the buffer before anything can skip the store"""
            if L.orelse:
                return False
            al = loop_aliases(L, al)
            for b in L.body:
                if direct_store(b, al):
                    return True
                if isinstance(b, ast.For) and any_store(b, loop_aliases(b, al)):
                    return loop_ok(b, al)
                if jumps(b):
                    return False
                if isinstance(b, ast.Assign) and any(isinstance(g, ast.Name) and g.id in al for g in b.targets):
                    return False
            return False

        def analyse(X, node, rest):
            al = {X}
            found = False
            for t in rest:
                if isinstance(t, ast.Assign) and any(isinstance(g, ast.Name) and g.id == X for g in t.targets):
                    break                                        # X rebound: the buffer is gone
                if direct_store(t, al):
                    found = True
                    continue
                if isinstance(t, ast.For) and any_store(t, loop_aliases(t, al)):
                    if loop_ok(t, al):
                        found = True
                        continue
                    return f'np.empty buffer {X}: a loop stores into it but some path of the loop body skips the store'
                if not found and reads(t, al):
                    return f'np.empty buffer {X} is read before a store that every path executes'
            if not found:
                return f'np.empty buffer {X} is not written on every path in the block that creates it'
            return None

        def blocks(node):
            for fld in ('body', 'orelse', 'finalbody'):
                b = getattr(node, fld, None)
                if isinstance(b, list) and b and isinstance(b[0], ast.stmt):
                    yield b
            for h in getattr(node, 'handlers', []) or []:
                yield h.body

        def walk_block(block):
            for j, t in enumerate(block):
                if isinstance(t, (ast.FunctionDef, ast.AsyncFunctionDef, ast.ClassDef)):
                    continue
                if isinstance(t, ast.Assign) and len(t.targets) == 1 and isinstance(t.targets[0], ast.Name) and \
                        isinstance(t.value, ast.Call) and self.dotted(t.value.func) in self.UNINIT_CTORS:
                    handled.add(id(t.value))
                    msg = analyse(t.targets[0].id, t, block[j + 1:])
                    if msg:
                        out.append(('ev', ('Uninit', self.P.site(f, t, msg))))
                for b in blocks(t):
                    walk_block(b)
        walk_block(f.node.body)
        for x in own_nodes(f.node):
            if isinstance(x, ast.Call) and id(x) not in handled and self.dotted(x.func) in self.UNINIT_CTORS:
                out.append(('ev', ('Uninit', self.P.site(f, x, 'np.empty result not bound to a plain variable'))))
        return out

    def default_value_events(self):
        """Default values are evaluated once, when the def statement runs; a default that is computed by a call (anything
        but a constant, a literal or a plain reference) is part of every call that omits the argument, so its events are
        charged to the function entry (np.random.<x>(..) / random.<x>(..) -> GlobalDraw, a clock -> Unknown, ...)."""
        f = self.fn
        a = f.node.args
        out = []
        for d in list(a.defaults) + [x for x in a.kw_defaults if x is not None]:
            if isinstance(d, ast.Lambda):
                continue                      # a closure: handled as FdClos where the parameter is called
            if any(isinstance(x, (ast.Call, ast.Await, ast.Yield, ast.YieldFrom, ast.NamedExpr)) for x in ast.walk(d)):
                for x in ast.walk(d):
                    if isinstance(x, ast.Call):
                        dd = self.dotted(x.func)
                        if dd and (dd.startswith('numpy.random') or dd == 'random' or dd.startswith('random.')) \
                                and dd not in GEN_CTORS:
                            out.append(('ev', ('GlobalDraw', self.P.site(f, x, f'default value computed by {dd}(..)'))))
                        elif dd in GEN_CTORS:
                            out.append(self.U(x, 'generator object created as a default value (shared by all calls)'))
                        elif dd in CLOCKS:
                            out.append(self.U(x, f'clock {dd} in a default value'))
                        elif dd and dd.split('.')[0] in PURE_ROOTS:
                            pass
                        elif isinstance(x.func, ast.Name) and hasattr(builtins, x.func.id) and x.func.id not in BAD_BUILTINS \
                                and x.func.id not in self.m.funcs and x.func.id not in self.m.imports:
                            pass
                        else:
                            out.append(self.U(x, 'default value computed by a call the translator does not know'))
        return out


RAND_PINNED = ("[If(test=BoolOp(op=Or(), values=[Compare(left=Name(id='seed', ctx=Load()), ops=[Is()], "
               "comparators=[Constant(value=None)]), Call(func=Name(id='isinstance', ctx=Load()), args=[Name(id='seed', "
               "ctx=Load()), Name(id='int', ctx=Load())], keywords=[])]), body=[Return(value=Call(func=Attribute(value="
               "Attribute(value=Name(id='np', ctx=Load()), attr='random', ctx=Load()), attr='default_rng', ctx=Load()), "
               "args=[Name(id='seed', ctx=Load())], keywords=[]))], orelse=[Return(value=Name(id='seed', ctx=Load()))])]")


# the repaired shape: NumPy integers are integers too -- isinstance(seed, (int, np.integer))
RAND_PINNED_NPINT = RAND_PINNED.replace(
    "Name(id='int', ctx=Load())], keywords=[])])",
    "Tuple(elts=[Name(id='int', ctx=Load()), Attribute(value=Name(id='np', ctx=Load()), attr='integer', ctx=Load())], "
    "ctx=Load())], keywords=[])])")
assert RAND_PINNED_NPINT != RAND_PINNED


def mutable_default(d):
    if isinstance(d, (ast.Dict, ast.List, ast.Set, ast.ListComp, ast.DictComp, ast.SetComp)):
        return True
    if isinstance(d, ast.Call) and isinstance(d.func, ast.Name) and d.func.id in ('dict', 'list', 'set', 'defaultdict',
                                                                                   'OrderedDict', 'bytearray'):
        return True
    return False


def strip_sites(c):
    if isinstance(c, tuple):
        if c and c[0] in ('if', 'loop'):
            return (c[0],) + tuple(strip_sites(x) for x in c[2:])
        if c and c[0] in ('GlobalDraw', 'Uninit'):
            return (c[0],)
        if c and c[0] in ('DrawFrom', 'CallParam', 'Call', 'Reset', 'Write', 'FGlob', 'FdGlob'):
            return (c[0],) + tuple(strip_sites(x) for x in c[2:])
        return tuple(strip_sites(x) for x in c)
    if isinstance(c, list):
        return [strip_sites(x) for x in c]
    return c


def translate(repo):
    P = Program(repo)
    P.lifted, P.genfields, P.geninit, P.owndicts = {}, {}, {}, {}
    P.final = False
    P._notes = []
    P.note = lambda fn, n, msg: P._notes.append(dict(fn=fn.qname, line=getattr(n, 'lineno', fn.line), note=msg))

    def draws_field(F, fld, seen):
        if F.qname in seen or F.body_cmd is None:
            return False
        seen.add(F.qname)

        def walk(c):
            if c[0] == 'ev':
                e = c[1]
                if e[0] == 'DrawFrom' and e[2] == fld:
                    return True
                if e[0] == 'Call' and any(p == fld for p, _ in e[3]):
                    return draws_field(P.fns[e[2]], fld, seen)
                return False
            if c[0] == 'seq':
                return any(walk(x) for x in c[1])
            if c[0] in ('if', 'try'):
                return any(walk(x) for x in c[-2:])
            if c[0] == 'loop':
                return walk(c[2])
            return False
        return walk(F.body_cmd)
    P.draws_field = draws_field

    def is_pure(F, seen):
        if F.qname in seen:
            return True
        if F.body_cmd is None:
            return False
        seen.add(F.qname)
        tr = Tr(P, F)

        def walk(c):
            if c[0] == 'ev':
                e = c[1]
                if e[0] == 'Call':
                    return not e[3] and not e[4] and all(v[0] in ('FOmit', 'FUser') for _, v in e[5]) and \
                        is_pure(P.fns[e[2]], seen)
                if e[0] == 'CallParam':
                    d = tr.fdef_of(F, e[2]) if e[2] in F.all_params else ('FdUnknown',)
                    return d[0] in ('FdNone', 'FdPure') or (d[0] == 'FdClos' and is_pure(P.fns[d[1]], seen))
                return False
            if c[0] == 'seq':
                return all(walk(x) for x in c[1])
            if c[0] in ('if', 'try'):
                return all(walk(x) for x in c[-2:])
            if c[0] == 'loop':
                return walk(c[2])
            return True
        return walk(F.body_cmd)
    P.is_pure = is_pure

    fns = list(P.fns.values())
    # static seeds of the fixpoint
    for f in fns:
        for p in f.params + f.kwonly:
            if p == 'seed':
                f.gen.add(p)
            if p in f.defaults and mutable_default(f.defaults[p]):
                f.dicts.add(p)
                P.owndicts.setdefault(f.qname, set()).add(p)
    prev = None
    for it in range(20):
        P.changed = False
        P.sites, P._notes = [], []
        for f in fns:
            f.new_cmd = Tr(P, f).function()
        cur = {f.qname: strip_sites(f.new_cmd) for f in fns}
        for f in fns:
            f.body_cmd = f.new_cmd
        if not P.changed and cur == prev:
            if P.final:
                break
            P.final = True
        prev = cur
    else:
        P.init_problems.append((0, 'translator fixpoint did not converge'))
    # utils._rand must have exactly the pinned shape; it is the primitive behind MkGen
    rf = P.fns.get('utils._rand')
    if rf is None:
        P.init_problems.append((0, 'teneva/utils.py has no _rand'))
    else:
        body = [s for s in rf.node.body if not (isinstance(s, ast.Expr) and isinstance(s.value, ast.Constant))]
        ok = ast.dump(ast.Module(body=body, type_ignores=[]).body[0] if False else body) == RAND_PINNED \
            if False else ('[' + ', '.join(ast.dump(s) for s in body) + ']') in (RAND_PINNED, RAND_PINNED_NPINT)
        ok = ok and rf.params == ['seed'] and isinstance(rf.defaults.get('seed'), ast.Constant) and \
            rf.defaults['seed'].value is None and not rf.node.decorator_list
        if ok:
            rf.body_cmd = ('ev', ('RandPrim',))
        else:
            rf.body_cmd = ('ev', ('Unknown', f'utils._rand:{rf.line}: _rand does not have the pinned shape '
                                   '(int / None -> default_rng(seed), otherwise the object itself)'))
    return P


# --------------------------------------------------------------------------- Coq output
def cstr(s):
    s = ''.join(ch if 32 <= ord(ch) < 127 else '?' for ch in s)
    return '"' + s.replace('"', '""') + '"'


def clist(xs):
    return '[' + '; '.join(xs) + ']'


def zl(z):
    return f'({int(z)})%Z'


def c_sarg(a):
    if a[0] == 'SConst':
        return f'(SConst {zl(a[1])})'
    return f'(SVar {cstr(a[1])})' if a[0] == 'SVar' else a[0]


def c_darg(a):
    return f'(DVar {cstr(a[1])})' if a[0] == 'DVar' else a[0]


def c_farg(a):
    if a[0] == 'FVar':
        return f'(FVar {cstr(a[1])})'
    if a[0] == 'FClos':
        return f'(FClos {cstr(a[1])} {clist(f"({cstr(p)}, {c_sarg(v)})" for p, v in a[2])})'
    if a[0] == 'FGlob':
        return f'(FGlob {a[1]})'
    return a[0]


def c_fdef(a):
    if a[0] == 'FdGlob':
        return f'(FdGlob {a[1]})'
    if a[0] == 'FdClos':
        return f'(FdClos {cstr(a[1])})'
    return a[0]


def c_event(e):
    k = e[0]
    if k in ('MkGen',):
        return f'MkGen {cstr(e[1])} {cstr(e[2])}'
    if k == 'MkGenConst':
        return f'MkGenConst {cstr(e[1])} {zl(e[2])}'
    if k in ('MkGenNone', 'WriteAny', 'Clear', 'ReadAll'):
        return f'{k} {cstr(e[1])}'
    if k in ('RandPrim', 'Clock'):
        return k
    if k in ('GlobalDraw', 'Uninit'):
        return f'{k} {e[1]}'
    if k == 'DrawFrom':
        return f'DrawFrom {e[1]} {cstr(e[2])}'
    if k == 'CallParam':
        return f'CallParam {e[1]} {cstr(e[2])}'
    if k == 'Call':
        sb = clist(f'({cstr(p)}, {c_sarg(v)})' for p, v in e[3])
        db = clist(f'({cstr(p)}, {c_darg(v)})' for p, v in e[4])
        fb = clist(f'({cstr(p)}, {c_farg(v)})' for p, v in e[5])
        return f'Call {e[1]} {cstr(e[2])} {sb} {db} {fb}'
    if k == 'Reset':
        return f'Reset {e[1]} {cstr(e[2])} {clist(cstr(x) for x in e[3])}'
    if k in ('Read', 'LogRead', 'WriteT'):
        return f'{k} {cstr(e[1])} {cstr(e[2])}'
    if k == 'Write':
        return f'Write {e[1]} {cstr(e[2])} {cstr(e[3])}'
    if k == 'Unknown':
        return f'Unknown {cstr(e[1])}'
    raise ValueError(k)


def c_cmd(c, ind=2):
    sp = ' ' * ind
    k = c[0]
    if k == 'skip':
        return 'Skip'
    if k == 'ev':
        return f'Ev ({c_event(c[1])})'
    if k == 'seq':
        xs = c[1]
        out = c_cmd(xs[-1], ind)
        for x in reversed(xs[:-1]):
            out = f'Seq ({c_cmd(x, ind)})\n{sp}({out})'
        return out
    if k == 'if':
        return f'If {c[1]} ({c_cmd(c[2], ind + 2)})\n{sp}  ({c_cmd(c[3], ind + 2)})'
    if k == 'loop':
        return f'Loop {c[1]} ({c_cmd(c[2], ind + 2)})'
    if k == 'try':
        return f'Try ({c_cmd(c[1], ind + 2)})\n{sp}  ({c_cmd(c[2], ind + 2)})'
    return {'ret': 'Return', 'brk': 'Break', 'cont': 'Continue', 'raise': 'Raise'}[k]


def unknowns(c, out):
    if c[0] == 'ev':
        if c[1][0] in ('Unknown', 'GlobalDraw', 'Uninit'):
            out.append(c[1])
    elif c[0] == 'seq':
        for x in c[1]:
            unknowns(x, out)
    elif c[0] in ('if', 'try'):
        unknowns(c[-2], out)
        unknowns(c[-1], out)
    elif c[0] == 'loop':
        unknowns(c[2], out)
    return out


def walk_events(c):
    if c[0] == 'ev':
        yield c[1]
    elif c[0] == 'seq':
        for x in c[1]:
            yield from walk_events(x)
    elif c[0] in ('if', 'try'):
        yield from walk_events(c[-2])
        yield from walk_events(c[-1])
    elif c[0] == 'loop':
        yield from walk_events(c[2])


def universe(P):
    """for every default dictionary (f, p): the string keys written under it by f or by any function it is handed to"""
    out = []
    for q in sorted(P.owndicts):
        for p in sorted(P.owndicts[q]):
            keys, seen, todo = [], set(), [(q, p)]
            while todo:
                g, v = todo.pop()
                if (g, v) in seen:
                    continue
                seen.add((g, v))
                for e in walk_events(P.fns[g].body_cmd):
                    if e[0] == 'Reset' and e[2] == v:
                        keys += [k for k in e[3] if k not in keys]
                    elif e[0] == 'Write' and e[2] == v and e[3] not in keys:
                        keys.append(e[3])
                    elif e[0] == 'WriteT' and e[1] == v and e[2] not in keys:
                        keys.append(e[2])
                    elif e[0] == 'Call':
                        for pp, a in e[4]:
                            if a == ('DVar', v):
                                todo.append((e[2], pp))
            out.append(((q, p), keys))
    return out


def emit(P):
    """returns (coq source, report dict)"""
    lines = ['(* GENERATED by harness/skeleton_c10.py from the working tree of teneva -- do not edit *)',
             'From Coq Require Import String List ZArith.', 'From TV Require Import Model.Effects.',
             'Import ListNotations.', 'Open Scope string_scope.', '']
    names = []
    report = dict(functions=[], sites=P.sites, notes=P._notes, module_problems=[], seeded_exported=[],
                  flagged=[], rules=RULES)
    problems = [(m.name, ln, msg) for m in P.mods.values() for ln, msg in m.problems] + \
               [('__init__', ln, msg) for ln, msg in P.init_problems]
    report['module_problems'] = problems
    t0 = Tr(P, next(iter(P.fns.values())))
    k = 0
    for q in sorted(P.fns):
        f = P.fns[q]
        tr = Tr(P, f)
        gens, dicts, calls = tr.specials(f)
        own = sorted(P.owndicts.get(q, set()))
        dps = [d for d in dicts if d not in own]
        int_ok = any(g in f.all_params for g in gens)
        cal = [(p, tr.fdef_of(f, p)) for p in calls]
        ident = f'fn_{k}'
        k += 1
        names.append(ident)
        lines.append(f'Definition {ident} : fn := mkfn {cstr(q)} {"true" if f.exported else "false"} '
                     f'{clist(cstr(g) for g in gens)} {"true" if int_ok else "false"} '
                     f'{clist(cstr(d) for d in own)} {clist(cstr(d) for d in dps)} '
                     f'{clist(f"({cstr(p)}, {c_fdef(d)})" for p, d in cal)}\n  ({c_cmd(f.body_cmd, 4)}).')
        fl = unknowns(f.body_cmd, [])
        report['functions'].append(dict(name=q, line=f.line, file=os.path.relpath(f.module.path, P.repo), exported=f.exported,
                                        seeds=gens, own_dicts=own, dict_params=dps, callables=[[p, list(d)] for p, d in cal]))
        for e in fl:
            if e[0] == 'Unknown':
                report['flagged'].append(dict(fn=q, event='Unknown', msg=e[1]))
            else:
                s = P.sites[e[1]]
                report['flagged'].append(dict(fn=q, event=e[0], file=s['file'], line=s['line'], msg=s['what']))
        if f.exported and f.parent is None and any(g in f.all_params for g in gens):
            report['seeded_exported'].append(q)
    # module level problems become a pseudo function that can never pass
    if problems:
        body = seq([('ev', ('Unknown', f'{m}:{ln}: {msg}')) for m, ln, msg in problems])
        lines.append(f'Definition fn_module_level : fn := mkfn "<module level>" true [] false [] [] []\n  ({c_cmd(body, 4)}).')
        names.append('fn_module_level')
        for m, ln, msg in problems:
            report['flagged'].append(dict(fn='<module level>', event='Unknown', msg=f'{m}:{ln}: {msg}'))
    uni = universe(P)
    report['universe'] = [[list(l), ks] for l, ks in uni]
    lines.append('')
    lines.append('(* keys the library can store in each default dictionary (certificate; every write is checked against it) *)')
    lines.append('Definition universe_tbl : list (dloc * list string) :=\n  ' +
                 clist(f'(({cstr(l[0])}, {cstr(l[1])}), {clist(cstr(k) for k in ks)})' for l, ks in uni) + '.')
    lines.append('Definition universe (l : dloc) : list string := match lookup_loc universe_tbl l with Some ks => ks | None => [] end.')
    lines.append('')
    lines.append('Definition api : list fn :=\n  ' + clist(names) + '.')
    lines.append('')
    return '\n'.join(lines) + '\n', report


def generate(repo, out_v, out_json=None):
    P = translate(repo)
    src, rep = emit(P)
    os.makedirs(os.path.dirname(out_v), exist_ok=True)
    old = open(out_v).read() if os.path.exists(out_v) else None
    if old != src:
        open(out_v, 'w').write(src)
    if out_json:
        json.dump(rep, open(out_json, 'w'), indent=1)
    return rep


if __name__ == '__main__':
    import sys
    repo = sys.argv[1] if len(sys.argv) > 1 else '/repo'
    rep = generate(repo, sys.argv[2] if len(sys.argv) > 2 else '/tmp/SkelC10.v', '/tmp/SkelC10.json')
    print(len(rep['functions']), 'functions;', len(rep['sites']), 'sites;', len(rep['flagged']), 'flagged')
    for f in rep['flagged']:
        print('  FLAG', f)
    for n in rep['notes']:
        print('  note', n)
    print('seeded exported:', rep['seeded_exported'])
